"""CrossHair harness for C12: one inductive step of SymbolTable / Scope / CaseInsensitiveDict / CaseInsensitiveDefaultDict
from an arbitrary valid pre-state (content decided by symbolic Booleans) with a symbolically chosen key spelling,
compared with a reference mapping keyed by the case-folded name (the representation invariant)."""
from loki.types.symbol_table import SymbolTable, SymbolAttributes
from loki.types.scope import Scope
from loki.types import BasicType
from loki.tools.util import CaseInsensitiveDict, CaseInsensitiveDefaultDict

# spellings of the canonical names 'a', 'b' (with Fortran dimension suffixes) and of an absent name
POOL = ['a', 'A', 'b', 'B', 'a(1)', 'A(i, j)', 'c', 'C']
CANON = ['a', 'a', 'b', 'b', 'a', 'a', 'c', 'c']
NP = 8
T = [BasicType.INTEGER, BasicType.REAL, BasicType.LOGICAL, BasicType.CHARACTER, BasicType.DEFERRED]
# type tag per (level, canonical name): identifies where a looked-up entry came from
TAG = {('child', 'a'): 0, ('child', 'b'): 1, ('parent', 'a'): 2, ('parent', 'b'): 3}
NEW = 4


def mk(ca: bool, cb: bool, pa: bool, pb: bool):
    """two-level chain; returns (parent, child, ref_parent, ref_child) ; ref_* : canonical name -> tag"""
    parent = SymbolTable()
    child = SymbolTable(parent=parent)
    rp, rc = {}, {}
    if pa:
        parent['A'] = SymbolAttributes(T[2], intent='in')
        rp['a'] = 2
    if pb:
        parent['b'] = SymbolAttributes(T[3])
        rp['b'] = 3
    if ca:
        child['a'] = SymbolAttributes(T[0], intent='out')
        rc['a'] = 0
    if cb:
        child['B(2)'] = SymbolAttributes(T[1], intent='inout')
        rc['b'] = 1
    return parent, child, rp, rc


INTENT = {0: 'out', 1: 'inout', 2: 'in', 3: None}   # extra attribute per pre-state entry: must travel with its entry only


def tag(attr):
    """fingerprint of an entry: the type tag; entries of the pre-state also carry a distinguishing intent, new ones none"""
    if attr is None:
        return None
    t = T.index(attr.dtype)
    if attr.intent != INTENT.get(t):
        return ('foreign-attributes', t, attr.intent)
    return t


def state_ok(parent, child, rp, rc):
    """the real tables agree with the reference on every canonical name, through every access path"""
    for name in ('a', 'b', 'c'):
        for sp in (name, name.upper(), name + '(3)'):
            if (sp in child) != (name in rc) or (sp in parent) != (name in rp):
                return False
            if tag(child.lookup(sp, recursive=False)) != rc.get(name):
                return False
            if tag(child.lookup(sp)) != rc.get(name, rp.get(name)):
                return False
            if tag(parent.lookup(sp)) != rp.get(name):
                return False
    return len(child) == len(rc) and len(parent) == len(rp)


def st_contains(ca: bool, cb: bool, pa: bool, pb: bool, k: int) -> bool:
    """
    pre: 0 <= k < 8
    post: _
    """
    parent, child, rp, rc = mk(ca, cb, pa, pb)
    return (POOL[k] in child) == (CANON[k] in rc) and state_ok(parent, child, rp, rc)


def st_getitem_get(ca: bool, cb: bool, pa: bool, pb: bool, k: int) -> bool:
    """
    pre: 0 <= k < 8
    post: _
    """
    parent, child, rp, rc = mk(ca, cb, pa, pb)
    try:
        got = tag(child[POOL[k]])
    except KeyError:
        got = 'KeyError'
    want = rc.get(CANON[k], 'KeyError')
    if got != want:
        return False
    if tag(child.get(POOL[k])) != rc.get(CANON[k]):
        return False
    d = SymbolAttributes(T[NEW])
    g = child.get(POOL[k], d)
    return (g is d) if CANON[k] not in rc else tag(g) == rc[CANON[k]]


def st_lookup(ca: bool, cb: bool, pa: bool, pb: bool, k: int, rec: bool) -> bool:
    """
    pre: 0 <= k < 8
    post: _
    """
    parent, child, rp, rc = mk(ca, cb, pa, pb)
    want = rc.get(CANON[k], rp.get(CANON[k]) if rec else None)
    return tag(child.lookup(POOL[k], recursive=rec)) == want


def st_setitem(ca: bool, cb: bool, pa: bool, pb: bool, k: int) -> bool:
    """
    pre: 0 <= k < 8
    post: _
    """
    parent, child, rp, rc = mk(ca, cb, pa, pb)
    v = SymbolAttributes(T[NEW])
    child[POOL[k]] = v
    rc[CANON[k]] = NEW
    if not state_ok(parent, child, rp, rc):
        return False
    # stored value is a copy: mutating the caller's object does not change the table
    v.__dict__['marker'] = 1
    return 'marker' not in child.lookup(POOL[k]).__dict__


def st_setdefault(ca: bool, cb: bool, pa: bool, pb: bool, k: int) -> bool:
    """
    pre: 0 <= k < 8
    post: _
    """
    parent, child, rp, rc = mk(ca, cb, pa, pb)
    child.setdefault(POOL[k], SymbolAttributes(T[NEW]))
    rc.setdefault(CANON[k], NEW)
    return state_ok(parent, child, rp, rc)


def st_update(ca: bool, cb: bool, pa: bool, pb: bool, k: int, k2: int, aslist: bool) -> bool:
    """
    pre: 0 <= k < 8 and 0 <= k2 < 8 and k != k2
    post: _
    """
    parent, child, rp, rc = mk(ca, cb, pa, pb)
    items = [(POOL[k], SymbolAttributes(T[NEW])), (POOL[k2], SymbolAttributes(T[3]))]   # T[3]: INTENT[3] is None
    child.update(items if aslist else dict(items))
    rc[CANON[k]] = NEW
    rc[CANON[k2]] = 3
    return state_ok(parent, child, rp, rc)


def st_delitem(ca: bool, cb: bool, pa: bool, pb: bool, k: int) -> bool:
    """
    pre: 0 <= k < 8
    post: _
    """
    parent, child, rp, rc = mk(ca, cb, pa, pb)
    present = CANON[k] in rc
    try:
        del child[POOL[k]]
        raised = False
    except KeyError:
        raised = True
    if raised == present:
        return False
    rc.pop(CANON[k], None)
    return state_ok(parent, child, rp, rc)


def st_pop(ca: bool, cb: bool, pa: bool, pb: bool, k: int, withdefault: bool) -> bool:
    """
    pre: 0 <= k < 8
    post: _
    """
    parent, child, rp, rc = mk(ca, cb, pa, pb)
    present = CANON[k] in rc
    try:
        r = child.pop(POOL[k], None) if withdefault else child.pop(POOL[k])
        raised = False
    except KeyError:
        raised = True
        r = None
    if present:
        if raised or tag(r) != rc[CANON[k]]:
            return False
    else:
        if withdefault and (raised or r is not None):
            return False
        if not withdefault and not raised:
            return False
    rc.pop(CANON[k], None)
    return state_ok(parent, child, rp, rc)


def st_clone_independent(ca: bool, cb: bool, pa: bool, pb: bool, k: int) -> bool:
    """
    pre: 0 <= k < 8
    post: _
    """
    parent, child, rp, rc = mk(ca, cb, pa, pb)
    c2 = child.clone()
    rc2 = dict(rc)
    if not state_ok(parent, c2, rp, rc2):
        return False
    c2[POOL[k]] = SymbolAttributes(T[NEW])
    rc2[CANON[k]] = NEW
    return state_ok(parent, c2, rp, rc2) and state_ok(parent, child, rp, rc)


def st_reparent(ca: bool, cb: bool, pa: bool, pb: bool, k: int, oa: bool) -> bool:
    """
    pre: 0 <= k < 8
    post: _
    """
    parent, child, rp, rc = mk(ca, cb, pa, pb)
    other = SymbolTable()
    ro = {}
    if oa:
        other['a'] = SymbolAttributes(T[NEW])
        ro['a'] = NEW
    child.parent = other
    if tag(child.lookup(POOL[k])) != rc.get(CANON[k], ro.get(CANON[k])):
        return False
    child.parent = None
    return tag(child.lookup(POOL[k])) == rc.get(CANON[k])


def st_returned_copies(ca: bool, cb: bool, pa: bool, pb: bool, k: int) -> bool:
    """
    pre: 0 <= k < 8
    post: _
    """
    parent, child, rp, rc = mk(ca, cb, pa, pb)
    for getter in (lambda: child.lookup(POOL[k]), lambda: child.get(POOL[k]), lambda: child.lookup(POOL[k], recursive=False)):
        r = getter()
        if r is not None:
            r.__dict__['marker'] = 1
            r2 = getter()
            if r2 is r or 'marker' in r2.__dict__:
                return False
    return state_ok(parent, child, rp, rc)


def st_three_levels(g: bool, p: bool, c: bool, k: int) -> bool:
    """
    pre: 0 <= k < 8
    post: _
    """
    t0 = SymbolTable()
    t1 = SymbolTable(parent=t0)
    t2 = SymbolTable(parent=t1)
    want = None
    if g:
        t0['A'] = SymbolAttributes(T[2], intent='in')
        want = 2
    if p:
        t1['a(1)'] = SymbolAttributes(T[1], intent='inout')
        want = 1
    if c:
        t2['a'] = SymbolAttributes(T[0], intent='out')
        want = 0
    exp = want if CANON[k] == 'a' else None
    return tag(t2.lookup(POOL[k])) == exp


# ---------------------------------------------------------------- Scope

def mk_scopes(ca: bool, pa: bool):
    ps = Scope()
    cs = Scope(parent=ps)
    rp, rc = {}, {}
    if pa:
        ps.declare('A', T[2], intent='in')
        rp['a'] = 2
    if ca:
        cs.declare('a', T[0], intent='out')
        rc['a'] = 0
    return ps, cs, rp, rc


def sc_declare(ca: bool, pa: bool, k: int, fail: bool) -> bool:
    """
    pre: 0 <= k < 8
    post: _
    """
    ps, cs, rp, rc = mk_scopes(ca, pa)
    try:
        cs.declare(POOL[k], T[NEW], fail=fail)
        raised = False
    except ValueError:
        raised = True
    if raised != (fail and CANON[k] in rc):
        return False
    if not raised:
        rc[CANON[k]] = NEW
    return state_ok(ps.symbol_attrs, cs.symbol_attrs, rp, rc)


def sc_update(ca: bool, pa: bool, k: int, fail: bool) -> bool:
    """
    pre: 0 <= k < 8
    post: _
    """
    ps, cs, rp, rc = mk_scopes(ca, pa)
    try:
        cs.update(POOL[k], fail=fail, dtype=T[NEW])
        raised = False
    except ValueError:
        raised = True
    if raised != (fail and CANON[k] not in rc):
        return False
    if not raised:
        # update() of an existing local entry keeps that entry's other attributes; a new entry has only what was given
        rc[CANON[k]] = ('foreign-attributes', NEW, 'out') if CANON[k] in rc else NEW
    return state_ok(ps.symbol_attrs, cs.symbol_attrs, rp, rc)


def sc_get_type_and_scope(ca: bool, pa: bool, k: int, rec: bool) -> bool:
    """
    pre: 0 <= k < 8
    post: _
    """
    ps, cs, rp, rc = mk_scopes(ca, pa)
    want = rc.get(CANON[k], rp.get(CANON[k]) if rec else None)
    if tag(cs.get_type(POOL[k], recursive=rec, fail=False)) != want:
        return False
    try:
        cs.get_type(POOL[k], recursive=rec)
        raised = False
    except KeyError:
        raised = True
    if raised != (want is None):
        return False
    owner = cs.get_symbol_scope(POOL[k])
    exp = cs if CANON[k] in rc else (ps if CANON[k] in rp else None)
    return owner is exp


# ---------------------------------------------------------------- CaseInsensitiveDict / DefaultDict

DPOOL = ['ab', 'AB', 'aB', 'Ab', 'x', 'X']
DCANON = ['ab', 'ab', 'ab', 'ab', 'x', 'x']


def mk_cid(kind: int, hab: bool, hx: bool):
    d = CaseInsensitiveDict() if kind == 0 else CaseInsensitiveDefaultDict(lambda: -1)
    ref = {}
    if hab:
        d['Ab'] = 1
        ref['ab'] = 1
    if hx:
        d['x'] = 2
        ref['x'] = 2
    return d, ref


def cid_ok(d, ref):
    for name in ('ab', 'x'):
        for sp in (name, name.upper(), name.capitalize()):
            if (sp in d) != (name in ref):
                return False
            if d.get(sp) != ref.get(name):
                return False
    return len(d) == len(ref) and sorted(d.keys()) == sorted(ref.keys())


def cid_setget(kind: int, hab: bool, hx: bool, k: int) -> bool:
    """
    pre: 0 <= kind <= 1 and 0 <= k < 6
    post: _
    """
    d, ref = mk_cid(kind, hab, hx)
    if not cid_ok(d, ref):
        return False
    d[DPOOL[k]] = 7
    ref[DCANON[k]] = 7
    return cid_ok(d, ref) and d[DPOOL[(k + 1) % 6 if DCANON[(k + 1) % 6] == DCANON[k] else k]] == 7


def cid_delitem(kind: int, hab: bool, hx: bool, k: int) -> bool:
    """
    pre: 0 <= kind <= 1 and 0 <= k < 6
    post: _
    """
    d, ref = mk_cid(kind, hab, hx)
    present = DCANON[k] in ref
    try:
        del d[DPOOL[k]]
        raised = False
    except KeyError:
        raised = True
    if raised == present:
        return False
    ref.pop(DCANON[k], None)
    return cid_ok(d, ref)


def cid_pop(kind: int, hab: bool, hx: bool, k: int) -> bool:
    """
    pre: 0 <= kind <= 1 and 0 <= k < 6
    post: _
    """
    d, ref = mk_cid(kind, hab, hx)
    r = d.pop(DPOOL[k], None)
    if r != ref.pop(DCANON[k], None):
        return False
    return cid_ok(d, ref)


def cid_setdefault(kind: int, hab: bool, hx: bool, k: int) -> bool:
    """
    pre: 0 <= kind <= 1 and 0 <= k < 6
    post: _
    """
    d, ref = mk_cid(kind, hab, hx)
    r = d.setdefault(DPOOL[k], 9)
    if r != ref.setdefault(DCANON[k], 9):
        return False
    return cid_ok(d, ref)


def cid_update(kind: int, hab: bool, hx: bool, k: int) -> bool:
    """
    pre: 0 <= kind <= 1 and 0 <= k < 6
    post: _
    """
    d, ref = mk_cid(kind, hab, hx)
    d.update({DPOOL[k]: 5})
    ref[DCANON[k]] = 5
    return cid_ok(d, ref)


def cid_missing_default(hab: bool, hx: bool, k: int) -> bool:
    """
    pre: 0 <= k < 6
    post: _
    """
    d, ref = mk_cid(1, hab, hx)
    r = d[DPOOL[k]]
    if r != ref.setdefault(DCANON[k], -1):
        return False
    return cid_ok(d, ref)


def cid_construct(k: int, k2: int) -> bool:
    """
    pre: 0 <= k < 6 and 0 <= k2 < 6
    post: _
    """
    d = CaseInsensitiveDict({DPOOL[k]: 1})
    d2 = CaseInsensitiveDict(((DPOOL[k], 1), (DPOOL[k2], 2)))
    ref2 = {}
    ref2[DCANON[k]] = 1
    ref2[DCANON[k2]] = 2
    return cid_ok(d, {DCANON[k]: 1}) and cid_ok(d2, ref2)


FUNCS = ['st_contains', 'st_getitem_get', 'st_lookup', 'st_setitem', 'st_setdefault', 'st_update', 'st_delitem', 'st_pop',
         'st_clone_independent', 'st_reparent', 'st_returned_copies', 'st_three_levels',
         'sc_declare', 'sc_update', 'sc_get_type_and_scope',
         'cid_setget', 'cid_delitem', 'cid_pop', 'cid_setdefault', 'cid_update', 'cid_missing_default', 'cid_construct']


def generate(tier):
    """quick: 6 spellings and child-'b' fixed absent (halves the path count); thorough: the full state space"""
    import re
    from pathlib import Path
    text = Path(__file__).read_text().split('\ndef generate(tier):')[0]
    if tier == 'quick':
        out = []
        cur_has_cb = cur_is_update = False
        for line in text.split('\n'):
            if line.startswith('def '):
                cur_has_cb = 'cb: bool' in line
                cur_is_update = line.startswith('def st_update')
            if line.strip().startswith('pre: 0 <= k < 8'):
                line = line.replace('0 <= k < 8', '0 <= k < 6')
                line = line.replace('0 <= k2 < 8', '0 <= k2 < 6')
                if cur_has_cb:
                    line += ' and not cb'
                if cur_is_update:
                    line += ' and not pa and not pb'
            out.append(line)
        text = '\n'.join(out)
    return text, FUNCS
