"""CrossHair harness generator for C10: the real get_pyrange on symbolic integer loop bounds.
CrossHair only checks functions it can read contracts for from source, so the per-step conditions are generated as
text (<= 2 symbolic integers per condition; the step is swept over a concrete grid)."""

HEADER = '''
from loki.expression import symbols as sym
from loki.expression.symbolic import get_pyrange


def fortran_do_values(a, b, c):
    """values a Fortran DO loop `do i = a, b, c` visits (F2008 8.1.6.6.2): trip count max(0, (b - a + c) / c)"""
    n = max(0, trunc_div(b - a + c, c))
    return [a + k * c for k in range(n)]


def trunc_div(num, c):
    q = abs(num) // abs(c)
    return -q if (num < 0) != (c < 0) else q


def pyrange_default_step(a: int, b: int) -> bool:
    """
    pre: -7 <= a <= 7 and -7 <= b <= 7
    post: _
    """
    r = get_pyrange(sym.LoopRange((sym.IntLiteral(a), sym.IntLiteral(b))))
    return list(r) == fortran_do_values(a, b, 1)
'''

STEP = '''

def {name}(a: int, b: int) -> bool:
    """
    pre: -{B} <= a <= {B} and -{B} <= b <= {B}
    post: _
    """
    c = {c}
    r = get_pyrange(sym.LoopRange((sym.IntLiteral(a), sym.IntLiteral(b), sym.IntLiteral(c))))
    return list(r) == fortran_do_values(a, b, c)
'''

LEN = '''

def {name}(a: int, b: int) -> bool:
    """
    pre: -{B} <= a <= {B} and -{B} <= b <= {B}
    post: _
    """
    c = {c}
    r = get_pyrange(sym.LoopRange((sym.IntLiteral(a), sym.IntLiteral(b), sym.IntLiteral(c))))
    n = max(0, trunc_div(b - a + c, c))
    if len(r) != n:
        return False
    if n > 0:
        return r[0] == a and r[-1] == a + (n - 1) * c
    return True
'''


def generate(tier):
    steps = [-3, -2, -1, 1, 2, 3] if tier == 'quick' else [-5, -4, -3, -2, -1, 1, 2, 3, 4, 5]
    lsteps = [] if tier == 'quick' else [-7, -2, -1, 1, 2, 7]
    B = 6 if tier == 'quick' else 9
    text, funcs = HEADER, ['pyrange_default_step']
    for c in steps:
        name = 'pyrange_step_' + ('m' if c < 0 else 'p') + str(abs(c))
        text += STEP.format(name=name, c=c, B=B)
        funcs.append(name)
    for c in lsteps:
        name = 'pyrange_len_' + ('m' if c < 0 else 'p') + str(abs(c))
        text += LEN.format(name=name, c=c, B=40)
        funcs.append(name)
    return text, funcs
