"""CrossHair harness for C20 (span-arithmetic kernel): every Source derived from a Source that is consistent with the
file is consistent with the file (symbolic text over {a, blank, newline}, symbolic span, symbolic first line number)."""
from loki.frontend.source import Source, join_source_list

NL = chr(10)


def file_lines(text, l0):
    """a file whose lines l0.. hold ``text`` (lines before are filler)"""
    return ['filler'] * (l0 - 1) + text.split(NL)


def consistent(src, flines):
    """the recorded span covers exactly the text at those lines of the file (the string may start / end inside a line)"""
    a, b = src.lines
    if b is None:
        b = a
    if a < 1 or b > len(flines) or b < a:
        return False
    if src.string.count(NL) != b - a:
        return False
    parts = src.string.split(NL)
    seg = flines[a - 1:b]
    if len(parts) != len(seg):
        return False
    if len(parts) == 1:
        return parts[0] in seg[0]
    if not seg[0].endswith(parts[0]) or not seg[-1].startswith(parts[-1]):
        return False
    return parts[1:-1] == seg[1:-1]


def consistent_aligned(src, flines):
    a, b = src.lines
    if b is None:
        b = a
    if a < 1 or b > len(flines):
        return False
    return src.string.split(NL) == flines[a - 1:b]


def span_clone(text: str, i: int, j: int, l0: int) -> bool:
    """
    pre: len(text) <= 5 and all(c in 'a' + chr(10) for c in text) and 0 <= i <= j <= len(text) and l0 == 2
    pre: i == 0 or text[i - 1] == chr(10)
    pre: j == len(text) or text[j] == chr(10)
    post: _
    """
    # line-aligned spans: the derived Source holds exactly the file's lines at its recorded line numbers
    fl = file_lines(text, l0)
    src = Source(lines=(l0, l0 + text.count(NL)), string=text, file='f.F90')
    s2 = src.clone_with_span((i, j))
    return consistent_aligned(s2, fl) and s2.file == 'f.F90'


def span_clone_partial(text: str, i: int, j: int, l0: int) -> bool:
    """
    pre: len(text) <= 5 and all(c in 'a' + chr(10) for c in text) and 0 <= i <= j <= len(text) and 1 <= l0 <= 2
    post: _
    """
    # arbitrary spans: first line = line of character i, last line = line of character j (counted in the file)
    src = Source(lines=(l0, l0 + text.count(NL)), string=text)
    s2 = src.clone_with_span((i, j))
    first = l0 + text[:i].count(NL)
    last = l0 + text[:j].count(NL)
    return s2.string == text[i:j] and s2.lines == (first, last)


def line_clones(text: str, l0: int) -> bool:
    """
    pre: len(text) <= 6 and all(c in 'a' + chr(10) for c in text) and 1 <= l0 <= 3
    post: _
    """
    fl = file_lines(text, l0)
    src = Source(lines=(l0, l0 + text.count(NL)), string=text)
    out = src.clone_lines()
    if any(not consistent_aligned(s, fl) or s.lines[0] != s.lines[1] for s in out):
        return False
    # the line clones enumerate the lines in order
    return [s.string for s in out] == text.splitlines() and [s.lines[0] for s in out] == list(range(l0, l0 + len(out)))


def line_clones_of_span(text: str, i: int, j: int, l0: int) -> bool:
    """
    pre: len(text) <= 5 and all(c in 'a' + chr(10) for c in text) and 0 <= i <= j <= len(text) and l0 == 2
    pre: i == 0 or text[i - 1] == chr(10)
    pre: j == len(text) or text[j] == chr(10)
    post: _
    """
    fl = file_lines(text, l0)
    src = Source(lines=(l0, l0 + text.count(NL)), string=text)
    return all(consistent_aligned(s, fl) for s in src.clone_lines((i, j)))


def string_clone(text: str, i: int, j: int, l0: int) -> bool:
    """
    pre: len(text) <= 4 and all(c in 'ab' + chr(10) for c in text) and 0 <= i < j <= len(text) and l0 == 2
    post: _
    """
    fl = file_lines(text, l0)
    src = Source(lines=(l0, l0 + text.count(NL)), string=text)
    key = text[i:j]
    s2 = src.clone_with_string(key, ignore_case=False, ignore_space=False)
    # the first occurrence of the key is located; its line span is that of the occurrence
    pos = text.find(key)
    first = l0 + text[:pos].count(NL)
    return s2.string == key and s2.lines == (first, first + key.count(NL))


def joined(text: str, i: int, j: int, l0: int) -> bool:
    """
    pre: len(text) <= 6 and all(c in 'a' + chr(10) for c in text) and i == 0 and j == 0 and 1 <= l0 <= 2
    post: _
    """
    # two consecutive line-aligned pieces joined again are consistent and reproduce the covered text
    fl = file_lines(text, l0)
    src = Source(lines=(l0, l0 + text.count(NL)), string=text)
    lines = src.clone_lines()
    if len(lines) < 2:
        return True
    js = join_source_list(lines)
    return consistent_aligned(js, fl[:js.lines[1]] ) and js.lines == (lines[0].lines[0], lines[-1].lines[1]) and js.string == NL.join(text.splitlines())


def joined_with_gap(text: str, l0: int, skip: int) -> bool:
    """
    pre: len(text) <= 6 and all(c in 'a' + chr(10) for c in text) and 1 <= l0 <= 2 and 0 <= skip <= 3
    post: _
    """
    src = Source(lines=(l0, l0 + text.count(NL)), string=text)
    lines = src.clone_lines()
    if len(lines) <= skip + 1 or skip == 0:
        return True
    kept = [lines[0]] + lines[skip + 1:]
    js = join_source_list(kept)
    # missing lines are represented by empty lines: line count and span stay those of the file
    return js.lines == (lines[0].lines[0], lines[-1].lines[1]) and js.string.count(NL) == js.lines[1] - js.lines[0]


FUNCS = ['span_clone', 'span_clone_partial', 'line_clones', 'line_clones_of_span', 'string_clone', 'joined', 'joined_with_gap']


def generate(tier):
    from pathlib import Path
    text = Path(__file__).read_text().split(NL + 'def generate(tier):')[0]
    if tier == 'quick':
        text = text.replace('len(text) <= 4 and all(c in \'ab\'', 'len(text) <= 3 and all(c in \'ab\'').replace('len(text) <= 5', 'len(text) <= 4').replace('len(text) <= 6', 'len(text) <= 5')
    return text, FUNCS
