"""CrossHair harness for C20 (span-arithmetic kernel): every Source derived from a Source that is consistent with the
file is consistent with the file (symbolic text over {a, blank, newline}, symbolic span, symbolic first line number)."""
from loki.frontend.source import Source, join_source_list

NL = chr(10)


def file_lines(text, l0):
    """a file whose lines l0.. hold ``text`` (lines before are filler)"""
    return ['filler'] * (l0 - 1) + text.split(NL)


def consistent(src, flines):
    """the recorded span covers exactly the text at those lines of the file (the string may start / end inside a line)"""
    a, b = src.lines
    if b is None:
        b = a
    if a < 1 or b > len(flines) or b < a:
        return False
    if src.string.count(NL) != b - a:
        return False
    parts = src.string.split(NL)
    seg = flines[a - 1:b]
    if len(parts) != len(seg):
        return False
    if len(parts) == 1:
        return parts[0] in seg[0]
    if not seg[0].endswith(parts[0]) or not seg[-1].startswith(parts[-1]):
        return False
    return parts[1:-1] == seg[1:-1]


def consistent_aligned(src, flines):
    a, b = src.lines
    if b is None:
        b = a
    if a < 1 or b > len(flines):
        return False
    return src.string.split(NL) == flines[a - 1:b]


def span_clone(text: str, i: int, j: int, l0: int) -> bool:
    """
    pre: len(text) <= 5 and all(c in 'a' + chr(10) for c in text) and 0 <= i <= j <= len(text) and l0 == 2
    pre: i == 0 or text[i - 1] == chr(10)
    pre: j == len(text) or text[j] == chr(10)
    post: _
    """
    # line-aligned spans: the derived Source holds exactly the file's lines at its recorded line numbers
    fl = file_lines(text, l0)
    src = Source(lines=(l0, l0 + text.count(NL)), string=text, file='f.F90')
    s2 = src.clone_with_span((i, j))
    return consistent_aligned(s2, fl) and s2.file == 'f.F90'


def span_clone_partial(text: str, i: int, j: int, l0: int) -> bool:
    """
    pre: len(text) <= 5 and all(c in 'a' + chr(10) for c in text) and 0 <= i <= j <= len(text) and 1 <= l0 <= 2
    post: _
    """
    # arbitrary spans: first line = line of character i, last line = line of character j (counted in the file)
    src = Source(lines=(l0, l0 + text.count(NL)), string=text)
    s2 = src.clone_with_span((i, j))
    first = l0 + text[:i].count(NL)
    last = l0 + text[:j].count(NL)
    return s2.string == text[i:j] and s2.lines == (first, last)


def line_clones(text: str, l0: int) -> bool:
    """
    pre: len(text) <= 6 and all(c in 'a' + chr(10) for c in text) and 1 <= l0 <= 3
    post: _
    """
    fl = file_lines(text, l0)
    src = Source(lines=(l0, l0 + text.count(NL)), string=text)
    out = src.clone_lines()
    if any(not consistent_aligned(s, fl) or s.lines[0] != s.lines[1] for s in out):
        return False
    # the line clones enumerate the lines in order
    return [s.string for s in out] == text.splitlines() and [s.lines[0] for s in out] == list(range(l0, l0 + len(out)))


def line_clones_of_span(text: str, i: int, j: int, l0: int) -> bool:
    """
    pre: len(text) <= 5 and all(c in 'a' + chr(10) for c in text) and 0 <= i <= j <= len(text) and l0 == 2
    pre: i == 0 or text[i - 1] == chr(10)
    pre: j == len(text) or text[j] == chr(10)
    post: _
    """
    fl = file_lines(text, l0)
    src = Source(lines=(l0, l0 + text.count(NL)), string=text)
    return all(consistent_aligned(s, fl) for s in src.clone_lines((i, j)))


def string_clone(text: str, i: int, j: int, l0: int) -> bool:
    """
    pre: len(text) <= 4 and all(c in 'ab' + chr(10) for c in text) and 0 <= i < j <= len(text) and l0 == 2
    post: _
    """
    fl = file_lines(text, l0)
    src = Source(lines=(l0, l0 + text.count(NL)), string=text)
    key = text[i:j]
    s2 = src.clone_with_string(key, ignore_case=False, ignore_space=False)
    # the first occurrence of the key is located; its line span is that of the occurrence
    pos = text.find(key)
    first = l0 + text[:pos].count(NL)
    return s2.string == key and s2.lines == (first, first + key.count(NL))


def joined(text: str, i: int, j: int, l0: int) -> bool:
    """
    pre: len(text) <= 6 and all(c in 'a' + chr(10) for c in text) and i == 0 and j == 0 and 1 <= l0 <= 2
    post: _
    """
    # two consecutive line-aligned pieces joined again are consistent and reproduce the covered text
    fl = file_lines(text, l0)
    src = Source(lines=(l0, l0 + text.count(NL)), string=text)
    lines = src.clone_lines()
    if len(lines) < 2:
        return True
    js = join_source_list(lines)
    return consistent_aligned(js, fl[:js.lines[1]] ) and js.lines == (lines[0].lines[0], lines[-1].lines[1]) and js.string == NL.join(text.splitlines())


def joined_with_gap(text: str, l0: int, skip: int) -> bool:
    """
    pre: len(text) <= 6 and all(c in 'a' + chr(10) for c in text) and 1 <= l0 <= 2 and 0 <= skip <= 3
    post: _
    """
    src = Source(lines=(l0, l0 + text.count(NL)), string=text)
    lines = src.clone_lines()
    if len(lines) <= skip + 1 or skip == 0:
        return True
    kept = [lines[0]] + lines[skip + 1:]
    js = join_source_list(kept)
    # missing lines are represented by empty lines: line count and span stay those of the file
    return js.lines == (lines[0].lines[0], lines[-1].lines[1]) and js.string.count(NL) == js.lines[1] - js.lines[0]



# ---- FortranReader: mapping between the sanitized string (comments / blank lines removed, continuations joined) and the
# original file.  The reader is built once (concretely); the SPAN into the sanitized string is symbolic.
from loki.frontend.source import FortranReader

READER_TEXT = NL.join([
    '! leading comment',
    'module m',
    '',
    '  ! a comment line',
    '  integer :: a, &',
    '     &       b',
    '  real :: x   ! trailing comment',
    '!$loki some-pragma',
    'contains',
    '  subroutine s(n)',
    '    integer, intent(in) :: n',
    '',
    '    ! comment before call',
    '    call t(n, &',
    '      &    a, &',
    '      &    b)',
    '    x = 1.0',
    '  end subroutine s',
    '! comment before end',
    'end module m',
    '! trailing comment 1',
    '! trailing comment 2',
])
READER = FortranReader(READER_TEXT)
RLINES = READER_TEXT.split(NL)
RLEN = len(READER.sanitized_string)
NSAN = len(READER.sanitized_lines)


def _text_at(lines):
    return NL.join(RLINES[lines[0] - 1:lines[1]])


def reader_span_source(a: int, b: int, pad: bool) -> bool:
    """
    pre: 0 <= a <= b <= 172
    post: _
    """
    # a Source cut out of the reader for a span of the sanitized string holds exactly the original text at its recorded
    # lines, and these lines contain every original line of every sanitized line that starts inside the span
    if b > RLEN:
        return True
    src = READER.source_from_sanitized_span((a, b), include_padding=pad)
    starts = [k for k in range(NSAN) if a <= READER.sanitized_spans[k] < b]
    if src is None:
        return not starts
    if src.string != _text_at(src.lines):
        return False
    for k in starts:
        l0, l1 = READER.sanitized_lines[k].span
        if l0 < src.lines[0] or l1 > src.lines[1]:
            return False
    return True


def reader_sub_reader(a: int, b: int, pad: bool, a2: int, b2: int) -> bool:
    """
    pre: 0 <= a <= b <= 172 and 0 <= a2 <= b2 <= 60
    post: _
    """
    # a reader cut out of a reader (as the block patterns do for nested program units) still maps its lines to the
    # ORIGINAL file: line numbers are absolute, texts are the file's text at those lines
    if b > RLEN:
        return True
    sub = READER.reader_from_sanitized_span((a, b), include_padding=pad)
    if sub is None:
        return True
    if sub.source_lines:
        whole = sub.to_source(include_padding=True)
        if whole.string != _text_at(whole.lines):
            return False
    if sub.sanitized_lines:
        body = sub.to_source()
        if body.string != _text_at(body.lines):
            return False
    for part in (sub.source_from_head(), sub.source_from_tail()):
        if part is not None and part.string != _text_at(part.lines):
            return False
    for _ in sub:
        cur = sub.source_from_current_line()
        if cur.string != _text_at(cur.lines):
            return False
    if sub.sanitized_lines and b2 <= len(sub.sanitized_string):
        inner = sub.source_from_sanitized_span((a2, b2))
        if inner is not None and inner.string != _text_at(inner.lines):
            return False
        sub2 = sub.reader_from_sanitized_span((a2, b2), include_padding=pad)
        if sub2 is not None and sub2.sanitized_lines:
            s2 = sub2.to_source()
            if s2.string != _text_at(s2.lines):
                return False
    return True


def reader_partition(pad: bool, a: int, b: int) -> bool:
    """
    pre: 0 <= a <= b <= 172
    post: _
    """
    # head + sanitized body + tail of a (sub-)reader cover its original lines exactly once, in order
    if b > RLEN:
        return True
    sub = READER.reader_from_sanitized_span((a, b), include_padding=pad)
    if sub is None or not sub.source_lines or not sub.sanitized_lines:
        return True
    first = sub.line_offset + 1
    last = sub.line_offset + len(sub.source_lines)
    head, body, tail = sub.source_from_head(), sub.to_source(), sub.source_from_tail()
    cur = first
    for part in (head, body, tail):
        if part is None:
            continue
        if part.lines[0] != cur:
            return False
        cur = part.lines[1] + 1
    return cur == last + 1

FUNCS = ['span_clone', 'span_clone_partial', 'line_clones', 'line_clones_of_span', 'string_clone', 'joined', 'joined_with_gap', 'reader_span_source', 'reader_sub_reader', 'reader_partition']


def generate(tier):
    from pathlib import Path
    text = Path(__file__).read_text().split(NL + 'def generate(tier):')[0]
    if tier == 'quick':
        text = text.replace('len(text) <= 4 and all(c in \'ab\'', 'len(text) <= 3 and all(c in \'ab\'').replace('len(text) <= 5', 'len(text) <= 4').replace('len(text) <= 6', 'len(text) <= 5')
    return text, FUNCS
