"""CrossHair harness generator for C04: JoinableStringList wrapping with symbolic item lengths."""

HEADER = '''
from loki.tools.strings import JoinableStringList as J


def flat(items, sep):
    out = []
    for it in items:
        out.append(flat(it.items, it.sep) if isinstance(it, J) else it)
    return sep.join(out)


def longest_piece(items, sep):
    m = 0
    for it in items:
        if isinstance(it, J):
            m = max(m, longest_piece(it.items, it.sep))
        else:
            m = max(m, len(it) + len(sep))
    return m


def literals(text):
    """character literals of a Fortran statement: from a quote character to the next quote of the SAME kind (a doubled
    delimiter inside the literal does not end it)"""
    out, i, n = [], 0, len(text)
    while i < n:
        q = text[i]
        if q == chr(39) or q == chr(34):
            j = i + 1
            while j < n:
                if text[j] == q:
                    if j + 1 < n and text[j + 1] == q:
                        j += 2
                        continue
                    break
                j += 1
            out.append(text[i:j + 1])
            i = j + 1
        else:
            i += 1
    return out


def ok(s, items, sep, width, cont):
    c = cont.splitlines(keepends=True)
    c0, c1 = c[0], (c[1] if len(c) > 1 else '')
    # 1. removing the continuation markers gives back the unwrapped rendering (same token sequence)
    unwrapped = s.replace(c0 + c1, '').replace(c0.strip(' ') + c1.strip(' '), '')
    if unwrapped.replace(' ', '') != flat(items, sep).replace(' ', ''):
        return False
    # 1b. a continuation marker is never placed inside a character literal (it would add blanks to its value), unless the
    # literal alone is too long for a line
    for lit in literals(flat(items, sep)):
        if len(lit) + len(c0) + len(c1) <= width and lit not in s:
            return False
    # 2. every line fits unless a single unbreakable piece is too long for any line
    if longest_piece(items, sep) + len(c0) + len(c1) <= width:
        for line in s.split(chr(10)):
            if len(line) > width:
                return False
    return True
'''

COND = '''

def {name}(n1: int, n2: int) -> bool:
    """
    pre: {lo1} <= n1 <= {hi1} and {lo2} <= n2 <= {hi2}
    post: _
    """
    cont = {cont!r}
    items = {items}
    s = str(J(items, {sep!r}, {width}, cont{extra}))
    return ok(s, items, {sep!r}, {width}, cont)
'''

CONT = ' &\n  & '
CONT_DEEP = ' &\n        & '


def generate(tier):
    text, funcs = HEADER, []
    hi = 11 if tier == 'quick' else 24
    specs = [
        ('three_items', "['a' * n1, 'b' * n2, 'c' * 5]", ', ', 16, CONT, '', 1, hi, 1, hi),
        ('four_items_nosep', "['a' * n1, 'b' * 3, 'c' * n2, 'd' * 4]", '', 18, CONT, '', 1, hi, 1, hi),
        ('concat_sep', "['a' * n1, 'b' * n2, 'c' * 6]", ' // ', 20, CONT, '', 1, hi, 1, hi),
        ('nested_separable', "['f' * n1, J(['x' * 4, 'y' * n2, 'z' * 4], ', ', 20, cont, separable=True), 'g' * 3]", ', ', 20, CONT, '', 1, hi, 1, hi),
        ('nested_inseparable', "['f' * n1, J(['x' * 4, 'y' * n2, 'z' * 4], ', ', 20, cont, separable=False), 'g' * 3]", ', ', 20, CONT, '', 1, hi, 1, hi),
        ('deep_indent', "['a' * n1, 'b' * n2, 'c' * 5]", ', ', 22, CONT_DEEP, '', 1, hi, 1, hi),
        ('quoted_string', "['x = ', chr(39) + 's' * n1 + chr(39), ' // ' + 'b' * n2]", '', 16, CONT, '', 1, hi + 6, 1, 8),
        ('chunks_with_spaces', "['call f(' + 'a' * n1 + ', ' + 'b' * n2 + ') ' + 'c' * 4]", '', 14, CONT, '', 1, hi, 1, hi),
        ('literal_with_blanks', "['call p(', chr(39) + 'a' * n1 + ' ' + 'b' * n2 + ' c' + chr(39), ', xyz, uvw)']", '', 22, CONT, '', 1, 9, 1, 9),
        ('literal_with_other_quote', "['msg = ' + chr(39) + 'a' * n1 + ' ' + chr(34) + 'b' * n2 + ' q' + chr(34) + ' cd ef' + chr(39) + ' // tail']", '', 26, CONT, '', 1, 9, 1, 9),
        ('dq_literal_with_apostrophe', "['write(*, *) ' + chr(34) + 'a' * n1 + chr(39) + 's ' + 'b' * n2 + ' cd' + chr(34) + ', val, more']", '', 26, CONT, '', 1, 9, 1, 9),
        ('width_132', "['a' * n1, 'b' * n2, 'c' * 40]", ', ', 132, CONT, '', 120 if tier == 'quick' else 80, 133 if tier == 'quick' else 140, 1, 5 if tier == 'quick' else 30),
    ]
    if tier == 'thorough':
        specs += [
            ('five_items', "['a' * n1, 'b' * 2, 'c' * n2, 'd' * 7, 'e' * 3]", ', ', 17, CONT, '', 1, hi, 1, hi),
            ('nested_two_levels', "['f' * n1, J(['x' * 3, J(['p' * n2, 'q' * 5], ' + ', 20, cont), 'z' * 2], ', ', 20, cont), 'g']", ', ', 20, CONT, '', 1, 16, 1, 16),
            ('narrow', "['a' * n1, 'b' * n2]", ', ', 9, CONT, '', 1, 12, 1, 12),
        ]
    for name, items, sep, width, cont, extra, lo1, hi1, lo2, hi2 in specs:
        text += COND.format(name=name, items=items, sep=sep, width=width, cont=cont, extra=extra, lo1=lo1, hi1=hi1, lo2=lo2, hi2=hi2)
        funcs.append(name)
    return text, funcs
