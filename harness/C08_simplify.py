"""CrossHair harness generator for C08: literal values are symbolic ints, so the value-dependent branches of
sum_literals / mul_literals / div_literals / collect_coefficients (== 0, == 1, gcd, sign stripping) are explored by
the solver.  Post-condition: original and simplified tree evaluate identically (reference evaluator with truncating
integer division) on a grid of variable values."""

HEADER = '''
import pymbolic.primitives as pmbl
from loki.expression import symbols as sym
from loki.expression.symbolic import simplify, Simplification
from loki.types import BasicType, SymbolAttributes

INT_T = SymbolAttributes(BasicType.INTEGER)


class Undefined(Exception):
    pass


def tdiv(a, b):
    if b == 0:
        raise Undefined()
    q = abs(a) // abs(b)
    return -q if (a < 0) != (b < 0) else q


def ev(e, env):
    """reference evaluation under Fortran INTEGER semantics"""
    if isinstance(e, bool):
        return e
    if isinstance(e, int):
        return e
    if isinstance(e, sym.IntLiteral):
        return e.value
    if isinstance(e, sym.LogicLiteral):
        return bool(e.value)
    if isinstance(e, pmbl.Sum):
        r = 0
        for c in e.children:
            r = r + ev(c, env)
        return r
    if isinstance(e, pmbl.Product):
        r = 1
        for c in e.children:
            r = r * ev(c, env)
        return r
    if isinstance(e, pmbl.Quotient):
        return tdiv(ev(e.numerator, env), ev(e.denominator, env))
    if isinstance(e, pmbl.Power):
        b, x = ev(e.base, env), ev(e.exponent, env)
        if x < 0 or x > 3:
            raise Undefined()
        return b ** x
    if isinstance(e, pmbl.Comparison):
        l, r = ev(e.left, env), ev(e.right, env)
        return {'==': l == r, '!=': l != r, '<': l < r, '<=': l <= r, '>': l > r, '>=': l >= r}[e.operator]
    if isinstance(e, pmbl.LogicalAnd):
        return all(ev(c, env) for c in e.children)
    if isinstance(e, pmbl.LogicalOr):
        return any(ev(c, env) for c in e.children)
    if isinstance(e, pmbl.LogicalNot):
        return not ev(e.child, env)
    if hasattr(e, 'name'):
        return env[e.name.lower()]
    if isinstance(e, float):
        raise Undefined()
    raise Undefined()


GRID = [(-3, 2), (5, -4), (7, 3)]


def same_value(t, s):
    for av, bv in GRID:
        env = {'a': av, 'b': bv}
        try:
            v1 = ev(t, env)
        except Undefined:
            continue
        try:
            v2 = ev(s, env)
        except Undefined:
            return False
        if v1 != v2:
            return False
    return True
'''

COND = '''

def {name}(k1: int) -> bool:
    """
    pre: -{B} <= k1 <= {B}{pre}
    post: _
    """
    k2 = {k2}
    a = sym.Variable(name='a', type=INT_T)
    b = sym.Variable(name='b', type=INT_T)
    L = sym.IntLiteral
    t = {tree}
    s = simplify(t, enabled_simplifications={flags})
    return same_value(t, s)
'''

TEMPLATES = {
    # name: (tree source, extra precondition, signature class)
    'sum_lits': ('sym.Sum((L(k1), a, L(k2)))', '', 'sum_literals'),
    'sum_neg_lits': ('sym.Sum((a, sym.Product((-1, L(k1))), L(k2), b))', '', 'sum_literals'),
    'mul_lits': ('sym.Product((L(k1), a, L(k2)))', '', 'mul_literals'),
    'mul_neg': ('sym.Product((-1, sym.Product((L(k1), a)), L(k2)))', '', 'mul_literals'),
    'div_lit_lit': ('sym.Quotient(L(k1), L(k2))', '', 'div_literals'),
    'div_prod_lit': ('sym.Quotient(sym.Product((L(k1), a)), L(k2))', '', 'div_literals'),
    'div_neg': ('sym.Quotient(sym.Product((-1, sym.Product((L(k1), a)))), L(k2))', '', 'div_literals'),
    'coeff': ('sym.Sum((sym.Product((L(k1), a)), sym.Product((L(k2), a)), b))', '', 'collect_coefficients'),
    'coeff_sub': ('sym.Sum((sym.Product((L(k1), a, b)), sym.Product((-1, sym.Product((L(k2), b, a))))))', '', 'collect_coefficients'),
    'prod_of_sums': ('sym.Product((sym.Sum((a, L(k1))), sym.Sum((b, L(k2)))))', '', 'distribute_product'),
    'cmp_lits': ("sym.Comparison(sym.Sum((a, L(k1))), '<', sym.Sum((a, L(k2))))", '', 'map_comparison'),
    'cmp_scaled': ("sym.Comparison(sym.Product((L(k1), a)), '<=', sym.Product((L(k2), a)))", '', 'map_comparison'),
    'pow_lit': ('sym.Power(sym.Sum((a, L(k1))), L(k2))', '', 'map_power'),
    'quot_sum': ('sym.Quotient(sym.Sum((sym.Product((L(k1), a)), L(k2))), L(2))', '', 'distribute_quotient'),
}


def generate(tier):
    B = 8 if tier == 'quick' else 12
    text, funcs = HEADER, []
    flagsets = {'ALL': 'Simplification.ALL', 'INT': 'Simplification.IntegerArithmetic',
                'COEF': 'Simplification.CollectCoefficients | Simplification.IntegerArithmetic'}
    k2s = [-2, 1, 3]
    for name, (tree, pre, _) in TEMPLATES.items():
        for fn, fl in flagsets.items():
            if fn != 'ALL' and not (fn == 'COEF' and name.startswith('coeff')) and not (fn == 'INT' and name.startswith(('sum', 'mul', 'div'))):
                continue
            for k2 in k2s:
                if name == 'pow_lit' and k2 < 0:
                    continue
                n = f'{name}__{fn}__{"m" if k2 < 0 else "p"}{abs(k2)}'
                text += COND.format(name=n, B=B, pre=pre, tree=tree, flags=fl, k2=k2)
                funcs.append(n)
    return text, funcs


def signature(func):
    name, fn = func.split('__')[:2]
    return f'simplify-xh:{TEMPLATES[name][2]}:{fn}:{name}'
