"""CrossHair harness for C13: the Variable factory's tier algorithm and type sharing through scopes."""
from loki.expression import symbols as sym
from loki.types import BasicType, SymbolAttributes, DerivedType, ProcedureType, Scope
from loki import ir

NAMES = ['v', 'V', 'vAr']


def mk_type(t: int, shp: bool):
    """0 none, 1 INTEGER, 2 REAL, 3 DEFERRED, 4 derived (no typedef), 5 procedure (subroutine), 6 procedure (function)"""
    types = [None, SymbolAttributes(BasicType.INTEGER), SymbolAttributes(BasicType.REAL, kind=sym.Variable(name='jprb')),
             SymbolAttributes(BasicType.DEFERRED), SymbolAttributes(DerivedType('tt')),
             SymbolAttributes(ProcedureType('v', is_function=False)),
             SymbolAttributes(ProcedureType('v', is_function=True, return_type=SymbolAttributes(BasicType.REAL)))]
    ty = types[t]
    if ty is not None and shp:
        ty = ty.clone(shape=(sym.IntLiteral(3), sym.Variable(name='n')))
    return ty


def expected_class(t: int, shp: bool, dims: bool):
    """the documented tier table"""
    if t in (5, 6):
        return sym.ProcedureSymbol
    if dims or (t != 0 and shp):
        return sym.Array
    if t in (1, 2, 4):
        return sym.Scalar
    return sym.DeferredTypeSymbol


def classify_explicit_type(t: int, shp: bool, dims: bool, scoped: bool, nm: int) -> bool:
    """
    pre: 0 <= t < 7 and 0 <= nm < 3
    post: _
    """
    scope = Scope()
    kw = {'name': NAMES[nm]}
    if scoped:
        kw['scope'] = scope
    ty = mk_type(t, shp)
    if ty is not None:
        kw['type'] = ty
    if dims:
        kw['dimensions'] = (sym.Variable(name='i'), sym.IntLiteral(1))
    v = sym.Variable(**kw)
    if type(v) is not expected_class(t, shp, dims):
        return False
    # the type is retrievable from the symbol (and from the scope when attached)
    if ty is not None:
        if v.type.dtype != ty.dtype:
            return False
        if scoped and scope.symbol_attrs.lookup(NAMES[nm].swapcase()).dtype != ty.dtype:
            return False
    return v.name == NAMES[nm]


def classify_from_scope(t: int, shp: bool, dims: bool, inparent: bool, nm: int, nm2: int) -> bool:
    """
    pre: 0 <= t < 7 and 0 <= nm < 3 and 0 <= nm2 < 3 and NAMES[nm].lower() == NAMES[nm2].lower()
    post: _
    """
    outer = Scope()
    inner = Scope(parent=outer)
    ty = mk_type(t, shp)
    if ty is not None:
        (outer if inparent else inner).symbol_attrs[NAMES[nm]] = ty
    kw = {'name': NAMES[nm2], 'scope': inner}
    if dims:
        kw['dimensions'] = (sym.IntLiteral(2), sym.IntLiteral(1))
    v = sym.Variable(**kw)
    return type(v) is expected_class(t, shp, dims)


def classify_dimensions_none(t: int, shp: bool) -> bool:
    """
    pre: 0 <= t < 7
    post: _
    """
    ty = mk_type(t, shp)
    kw = {'name': 'v', 'dimensions': None}
    if ty is not None:
        kw['type'] = ty
    return type(sym.Variable(**kw)) is expected_class(t, shp, False)


def type_update_shared(t: int, t2: int, shp2: bool, nm: int, nm2: int, nested: bool) -> bool:
    """
    pre: 1 <= t < 5 and 1 <= t2 < 5 and 0 <= nm < 3 and 0 <= nm2 < 3 and NAMES[nm].lower() == NAMES[nm2].lower()
    post: _
    """
    outer = Scope()
    home = Scope(parent=outer) if nested else outer
    attached1 = sym.Variable(name=NAMES[nm], type=mk_type(t, False), scope=home)
    attached2 = sym.Variable(name=NAMES[nm2], scope=home)            # same name, other spelling, type looked up
    detached = sym.Variable(name=NAMES[nm], type=mk_type(t, False))  # no scope: keeps its own type
    before = detached.type.dtype
    new = mk_type(t2, shp2)
    home.symbol_attrs[NAMES[nm2]] = new
    if attached1.type.dtype != new.dtype or attached2.type.dtype != new.dtype:
        return False
    if bool(attached1.type.shape) != shp2 or bool(attached2.type.shape) != shp2:
        return False
    return detached.type.dtype == before and not detached.type.shape


def clone_and_rescope(t: int, t2: int, nm: int) -> bool:
    """
    pre: 1 <= t < 5 and 1 <= t2 < 5 and 0 <= nm < 3
    post: _
    """
    s1, s2 = Scope(), Scope()
    s2.symbol_attrs[NAMES[nm]] = mk_type(t2, False)
    v = sym.Variable(name=NAMES[nm], type=mk_type(t, False), scope=s1)
    r = v.rescope(s2)                 # keeps s2's recorded type
    c = v.clone(scope=s2, type=mk_type(t, False))   # overwrites s2's entry
    ok_r = r.scope is s2
    # rescope must not have changed what s2 recorded; clone(type=...) must have
    return ok_r and c.scope is s2 and s2.symbol_attrs.lookup(NAMES[nm]).dtype == mk_type(t, False).dtype \
        and v.scope is s1 and s1.symbol_attrs.lookup(NAMES[nm]).dtype == mk_type(t, False).dtype


def mk_typedef():
    td = ir.TypeDef(name='tt', body=())
    b = sym.Variable(name='b', type=SymbolAttributes(BasicType.REAL, shape=(sym.IntLiteral(5),)),
                     dimensions=(sym.IntLiteral(5),), scope=td)
    c = sym.Variable(name='c', type=SymbolAttributes(BasicType.INTEGER), scope=td)
    p = sym.Variable(name='p', type=SymbolAttributes(ProcedureType('p', is_function=False)), scope=td)
    td._update(body=(ir.VariableDeclaration(symbols=(b,)), ir.VariableDeclaration(symbols=(c,)),
                     ir.ProcedureDeclaration(symbols=(p,))))
    return td


MEMBERS = ['r%b', 'R%B', 'r%c', 'r%C', 'r%nope']


def classify_derived_member(stale: int, withparent: bool, inparent: bool, which: int, dims: bool) -> bool:
    """
    pre: 0 <= stale < 3 and 0 <= which < 5
    post: _
    """
    td = mk_typedef()
    outer = Scope()
    scope = Scope(parent=outer)
    home = outer if inparent else scope
    if stale == 1:
        # placeholder recorded before the type definition was known
        home.symbol_attrs['r%b'] = SymbolAttributes(BasicType.DEFERRED)
        home.symbol_attrs['r%c'] = SymbolAttributes(BasicType.DEFERRED)
    home.symbol_attrs['r'] = SymbolAttributes(DerivedType(name='tt', typedef=td))
    if stale == 2:
        # member entry reset to deferred after the parent's type is known
        home.symbol_attrs['r%c'] = SymbolAttributes(BasicType.DEFERRED)
        home.symbol_attrs['r%b'] = SymbolAttributes(BasicType.DEFERRED)
    kw = {'name': MEMBERS[which], 'scope': scope}
    if withparent:
        kw['parent'] = sym.Variable(name='r', scope=scope)
    if dims:
        kw['dimensions'] = (sym.IntLiteral(2),)
    v = sym.Variable(**kw)
    if which < 2:
        want = sym.Array
    elif which < 4:
        want = sym.Array if dims else sym.Scalar
    else:
        want = sym.Array if dims else sym.DeferredTypeSymbol
    if type(v) is not want:
        return False
    # the class agrees with the type the symbol itself reports
    t = v.type
    if which < 2:
        return t.dtype == BasicType.REAL and bool(t.shape)
    if which < 4:
        return t.dtype == BasicType.INTEGER
    return True


FUNCS = ['classify_derived_member', 'classify_explicit_type', 'classify_from_scope', 'classify_dimensions_none', 'type_update_shared', 'clone_and_rescope']


def generate(tier):
    import re
    from pathlib import Path
    text = Path(__file__).read_text().split('\ndef generate(tier):')[0]
    if tier == 'quick':
        text = text.replace('pre: 0 <= stale < 3 and 0 <= which < 5', 'pre: 0 <= stale < 3 and 0 <= which < 5 and not inparent and which != 1')
        text = text.replace('pre: 0 <= t < 7 and 0 <= nm < 3 and 0 <= nm2 < 3 and NAMES[nm].lower() == NAMES[nm2].lower()',
                            'pre: 0 <= t < 7 and 0 <= nm < 2 and 0 <= nm2 < 2')
    # type_update_shared has 576 paths: one condition (= one CrossHair process) per first type kind
    funcs = [f for f in FUNCS if f != 'type_update_shared']
    src = re.search(r'(?ms)^def type_update_shared\(.*?(?=^def )', text).group(0)
    for t in range(1, 5):
        name = f'type_update_shared_t{t}'
        text += chr(10) + src.replace('def type_update_shared(', f'def {name}(').replace('pre: 1 <= t < 5 and', f'pre: t == {t} and')
        funcs.append(name)
    return text, funcs
