"""CrossHair harness for the name-handling kernels of C21 (config key matching) and C23 (item identity under letter
case): pool-indexed spellings, symbolic indices and flags, real code executed on every path."""
import fnmatch
from loki.batch.configure import SchedulerConfig
from loki.batch.item import Item, ProcedureItem, ModuleItem
from loki.transformations.dependency import DuplicateKernel

ITEMS = ['mod#r', 'MOD#R', 'Mod#r', 'r', 'R', '#r', 'mod#t%p', 'MOD#T%P', 'mod#t%p%q', 'other#r', 'mod', 'mod#r#inner', 'mo#dr']
NI = 13
KEYS = ['r', 'R', 'mod#r', 'Mod#R', 'mod', 'MOD', 't', 'mod#t', 't%p', 'mod#t%p', 'x', '#r', 'inner', 'r#inner',
        'mod#*', '*#r', 'm?d#r', 'MOD#T%*', 't%*', '*', 'mod#r*', '*r']
NK = 22


def ref_match(name, key, pattern, parents):
    """reference written from the docstring of SchedulerConfig.match_item_keys"""
    n = name.lower()
    parts = n.split('#')
    if len(parts) == 1:
        scope, local = '', parts[0]
    elif len(parts) == 2:
        scope, local = parts
    else:
        scope, local = parts[0], parts[1] + '#' + parts[2]
    cands = [n, local]
    if parents:
        if scope:
            cands.append(scope)
        if '%' in local:
            comps = local.split('%')
            for i in range(1, len(comps) + 1):
                partial = '%'.join(comps[:i])
                cands.append(partial)
                cands.append(scope + '#' + partial)
    k = key.lower()
    if pattern:
        return any(fnmatch.fnmatchcase(c, k) for c in cands)
    return k in cands


def match_single_key(i: int, k: int, pattern: bool, parents: bool) -> bool:
    """
    pre: 0 <= i < 13 and 0 <= k < 22
    post: _
    """
    got = SchedulerConfig.match_item_keys(ITEMS[i], [KEYS[k]], use_pattern_matching=pattern, match_item_parents=parents)
    want = ref_match(ITEMS[i], KEYS[k], pattern, parents)
    return (len(got) == 1 and got[0] == KEYS[k].lower()) if want else len(got) == 0


def match_key_list(i: int, k: int, k2: int, pattern: bool, parents: bool) -> bool:
    """
    pre: 0 <= i < 13 and 0 <= k < 22 and 0 <= k2 < 22
    post: _
    """
    got = SchedulerConfig.match_item_keys(ITEMS[i], (KEYS[k], KEYS[k2]), use_pattern_matching=pattern, match_item_parents=parents)
    want = tuple(key.lower() for key in (KEYS[k], KEYS[k2]) if ref_match(ITEMS[i], key, pattern, parents))
    return tuple(got) == want


def match_case_invariant(i: int, k: int, pattern: bool, parents: bool) -> bool:
    """
    pre: 0 <= i < 13 and 0 <= k < 22
    post: _
    """
    a = SchedulerConfig.match_item_keys(ITEMS[i], [KEYS[k]], use_pattern_matching=pattern, match_item_parents=parents)
    b = SchedulerConfig.match_item_keys(ITEMS[i].upper(), [KEYS[k].swapcase()], use_pattern_matching=pattern,
                                        match_item_parents=parents)
    return tuple(a) == tuple(b)


def mkitem(c, name):
    # explicit branches: calling a symbolically selected class object makes CrossHair lose the path structure
    if c == 0:
        return Item(name, source=None)
    if c == 1:
        return ProcedureItem(name, source=None)
    return ModuleItem(name, source=None)


def item_eq(i: int, dj: int, ci: int, cj: int) -> bool:
    """
    pre: 0 <= i < 13 and 0 <= dj < 13 and i + dj < 13 and 0 <= ci < 3 and 0 <= cj < 3
    post: _
    """
    j = i + dj
    a, b = mkitem(ci, ITEMS[i]), mkitem(cj, ITEMS[j])
    same = ITEMS[i].lower() == ITEMS[j].lower()
    return (a == b) == same and (b == a) == same and (a != b) != same and (b != a) != same


def item_hash(i: int, dj: int, ci: int, cj: int) -> bool:
    """
    pre: 0 <= i < 13 and 0 <= dj < 13 and i + dj < 13 and 0 <= ci < 3 and 0 <= cj < 3
    post: _
    """
    j = i + dj
    a, b = mkitem(ci, ITEMS[i]), mkitem(cj, ITEMS[j])
    if a == b and hash(a) != hash(b):
        return False
    # identical spelling always hashes identically, and like the name string (documented str comparison)
    if ITEMS[i] == ITEMS[j] and (hash(a) != hash(b) or hash(a) != hash(ITEMS[i])):
        return False
    return True


def item_container_lookup(i: int, j: int) -> bool:
    """
    pre: 0 <= i < 13 and 0 <= j < 13
    post: _
    """
    a, b = ProcedureItem(ITEMS[i], source=None), ProcedureItem(ITEMS[j], source=None)
    same = ITEMS[i].lower() == ITEMS[j].lower()
    d = {a: 1}
    s = {a}
    return (b in d) == same and (b in s) == same and ((b in [a]) == same) and (len({a, b}) == (1 if same else 2))


def item_str_eq(i: int, j: int) -> bool:
    """
    pre: 0 <= i < 13 and 0 <= j < 13
    post: _
    """
    a = ProcedureItem(ITEMS[i], source=None)
    same = ITEMS[i].lower() == ITEMS[j].lower()
    return (a == ITEMS[j]) == same and (ITEMS[j] == a) == same


def item_name_parts(i: int) -> bool:
    """
    pre: 0 <= i < 13
    post: _
    """
    a, b = ProcedureItem(ITEMS[i], source=None), ProcedureItem(ITEMS[i].upper(), source=None)
    n = ITEMS[i]
    pos = n.find('#')
    scope = None if pos == -1 else n[:pos]
    local = n[pos + 1:]
    if a.scope_name != scope or a.local_name != local:
        return False
    if (a.scope_name or '').lower() != (b.scope_name or '').lower() or a.local_name.lower() != b.local_name.lower():
        return False
    return (a.scope_name is None) == (b.scope_name is None)


SUFFIX = ['_dup', '_DUP', 'Dup', '']


def duplicate_names(i: int, s: int, ms: int) -> bool:
    """
    pre: 0 <= i < 13 and 0 <= s < 4 and 0 <= ms < 4
    post: _
    """
    t1 = DuplicateKernel(duplicate_kernels=('r',), duplicate_suffix=SUFFIX[s], duplicate_module_suffix=SUFFIX[ms] or None)
    t2 = DuplicateKernel(duplicate_kernels=('R',), duplicate_suffix=SUFFIX[s].swapcase(),
                         duplicate_module_suffix=(SUFFIX[ms].swapcase() or None))
    a, b = ProcedureItem(ITEMS[i], source=None), ProcedureItem(ITEMS[i].swapcase(), source=None)
    r1, r2 = t1._get_new_item_name(a), t2._get_new_item_name(b)
    low = lambda t: tuple((x or '').lower() for x in t)
    if low(r1) != low(r2):
        return False
    scope, local, full = r1
    return full == f"{scope or ''}#{local}" and local == a.local_name + SUFFIX[s] and t1.duplicate_kernels == t2.duplicate_kernels


# ---- C23: definitions behind unqualified USE are found whatever the letter case of the call / module spelling
_LOOKUP_SRC = '''
module Phys_Mod
  implicit none
contains
  subroutine Kernel_A(x)
    real, intent(inout) :: x
    x = x + 1.0
  end subroutine Kernel_A
  subroutine kernel_b(x)
    real, intent(inout) :: x
    x = x*2.0
  end subroutine kernel_b
end module Phys_Mod
'''
LOOKUP_NAMES = ['kernel_a', 'KERNEL_A', 'Kernel_A', 'kernel_b', 'Kernel_B', 'KERNEL_B', 'kernel', 'kernel_a2', 'phys_mod']
LOOKUP_MODS = [('phys_mod',), ('Phys_Mod',), ('PHYS_MOD',), None, ('other_mod', 'phys_mod'), ('other_mod',)]


def _lookup_factory():
    from pathlib import Path
    from loki import Sourcefile, Frontend
    from loki.batch.item_factory import ItemFactory
    cfg = SchedulerConfig.from_dict({'default': {'role': 'kernel', 'expand': True, 'strict': False}, 'routines': {}})
    fact = ItemFactory()
    sf = Sourcefile.from_source(_LOOKUP_SRC, frontend=Frontend.REGEX)
    sf.path = Path('phys_mod.F90')
    fact.get_or_create_file_item_from_source(sf, config=cfg).create_definition_items(item_factory=fact, config=cfg)
    return fact, cfg


_FACT, _CFG = _lookup_factory()


def definition_lookup(si: int, mi: int) -> bool:
    """
    pre: 0 <= si < 9 and 0 <= mi < 6
    post: _
    """
    name, mods = LOOKUP_NAMES[si], LOOKUP_MODS[mi]
    got = _FACT.get_or_create_module_definitions_from_candidates(name, _CFG, module_names=list(mods) if mods else None)
    defined = name.lower() in ('kernel_a', 'kernel_b')
    visible = mods is None or any(m.lower() == 'phys_mod' for m in mods)
    if defined and visible:
        return len(got) == 1 and got[0].name == 'phys_mod#' + name.lower() and isinstance(got[0], ProcedureItem)
    return len(got) == 0


IMPORT_NAMES = ['helper', 'HELPER', 'state_t']


class _Sym:
    def __init__(self, name):
        self.name = name


class _Imp:
    """stand-in for loki.ir.Import: what get_all_import_map reads (symbols, rename_list) plus a label"""

    def __init__(self, label, names):
        self.label, self.symbols, self.rename_list = label, tuple(_Sym(n) for n in names), None


class _Scope:
    def __init__(self, imports, parent):
        self.imports, self.parent = tuple(imports), parent


def _pick3(k):
    return 0 if k <= 0 else (1 if k == 1 else 2)


def _import_map_check(idx):
    from loki.batch.item import get_all_import_map
    scope, chain = None, []
    for lvl in reversed(range(len(idx))):
        imps = [_Imp(f'L{lvl}U{u}', [IMPORT_NAMES[i]]) for u, i in enumerate(idx[lvl])]
        scope = _Scope(imps, scope)
        chain.insert(0, imps)
    got = get_all_import_map(scope)
    # reference: the innermost scope that imports a name (compared case-insensitively) provides it; within one scope
    # the first USE statement does
    want = {}
    for imps in chain:
        for imp in imps:
            for sy in imp.symbols:
                want.setdefault(sy.name.lower(), imp.label)
    if set(k.lower() for k in got) != set(want):
        return False
    return all(got[k].label == v for k, v in want.items())


def import_map_two_scopes(a0: int, a1: int, b0: int, b1: int) -> bool:
    """
    pre: 0 <= a0 < 3 and 0 <= a1 < 3 and 0 <= b0 < 3 and 0 <= b1 < 3
    post: _
    """
    # routine -> module, two USE statements of one symbol each; names may coincide up to letter case
    return _import_map_check([[_pick3(a0), _pick3(a1)], [_pick3(b0), _pick3(b1)]])


def import_map_three_scopes(a0: int, b0: int, c0: int) -> bool:
    """
    pre: 0 <= a0 < 3 and 0 <= b0 < 3 and 0 <= c0 < 3
    post: _
    """
    # internal procedure -> routine -> module, one USE statement each
    return _import_map_check([[_pick3(a0)], [_pick3(b0)], [_pick3(c0)]])


FUNCS_C21 = ['match_single_key', 'match_key_list', 'match_case_invariant', 'import_map_two_scopes', 'import_map_three_scopes']
FUNCS_C23 = ['item_eq', 'item_hash', 'item_container_lookup', 'item_str_eq', 'item_name_parts', 'duplicate_names', 'definition_lookup']


def generate(tier, which):
    from pathlib import Path
    text = Path(__file__).read_text().split('\ndef generate(tier, which):')[0]
    if tier == 'quick':
        text = text.replace('0 <= dj < 13 and i + dj < 13 and 0 <= ci < 3 and 0 <= cj < 3', '0 <= dj < 4 and i + dj < 13 and 0 <= ci < 3 and 0 <= cj < 3')
        text = text.replace('0 <= k2 < 22', '0 <= k2 < 22 and k2 == (k * 7 + 3) % 22 and i % 3 == 0')
    return text, (FUNCS_C21 if which == 'C21' else FUNCS_C23)
