"""CrossHair harness for C11: equality of expression nodes is symmetric, case-insensitive and hash-consistent.
Pool-indexed: every node kind in 2-3 spellings (letter case / blanks); symbolic indices pick the pair; literals get
symbolic integer values."""
from loki.expression import symbols as sym
from loki.expression import operations as ops
from loki.types import BasicType, SymbolAttributes, DerivedType, Scope


def mk(k):
    """pool of expression nodes; entries with the same CLS[k] denote the same Fortran expression in different spelling"""
    it = SymbolAttributes(BasicType.INTEGER)
    rt = SymbolAttributes(BasicType.REAL, shape=(sym.IntLiteral(3),))
    i = sym.Variable(name='i', type=it)
    I = sym.Variable(name='I', type=it)
    n = sym.Variable(name='n', type=it)
    if k == 0:
        return (0, sym.Variable(name='alpha', type=it))
    if k == 1:
        return (0, sym.Variable(name='ALPHA', type=it))
    if k == 2:
        return (0, sym.Variable(name='Alpha', type=it))
    if k == 3:
        return (32, sym.Variable(name='gamma'))
    if k == 4:
        return (32, sym.Variable(name='GAMMA'))
    if k == 5:
        return (1, sym.Variable(name='beta', type=it))
    if k == 6:
        return (2, sym.Variable(name='arr', type=rt, dimensions=(i,)))
    if k == 7:
        return (2, sym.Variable(name='ARR', type=rt, dimensions=(I,)))
    if k == 8:
        return (3, sym.Variable(name='arr', type=rt, dimensions=(sym.Sum((i, sym.IntLiteral(1))),)))
    if k == 9:
        return (3, sym.Variable(name='Arr', type=rt, dimensions=(sym.Sum((I, sym.IntLiteral(1))),)))
    if k == 10:
        return (4, sym.Variable(name='arr', type=rt))
    if k == 11:
        return (5, sym.Variable(name='st%comp'))
    if k == 12:
        return (5, sym.Variable(name='ST%Comp'))
    if k == 13:
        return (6, sym.Variable(name='st%other'))
    if k == 14:
        return (7, sym.Sum((i, n)))
    if k == 15:
        return (7, sym.Sum((I, sym.Variable(name='N', type=it))))
    if k == 16:
        return (8, sym.Sum((n, i)))
    if k == 17:
        return (9, sym.Product((sym.IntLiteral(2), i)))
    if k == 18:
        return (9, sym.Product((sym.IntLiteral(2), I)))
    if k == 19:
        return (10, sym.Quotient(i, n))
    if k == 20:
        return (11, sym.Power(i, sym.IntLiteral(2)))
    if k == 21:
        return (12, sym.Comparison(i, '<', n))
    if k == 22:
        return (12, sym.Comparison(I, '<', n))
    if k == 23:
        return (13, sym.Comparison(i, '<=', n))
    if k == 24:
        return (14, sym.LogicalAnd((sym.Comparison(i, '<', n), sym.LogicLiteral('.true.'))))
    if k == 25:
        return (15, sym.InlineCall(sym.ProcedureSymbol('max', scope=None), parameters=(i, n)))
    if k == 26:
        return (15, sym.InlineCall(sym.ProcedureSymbol('MAX', scope=None), parameters=(I, n)))
    if k == 27:
        return (16, sym.InlineCall(sym.ProcedureSymbol('min', scope=None), parameters=(i, n)))
    if k == 28:
        return (17, sym.Cast('real', i))
    if k == 29:
        return (17, sym.Cast('REAL', I))
    if k == 30:
        return (18, sym.Cast('real', i, kind=sym.Variable(name='jprb')))
    if k == 31:
        return (19, sym.RangeIndex((sym.IntLiteral(1), n)))
    if k == 32:
        return (19, sym.RangeIndex((sym.IntLiteral(1), sym.Variable(name='N', type=it))))
    if k == 33:
        return (20, sym.RangeIndex((sym.IntLiteral(2), n)))
    if k == 34:
        return (21, sym.RangeIndex((None, None)))
    if k == 35:
        return (22, sym.LoopRange((sym.IntLiteral(1), n)))
    if k == 36:
        return (23, sym.LoopRange((sym.IntLiteral(1), n, sym.IntLiteral(2))))
    if k == 37:
        return (24, sym.StringLiteral('abc'))
    if k == 38:
        return (25, sym.StringLiteral('ABC'))
    if k == 39:
        return (26, sym.FloatLiteral('1.0'))
    if k == 40:
        return (27, sym.FloatLiteral('1.0', kind=sym.Variable(name='jprb')))
    if k == 41:
        return (28, sym.LogicLiteral('.true.'))
    if k == 42:
        return (29, sym.LogicLiteral('.false.'))
    if k == 43:
        return (30, ops.ParenthesisedAdd((i, n)))
    if k == 44:
        return (31, sym.LiteralList((sym.IntLiteral(1), sym.IntLiteral(2))))
    return (99, sym.IntLiteral(0))


NPOOL = 45


def pick(k, lo, hi):
    """concretise a symbolic pool index with O(log n) branch decisions (instead of one solver call per pool entry)"""
    while lo < hi:
        mid = (lo + hi) // 2
        if k <= mid:
            hi = mid
        else:
            lo = mid + 1
    return lo


def pair_laws(a: int, b: int) -> bool:
    """
    pre: 0 <= a < 45 and 0 <= b < 45
    post: _
    """
    ca, x = mk(pick(a, 0, 44))
    cb, y = mk(pick(b, 0, 44))
    exy, eyx = (x == y), (y == x)
    if bool(exy) != bool(eyx):
        return False                      # symmetry
    if ca == cb and not exy:
        return False                      # spellings differing only in letter case are equal
    if exy and hash(x) != hash(y):
        return False                      # equal nodes hash equal
    if bool(x != y) == bool(exy):
        return False                      # != is the negation of ==
    return True


def dict_key_laws(a: int, b: int) -> bool:
    """
    pre: 0 <= a < 45 and 0 <= b < 45
    post: _
    """
    ca, x = mk(pick(a, 0, 44))
    cb, y = mk(pick(b, 0, 44))
    d = {x: 'v'}
    if x == y:
        return y in d and d[y] == 'v'
    return True


def int_literal_laws(i: int, j: int, withkind: bool) -> bool:
    """
    pre: -5 <= i <= 5 and -5 <= j <= 5
    post: _
    """
    kind = sym.Variable(name='jpim') if withkind else None
    x, y = sym.IntLiteral(i), sym.IntLiteral(j, kind=kind)
    e = (x == y)
    if bool(e) != bool(y == x):
        return False
    if e and hash(x) != hash(y):
        return False
    if i != j and e:
        return False
    # comparison with plain integers
    # comparison with plain integers (not expression nodes: no hash requirement)
    return (x == j) == (i == j) and (j == x) == (i == j)


def float_int_laws(i: int, j: int) -> bool:
    """
    pre: -3 <= i <= 3 and -3 <= j <= 3
    post: _
    """
    f = sym.FloatLiteral(str(i) + '.0')
    k = sym.IntLiteral(j)
    e1, e2 = (f == k), (k == f)
    if bool(e1) != bool(e2):
        return False
    if e1 and hash(f) != hash(k):
        return False
    return True


FLOATS = ['1.0E-3', '1.0e-3', '1E3', '1e3', '2.5D0', '2.5d0', '1.0', '1.00', '0.5', '.5', '1.', '1.0_8']
FKINDS = [None, 'jprb', 'JPRB', 'jprd']


def float_spelling_laws(a: int, b: int, ka: int, kb: int) -> bool:
    """
    pre: 0 <= a < 12 and 0 <= b < 12 and 0 <= ka < 4 and 0 <= kb < 4
    post: _
    """
    # whatever spellings the implementation decides to identify (exponent letter case, kind case): the decision must be
    # symmetric, equal literals must hash equal and be found as dict / set keys
    va, vb = FLOATS[pick(a, 0, 11)], FLOATS[pick(b, 0, 11)]
    na, nb = FKINDS[pick(ka, 0, 3)], FKINDS[pick(kb, 0, 3)]
    x = sym.FloatLiteral(va, kind=sym.Variable(name=na) if na else None)
    y = sym.FloatLiteral(vb, kind=sym.Variable(name=nb) if nb else None)
    e = (x == y)
    if bool(e) != bool(y == x):
        return False
    if e and hash(x) != hash(y):
        return False
    if e and (y not in {x: 1} or x not in {y}):
        return False
    if bool(x != y) == bool(e):
        return False
    # identical spelling and kinds differing at most in letter case are the same literal
    if va == vb and (na or '').lower() == (nb or '').lower() and not e:
        return False
    return True


def range_shortcut_is_only_exception(a: int) -> bool:
    """
    pre: 0 <= a < 45
    post: _
    """
    # documented exception: a subscript range 1:n compares equal to n -- and to nothing else in the pool
    it = SymbolAttributes(BasicType.INTEGER)
    n = sym.Variable(name='n', type=it)
    r = sym.RangeIndex((sym.IntLiteral(1), n))
    ca, x = mk(pick(a, 0, 44))
    if ca in (19,):
        return True
    if isinstance(x, (sym.Scalar, sym.DeferredTypeSymbol)) and x.name.lower() == 'n':
        return True
    return not (r == x) and not (x == r)


FUNCS = ['pair_laws', 'dict_key_laws', 'int_literal_laws', 'float_int_laws', 'range_shortcut_is_only_exception', 'float_spelling_laws']
GROUP = 5      # pool indices per generated condition (one CrossHair process each)


def generate(tier):
    """module text for CrossHair: pair_laws / dict_key_laws are split by ranges of the first index so that the
    conditions run in parallel; quick restricts the second index to b - a in 0..2 (case variants are adjacent)"""
    import re
    from pathlib import Path
    text = Path(__file__).read_text().split(chr(10) + 'FUNCS = [')[0]
    funcs = ['int_literal_laws', 'float_int_laws', 'range_shortcut_is_only_exception', 'float_spelling_laws']
    for base in ('pair_laws', 'dict_key_laws'):
        m = re.search(r'(?ms)^def %s\(.*?(?=^def )' % base, text)
        src = m.group(0)
        for lo in range(0, NPOOL, GROUP):
            hi = min(lo + GROUP, NPOOL)
            pre = f'pre: {lo} <= a < {hi} and 0 <= b < 45'
            if tier == 'quick':
                pre += ' and 0 <= b - a <= 2'
            name = f'{base}_a{lo:02d}'
            text += chr(10) + src.replace(f'def {base}(', f'def {name}(').replace('pre: 0 <= a < 45 and 0 <= b < 45', pre)
            funcs.append(name)
    return text, funcs
