"""C01 -- parsing and regenerating Fortran preserves program behaviour (translation validation of
parse -> fgen -> parse; the interpreter itself is validated against gfortran on the same programs in the thorough tier)."""
from vlib.tv import run_tv, replay_tv
from vlib.corpus.c01 import cases
from checks._tvmeta import COMMON_ASSUME, COMMON_BOUNDS

PROP = 'C01'


def _self(item):
    from vlib.fsmt.equiv import Prog, selfcheck, replay_equiv  # pylint: disable=import-outside-toplevel
    name, src, entry, sizes, seed = item
    try:
        p = Prog.from_source(src, entry)
    except Exception as ex:  # pylint: disable=broad-except
        return name, None, f'frontend: {ex}', None, None
    ok, msg = selfcheck(p, sizes, seed)
    rep = None
    exact = None
    if True:
        # (programs the interpreter cannot encode are still replayed, on default inputs)
        # end-to-end round trip on the inputs z3 chose: gfortran(text) and gfortran(fgen(parse(text))) are the same
        # computation, so their outputs must be identical to the last digit (a lost kind / changed literal shows here)
        try:
            q0 = Prog.from_source(p.sourcefile.to_fortran(), entry)
            exact = replay_equiv(p, q0, sizes, selfcheck.last_model or {}, rtol=0)
        except Exception as ex:  # pylint: disable=broad-except
            exact = (True, f'regenerated program is rejected by the frontend: {type(ex).__name__}: {str(ex)[:120]}')
    if exact is not None and exact[0]:
        return name, ok, msg, rep, exact
    if ok is False:
        # interpreter(parse(text)) disagrees with gfortran(text): frontend defect or interpreter defect?  the compiler
        # decides: compare gfortran(text) with gfortran(fgen(parse(text))) on default inputs and on the failing ones
        q = Prog.from_source(p.sourcefile.to_fortran(), entry)
        rep = replay_equiv(p, q, sizes, {})
    return name, ok, msg, rep, exact


def selfvalidate(ctx, tier, seed):
    """interpreter vs gfortran on seeded admissible inputs (inputs chosen by z3 under the assumptions)"""
    from vlib.common import pmap  # pylint: disable=import-outside-toplevel
    from vlib.corpus.programs import P  # pylint: disable=import-outside-toplevel
    items = []
    seeds = [seed + 1] if tier == 'quick' else [seed + k for k in range(1, 6)]
    for name, src, entry, sizes in P:
        if 'frontend-limit' in name:
            continue
        for sd in seeds:
            items.append((name, src, entry, sizes[0], sd))
    if tier == 'thorough':
        seen = set()
        for c in cases(tier):
            if c.name.startswith('tmpl/') and c.src not in seen:
                seen.add(c.src)
                items.append((c.name, c.src, c.entry, c.sizes[0], seed + 1))
    n_ok = n_exact = 0
    for name, ok, msg, rep, exact in pmap(_self, items):
        if exact is not None:
            n_exact += 1
            if exact[0]:
                ctx.candidate(f'roundtrip-exact:{name}', f'{name}: gfortran(text) and gfortran(fgen(parse(text))) print different values on '
                              f'solver-chosen inputs: {exact[1][:300]}', {'case': name, 'kind': 'exact'})
                continue
        if ok:
            n_ok += 1
        elif ok is None:
            ctx.extra.setdefault('selfvalidation_skipped', []).append(f'{name}: {msg}'[:160])
        elif rep and rep[0]:
            ctx.candidate(f'frontend-meaning:{name}', f'gfortran(text) != gfortran(fgen(parse(text))) and interpreter(parse(text)) != gfortran(text): {msg}', {'case': name})
        else:
            ctx.unrepro(f'interpreter disagrees with gfortran on {name}: {msg}')
    ctx.traces_validated = n_ok
    ctx.extra['selfvalidation'] = {'programs_x_seeds': len(items), 'agree': n_ok, 'exact_roundtrip_replays': n_exact}


def run(tier, seed):
    return run_tv(
        PROP, tier, seed, cases(tier),
        rule=('each program of the corpus (scalars/arrays/derived types, counted/while/named/labelled loops, IF/ELSE IF, SELECT CASE '
              'with ranges and lists, WHERE/ELSEWHERE, internal procedures, functions, optional/keyword arguments, allocatables, '
              'PRINT/STOP/RETURN, pragmas/comments/continuations, kinds; every source of the transformation templates; programs '
              'whose assignments are filled from the C07 expression-string family) is parsed with the FP frontend, regenerated with '
              'fgen and parsed again; z3 decides whether the two IRs can differ observably for any input; non-trivial = every program'),
        functions=['loki.frontend.fparser (FParser2IR)', 'loki.frontend.preprocessing.sanitize_input', 'loki.backend.fgen.FortranCodegen',
                   'Sourcefile.from_source / to_fortran'],
        bounds=dict(COMMON_BOUNDS, outside='OPEN/format I/O semantics, preprocessing, fixed form, OMNI frontend; the frontend obligation '
                    '(IR vs an independent meaning of the text) is covered for expressions by C07 and for whole programs only by '
                    'the gfortran self-validation of the interpreter'),
        assumptions=COMMON_ASSUME, quick_max=30, quick_filter=lambda c: c.name.startswith('expr-slots'),
        post=lambda ctx: selfvalidate(ctx, tier, seed))


def replay(path):
    import json  # pylint: disable=import-outside-toplevel
    d = json.load(open(path))['replay']
    if d.get('kind') == 'exact':
        from vlib.corpus.programs import P  # pylint: disable=import-outside-toplevel
        items = [(n, s, e, z[0], 2) for n, s, e, z in P if n == d['case']]
        items += [(c.name, c.src, c.entry, c.sizes[0], 2) for c in cases('thorough') if c.name == d['case']][:1]
        for it in items[:1]:
            res = _self(it)
            print(res[4])
            return 1 if res[4] and res[4][0] else 0
        return 3
    return replay_tv(path, cases('thorough'))
