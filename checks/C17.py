"""C17 -- behavioural projection by translation validation over the program corpus (vlib/corpus/struct.py)."""
from vlib.tv import run_tv, replay_tv
from vlib.corpus.struct import c17_cases as cases
from checks._tvmeta import COMMON_ASSUME, COMMON_BOUNDS

PROP = 'C17'


def run(tier, seed):
    return run_tv(
        PROP, tier, seed, cases(),
        rule='PARTIAL (behavioural projection): Sourcefile.clone() / Subroutine.clone() have the meaning of the original; after a visible edit of the clone the ORIGINAL still has its meaning, and after an edit of the original the CLONE still has it (z3 equivalence for every input).' + ' Outer family: the program corpus (vlib/corpus/programs.py) and the sources of the transformation templates; every case is an obligation.',
        functions=['Sourcefile.clone', 'ProgramUnit.clone / Subroutine.clone / Module.clone', 'Scope.clone / rescope_symbols'],
        bounds=dict(COMMON_BOUNDS, outside='node identity, pragma placement, text identity, scope-chain and symbol-identity statements of the property (no value domain for a solver: not claimed)'),
        assumptions=COMMON_ASSUME)


def replay(path):
    return replay_tv(path, cases())
