"""C12 -- symbol tables behave as scoped, case-insensitive mappings (CrossHair, one inductive step from an arbitrary
valid state; see harness/C12_tables.py)."""
from vlib.xhcheck import run_xh, replay_xh
import harness.C12_tables as H

PROP = 'C12'


def signature(func, call):
    cls = {'st': 'SymbolTable', 'sc': 'Scope', 'cid': 'CaseInsensitiveDict'}[func.split('_')[0]]
    if func.startswith('cid') and call and call.split('(')[1].split(',')[0].strip() == '1' and func != 'cid_missing_default':
        cls = 'CaseInsensitiveDefaultDict'
    return f'{cls}:{func.split("_", 1)[1]}'


def run(tier, seed):
    text, funcs = H.generate(tier)
    return run_xh(
        PROP, tier, seed, 'C12_tables', text, funcs, signature,
        rule=('one CrossHair condition per operation (in, [], get, lookup, []=, setdefault, update, del, pop, clone, '
              're-parenting, returned-copy, 3-level lookup; Scope.declare/update/get_type/get_symbol_scope; the same for '
              'CaseInsensitiveDict/DefaultDict) executed on the real classes from a symbolic pre-state (Booleans decide '
              'which of the canonical names are present at which level) with the key spelling chosen by a symbolic index '
              'into a pool of case/dimension variants; post-condition = agreement of result and complete post-state with a '
              'reference dict keyed by case-folded name; non-trivial = condition with refuted reachability twin'),
        functions=['loki.types.symbol_table.SymbolTable (all mapping methods)', 'loki.types.scope.Scope.declare/update/get_type/get_symbol_scope',
                   'loki.tools.util.CaseInsensitiveDict', 'loki.tools.util.CaseInsensitiveDefaultDict'],
        bounds={'levels': '2 (3 for lookup)', 'canonical_names': 'a, b (+ absent c)', 'spellings': '6 quick / 8 thorough',
                'quick': "child-level 'b' fixed absent", 'histories': 'one step from any valid state = histories of any length '
                '(reference state is the representation invariant)'},
        assumptions=['keys are str', 'case-insensitive tables only (case_sensitive=False)'],
        timeout_quick=120, timeout_thorough=600)


def replay(path):
    text, _ = H.generate('thorough')
    return replay_xh(path, 'C12_tables', text)
