"""C33 -- behaviour preservation by translation validation (templates: vlib/corpus/c33.py)."""
from vlib.tv import run_tv, replay_tv
from vlib.corpus.c33 import cases

PROP = 'C33'
META = __import__('checks._tvmeta', fromlist=['META']).META[PROP]


def run(tier, seed):
    return run_tv(PROP, tier, seed, cases(), **META)


def replay(path):
    return replay_tv(path, cases())
