"""C04 -- generated lines respect the width limit without altering tokens (CrossHair over JoinableStringList)."""
from vlib.xhcheck import run_xh, replay_xh
import harness.C04_wrap as H

PROP = 'C04'


def run(tier, seed):
    text, funcs = H.generate(tier)
    return run_xh(
        PROP, tier, seed, 'C04_wrap', text, funcs, lambda f, c: f'wrap:{f}',
        rule=('one CrossHair condition per layout (3-5 items, separators ", " / "" / " // ", nested separable / inseparable lists, deep '
              'indentation, quoted-string chunks, chunks with blanks, width 132) with two symbolic item lengths; post-condition: '
              'removing the continuation markers gives the unwrapped rendering and every line is <= width unless one unbreakable '
              'piece alone exceeds it'),
        functions=['loki.tools.strings.JoinableStringList.__str__/_to_str/_add_item_to_line'],
        bounds={'item_lengths': '1..11 (quick) / 1..24 (thorough); width-132 layout: 120..133 x 1..5 (quick), 80..140 x 1..30 (thorough)', 'widths': '14-22 and 132',
                'outside': 'Stringifier.join_items/format_line on whole IR (fgen of IR is not executable under CrossHair), comments appended with comment='},
        assumptions=['small widths stand in for 132: the algorithm only compares sums of lengths with the width'],
        timeout_quick=120, timeout_thorough=600)


def replay(path):
    text, _ = H.generate('thorough')
    return replay_xh(path, 'C04_wrap', text)
