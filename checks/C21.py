"""C21 (partial: config-key matching kernel only) -- SchedulerConfig.match_item_keys under CrossHair."""
from vlib.xhcheck import run_xh, replay_xh
import harness.C2x_batch as H

PROP = 'C21'


def signature(func, call):
    return f'match_item_keys:{func}'


def run(tier, seed):
    text, funcs = H.generate(tier, PROP)
    return run_xh(
        PROP, tier, seed, 'C2x_batch', text, funcs, signature,
        rule=('CrossHair conditions over symbolic indices into pools of 13 item names (scoped, unscoped, type-bound, nested, '
              'case variants) and 22 config keys (plain, scoped, fnmatch patterns, case variants) and symbolic flags '
              'use_pattern_matching / match_item_parents; post-condition: the real match_item_keys agrees with a reference '
              'written from its docstring, for single keys, key lists (order preserved) and under case permutation'),
        functions=['loki.batch.configure.SchedulerConfig.match_item_keys'],
        bounds={'item_names': 13, 'keys': 22, 'flags': 'all 4 combinations', 'quick': 'key-list condition on a slice of the pools',
                'outside': 'graph construction, discovery, pruning, edges (no value domain: not claimed)'},
        assumptions=['reference matcher ref_match in harness/C2x_batch.py transcribes the documented rules',
                     'fnmatch.fnmatchcase on lower-cased names is the documented pattern semantics'],
        timeout_quick=150, timeout_thorough=900)


def replay(path):
    text, _ = H.generate('thorough', PROP)
    return replay_xh(path, 'C2x_batch', text)
