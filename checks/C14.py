"""C14 (behavioural projection) -- the tree transformer applies exactly the requested mapping: identity-like mappings
(empty mapping, nodes mapped to equal copies, one-to-many tuples containing the node itself, removal of comments, nested
replacement, dropped result) must leave a tree with the same meaning; z3 decides for every input."""
from vlib.tv import run_tv, replay_tv
from vlib.corpus.struct import c14_cases
from checks._tvmeta import COMMON_ASSUME, COMMON_BOUNDS

PROP = 'C14'


def run(tier, seed):
    return run_tv(
        PROP, tier, seed, c14_cases(),
        rule=('each corpus program x mapping family: the real Transformer / NestedTransformer is applied to the body of every routine with '
              'a mapping whose exact application cannot change the meaning (empty mapping with and without in-place mode and scope '
              'rebuilding; every assignment -> an equal copy; leaf statements -> tuples (comment, node) / (node, comment); comments -> None; '
              'loops / conditionals and the assignments inside them -> equal copies under NestedTransformer; a destructive mapping whose '
              'result is dropped); original and result are interpreted symbolically and z3 decides whether any input yields a different '
              'observable (results, PRINT output, pragma annotations reached on the pragma-rich sources); a transformer that raises is a violation'),
        functions=['loki.ir.Transformer.visit_Node / visit_tuple / _inject_tuple_mapping / visit_MultiConditional / visit_ScopedNode',
                   'NestedTransformer', 'Node._rebuild / _update'],
        bounds=dict(COMMON_BOUNDS, outside='node identity, the record of rebuilt nodes, MaskedTransformer / NestedMaskedTransformer, mappings that are '
                    'meant to change the meaning (no reference semantics to compare with)'),
        assumptions=COMMON_ASSUME)


def replay(path):
    return replay_tv(path, c14_cases())
