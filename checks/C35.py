"""C35 -- Fortran-to-C transpilation preserves behaviour: Fortran-semantics interpretation of the original vs C-semantics
interpretation of the generated kernel (templates: vlib/corpus/c35.py); replay through the generated ISO-C wrapper."""
from vlib.tv import run_tv, replay_tv
from vlib.corpus.c35 import cases

PROP = 'C35'
META = __import__('checks._tvmeta', fromlist=['META']).META[PROP]


def run(tier, seed):
    return run_tv(PROP, tier, seed, cases(), **META)


def replay(path):
    return replay_tv(path, cases())
