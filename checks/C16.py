"""C16 -- behavioural projection by translation validation over the program corpus (vlib/corpus/struct.py)."""
from vlib.tv import run_tv, replay_tv
from vlib.corpus.struct import c16_cases as cases
from checks._tvmeta import COMMON_ASSUME, COMMON_BOUNDS

PROP = 'C16'


def run(tier, seed):
    return run_tv(
        PROP, tier, seed, cases(),
        rule='PARTIAL (behavioural projection): attach -> detach of pragmas, pragma regions and dataflow analysis (context managers, nested, with a raising body; functional attach/detach) leaves a program unit whose meaning z3 proves equal to the freshly parsed original for every input.' + ' Outer family: the program corpus (vlib/corpus/programs.py) and the sources of the transformation templates; every case is an obligation.',
        functions=['pragmas_attached / attach_pragmas / detach_pragmas', 'pragma_regions_attached / attach_pragma_regions / detach_pragma_regions', 'dataflow_analysis_attached'],
        bounds=dict(COMMON_BOUNDS, outside='node identity, pragma placement, text identity, scope-chain and symbol-identity statements of the property (no value domain for a solver: not claimed)'),
        assumptions=COMMON_ASSUME)


def replay(path):
    return replay_tv(path, cases())
