"""C20 (partial: span-arithmetic kernel) -- Source objects derived from a consistent Source stay consistent with the
file (CrossHair over symbolic text / span / first line)."""
from vlib.xhcheck import run_xh, replay_xh
import harness.C20_source as H

PROP = 'C20'


def run(tier, seed):
    text, funcs = H.generate(tier)
    return run_xh(
        PROP, tier, seed, 'C20_source', text, funcs, lambda f, c: f'source-span:{f}',
        rule=('CrossHair conditions on Source.clone_with_span / clone_lines / clone_with_string / join_source_list with a symbolic '
              'text over {a, b, blank, newline}, symbolic character span and symbolic first line number: if the input Source '
              'matches the file at its recorded lines, so does every derived Source (line count, partial first/last line, order)'),
        functions=['loki.frontend.source.Source.clone_with_span', 'clone_lines', 'clone_with_string', 'join_source_list'],
        bounds={'text_length': '<= 4-5 (quick) / 5-6 (thorough)', 'first_line': '1..3',
                'outside': 'which span each frontend attaches to which node kind (fparser / regex frontend are not executable under CrossHair): not claimed'},
        assumptions=['consistency predicate in harness/C20_source.py'],
        timeout_quick=150, timeout_thorough=900)


def replay(path):
    text, _ = H.generate('thorough')
    return replay_xh(path, 'C20_source', text)
