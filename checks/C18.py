"""C18 -- behavioural projection by translation validation over the program corpus (vlib/corpus/struct.py)."""
from vlib.tv import run_tv, replay_tv
from vlib.corpus.struct import c18_cases as cases
from checks._tvmeta import COMMON_ASSUME, COMMON_BOUNDS

PROP = 'C18'


def run(tier, seed):
    return run_tv(
        PROP, tier, seed, cases(),
        rule='PARTIAL (behavioural projection): pickle.loads(pickle.dumps(unit)) of source files, modules and subroutines has the meaning of the original for every input (z3 equivalence).' + ' Outer family: the program corpus (vlib/corpus/programs.py) and the sources of the transformation templates; every case is an obligation.',
        functions=['__getstate__/__setstate__ of Sourcefile / Module / Subroutine', 'ScopedNode.__setstate__', 'SymbolTable pickling'],
        bounds=dict(COMMON_BOUNDS, outside='node identity, pragma placement, text identity, scope-chain and symbol-identity statements of the property (no value domain for a solver: not claimed)'),
        assumptions=COMMON_ASSUME)


def replay(path):
    return replay_tv(path, cases())
