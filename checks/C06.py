r"""C06 -- printed expressions denote the tree they were printed from.

Outer quantifier: deterministic family of typed expression trees (vlib.corpus.exprs) + trees produced by the real
SubstituteExpressions and simplify.  Inner quantifier (symbolic, z3): all valuations of the variables.
Obligation per (tree, backend):   exists valuation. defined /\ [[tree]] != [[refparse(backend(tree))]]   must be unsat.
"""
import re
import z3
import pymbolic.primitives as pmbl

from loki import fgen, cgen, Subroutine, FindNodes
from loki.ir import Assignment, SubstituteExpressions
from loki.expression import symbols as sym
from loki.expression import operations as ops
from loki.expression.symbolic import simplify

from vlib.common import Ctx, pmap, rotate
from vlib.corpus import exprs as X
from vlib.fsmt.sem import Sem
from vlib.fsmt.expr import ExprEnc, NotEncoded, fullparen, is_minus_one
from vlib.fsmt.solve import prove_equal
from vlib.refparse import parse_fortran, parse_c, ast_to_z3, RefParseError
from vlib import replay as RP

PROP = 'C06'
BOUND = 6


def substituted_trees():
    """Trees built by the real SubstituteExpressions on frontend-parsed statements (programmatic substitution)."""
    src = """
subroutine t(a,b,c,r,x,y,z,s)
integer :: a,b,c,r
real :: x,y,z,s
r = a*b
r = -a
r = a**2
r = c/a
r = c - a
r = b*a*c
r = c/a/b
r = 2**a
r = c - a + b
s = x*y
s = -x
s = z/x
s = z - x
s = y*x*z
end subroutine
"""
    r = Subroutine.from_source(src)
    asg = FindNodes(Assignment).visit(r.body)
    iv = {v.name: v for v in r.variables}
    a, b, c, x, y, z = (iv[n] for n in 'abcxyz')
    out = []
    repl_i = [sym.Sum((b, c)), sym.Product((b, c)), X.neg(b), sym.Quotient(b, c), sym.Power(b, sym.IntLiteral(2)),
              sym.Sum((b, X.neg(c))), sym.IntLiteral(-2), sym.Quotient(sym.Product((b, c)), sym.IntLiteral(2))]
    repl_r = [sym.Sum((y, z)), sym.Product((y, z)), X.neg(y), sym.Quotient(y, z), sym.Sum((y, X.neg(z)))]
    for st in asg:
        if st.lhs.name == 'r':
            for rp in repl_i:
                new = SubstituteExpressions({a: rp}).visit(st)
                out.append(('int', new.rhs))
        else:
            for rp in repl_r:
                new = SubstituteExpressions({x: rp}).visit(st)
                out.append(('real', new.rhs))
    return out


def build_family(tier):
    d = 3 if tier == 'quick' else 3
    fam = []
    ints = X.arith_trees(X.int_leaves(), d)
    fam += [('int', t) for t in ints]
    reals = X.arith_trees(X.real_leaves(), 2, exp_leaves=[sym.IntLiteral(2)])
    fam += [('real', t) for t in reals]
    mixed = X.arith_trees([X.V('x', X.REAL_T), X.V('a', X.INT_T), sym.IntLiteral(3)], 2)
    fam += [('real', t) for t in mixed]
    fam += [('logic', t) for t in X.logic_trees(ints[1:200:5])]
    fam += substituted_trees()
    il, rl = X.int_leaves(), X.real_leaves()
    fam += [('int-pyop', t) for t in X.pyop_trees([il[0], il[1], il[3]])]
    fam += [('int-powtower', t) for t in X.power_towers(il)]
    fam += [('real-powtower', t) for t in X.power_towers([rl[0], il[1], il[2]])]
    fam += [('real-pyop', t) for t in X.pyop_trees([rl[0], rl[1], rl[3]])]
    # trees produced by the real simplifier
    seen = set()
    for kind, t in [('int', t) for t in ints[:1500]] + [('real', t) for t in reals[:300]]:
        try:
            s = simplify(t)
        except Exception:  # pylint: disable=broad-except
            continue
        k = X.show(s)
        if k not in seen and not isinstance(s, (int, float)):
            seen.add(k)
            fam.append((kind + '-simplified', s))
    if tier == 'thorough':
        lv = X.int_leaves()
        more = X.arith_trees([lv[1], lv[2], lv[0]], 3, binops=X.PLAIN, unops=['neg'])
        deep = X.arith_trees(lv, 4, binops=['add', 'sub', 'mul', 'div'], unops=['neg'])
        fam += [('int', t) for t in more + deep]
        fam += [('real', t) for t in X.arith_trees(X.real_leaves(), 3, binops=X.PLAIN, unops=['neg'])]
    # dedupe
    out, seen = [], set()
    for kind, t in fam:
        k = X.show(t)
        if k in seen:
            continue
        seen.add(k)
        out.append((kind, t))
    return out


def make_env(sem):
    env = {n: sem.int_var(n, BOUND) for n in 'abc'}
    env.update({n: sem.real_const(n, BOUND) for n in 'xyzs'})
    env.update({n: z3.Bool(n) for n in 'pq'})
    return env


def emit(tree, backend):
    return fgen(tree) if backend == 'fgen' else cgen(tree)


class _IllTypedText(Exception):
    pass


def decide(tree, backend, real_mode='real', want_gap=False):
    """returns (verdict, info).  verdict: unsat | sat | unparsable | notenc | unknown | illtyped | emit-error"""
    lang = 'fortran' if backend == 'fgen' else 'c'
    try:
        text = emit(tree, backend)
    except Exception as ex:  # pylint: disable=broad-except
        return 'emit-error', {'error': repr(ex)}
    try:
        ast = parse_fortran(text) if lang == 'fortran' else parse_c(text)
    except RefParseError as ex:
        return 'unparsable', {'text': text, 'why': str(ex)}

    def build(sem):
        env = make_env(sem)
        ur = sem.used_real
        sem.used_real = False    # declaring real variables does not make the obligation real-valued
        t1 = ExprEnc(sem, env).enc(tree)
        try:
            t2 = ast_to_z3(ast, sem, env)
        except TypeError as ex:
            raise _IllTypedText(str(ex)) from ex
        return t1, t2, env

    try:
        res = prove_equal(build, real_mode=real_mode, lang=lang, timeout_ms=8000, want_gap=want_gap)
    except NotEncoded as ex:
        return 'notenc', {'text': text, 'why': str(ex)}
    except _IllTypedText as ex:
        return 'sat', {'text': text, 'why': f'text is ill-typed: {ex}', 'model': {}}
    except TypeError as ex:
        return 'illtyped', {'text': text, 'why': str(ex)}
    except (RefParseError, NotImplementedError) as ex:
        return 'unparsable', {'text': text, 'why': str(ex)}
    info = {'text': text, 'solver_s': res['seconds'], 'structural': res['structural'], 'mode': res['mode']}
    if res['verdict'] == 'sat':
        info['model'] = res['model']
        info['tree_value'] = res.get('v1')
        info['text_value'] = res.get('v2')
        info['why'] = res.get('why')
    return res['verdict'], info


def _node_name(e):
    if isinstance(e, pmbl.Product) and len(e.children) >= 2 and is_minus_one(e.children[0]):
        return 'Neg'
    if isinstance(e, sym.IntLiteral):
        return 'NegLit' if e.value < 0 else '_'
    n = type(e).__name__
    if isinstance(e, (pmbl.Sum, pmbl.Product, pmbl.Quotient, pmbl.Power, pmbl.Comparison, pmbl.LogicalAnd,
                      pmbl.LogicalOr, pmbl.LogicalNot)):
        return n
    return '_'


def signature(tree, backend, cache):
    """backend:Root(childkinds) of the minimal failing subtree (all of whose proper subtrees are printed faithfully)"""
    subs = sorted((s for s in X.subtrees(tree) if isinstance(s, pmbl.Expression)), key=lambda e: len(X.show(e)))
    for st in subs:
        k = (X.show(st), backend)
        if k not in cache:
            cache[k] = decide(st, backend)[0]
        if cache[k] in ('sat', 'unparsable'):
            root = _node_name(st).replace('Parenthesised', '')
            root = {'Add': 'Sum', 'Mul': 'Product', 'Div': 'Quotient', 'Pow': 'Power'}.get(root, root)
            kids = ','.join(_node_name(c).replace('Parenthesised', 'P') for c in X._children(st)
                            if not (isinstance(c, int)))
            return f'{backend}:{root}({kids})'
    return f'{backend}:context-dependent'


FAMILY = []


def work(i):
    kind, tree = FAMILY[i]
    res = []
    for backend in ('fgen', 'cgen'):
        v, info = decide(tree, backend, 'real', want_gap=True)
        uf = None
        if v == 'unsat' and kind.startswith('real'):
            uf = decide(tree, backend, 'uf')[0]
        res.append((backend, v, info, uf))
    return i, res


def c_decl_and_assign(model):
    lines = []
    for n in 'abc':
        lines.append(f'  int {n} = {model.get(n, 1)};')
    for n in 'xyzs':
        v = model.get(n, (1, 1))
        v = v if isinstance(v, tuple) else (v, 1)
        lines.append(f'  double {n} = {v[0]}.0/{v[1]}.0;')
    for n in 'pq':
        lines.append(f'  int {n} = {1 if model.get(n) else 0};')
    return '\n'.join(lines)


def replay_candidate(tree, backend, info):
    """compile both renderings with the real compiler at the model values; True iff they differ (or text rejected)"""
    text = info['text']
    model = info.get('model', {})
    if backend == 'fgen':
        decl = ['integer :: a, b, c', 'real(8) :: x, y, z, s', 'logical :: p, q']
        for n in 'abc':
            decl.append(f'{n} = {model.get(n, 1)}')
        for n in 'xyzs':
            v = model.get(n, (1, 1))
            v = v if isinstance(v, tuple) else (v, 1)
            decl.append(f'{n} = {v[0]}.0d0/{v[1]}.0d0')
        for n in 'pq':
            decl.append(f"{n} = {'.true.' if model.get(n) else '.false.'}")
        body = '\n'.join('  ' + l for l in decl)
        ref = fullparen(tree, 'fortran')
        prog = f'program rp\n{body}\n  print *, {ref}\n  print *, {text}\nend program rp\n'
        ok, out, err = RP.run_fortran([('rp.f90', prog)], std='f2008')
        if not ok:
            # does the reference alone compile?  then the emitted text is what the compiler rejects
            prog2 = f'program rp\n{body}\n  print *, {ref}\nend program rp\n'
            ok2, _, _ = RP.run_fortran([('rp.f90', prog2)], std='f2008')
            if ok2:
                return True, f'gfortran -std=f2008 rejects {text!r}: {err.strip().splitlines()[-1] if err.strip() else err}'
            return None, f'replay harness failed: {err[-300:]}'
        l = out.split()
        return (not _same(l[0], l[1])), f'gfortran: tree={l[0]} text={l[1]} at {model}'
    ref = fullparen(tree, 'c')
    isint = not any(isinstance(s, (sym.FloatLiteral,)) or (hasattr(s, 'name') and s.name in 'xyzs') for s in X.subtrees(tree))
    prog = ('#include <stdio.h>\n#include <math.h>\n'
            'static double xpow(double b, double e){return pow(b,e);}\n'
            'int main(){\n' + c_decl_and_assign(model) + '\n'
            f'  printf("%.12g\\n", (double)({ref}));\n  printf("%.12g\\n", (double)({text}));\n  return 0;}}\n')
    if isint:
        # Fortran integer semantics of the tree: integer power, truncating division
        prog = prog.replace('static double xpow(double b, double e){return pow(b,e);}',
                            'static long xpow(long b, long e){long r=1; while(e-->0) r*=b; return r;}')
    ok, out, err = RP.run_c(prog)
    if not ok:
        return None, f'C replay failed: {err[-300:]}'
    l = out.split()
    return (not _same(l[0], l[1])), f'gcc: tree={l[0]} text={l[1]} at {model}'


def _same(a, b):
    if a in ('T', 'F') or b in ('T', 'F'):
        return a == b
    try:
        x, y = float(a), float(b)
    except ValueError:
        return a == b
    return abs(x - y) <= 1e-9 * max(1.0, abs(x), abs(y))


def run(tier, seed):
    global FAMILY  # pylint: disable=global-statement
    ctx = Ctx(PROP, tier, seed, 'model_checking')
    ctx.rule = ('every tree of the deterministic typed family (sums/products/quotients/powers/unary minus/'
                'Parenthesised* nodes/comparisons/logicals, depth<=3 full at depth 2 + single-spine beyond; trees built by '
                'the real SubstituteExpressions and simplify) x backend {fgen,cgen}; one z3 query per pair asks for a '
                'valuation where tree and re-parsed text differ; non-trivial = tree with >=1 operator; distinct by structure')
    ctx.functions = ['loki.backend.fgen.FCodeMapper (via fgen)', 'loki.backend.cgen.CCodeMapper (via cgen)',
                     'loki.expression.mappers.LokiStringifyMapper', 'loki.ir.expr_visitors.SubstituteExpressions',
                     'loki.expression.symbolic.simplify']
    ctx.bounds = {'int_vars': f'|v|<={BOUND}', 'real_vars': f'|v|<={BOUND} (exact rationals)', 'int_exponent': '-3..3',
                  'tree_depth': 3 if tier == 'quick' else 4, 'outside': 'overflow, FP rounding (UF pass counted separately), '
                  'character/array-valued expressions'}
    ctx.assumptions = ['reference parsers vlib/refparse.py implement F2008 R7xx / C11 6.5 precedence',
                       'divisors non-zero, integer exponents in -3..3 (negative: base non-zero)', 'z3 5.1 is sound',
                       'C: pow() returns double (C typing modelled)']
    FAMILY = build_family(tier)
    idx = list(range(len(FAMILY)))
    results = pmap(work, idx, chunksize=16)
    sigcache = {}
    per_sig_replayed = {}
    uf_ok = uf_diff = 0
    modes = {}
    for i, res in results:
        kind, tree = FAMILY[i]
        for backend, v, info, uf in res:
            ctx.solver_s += info.get('solver_s', 0)
            if v in ('notenc', 'illtyped', 'emit-error'):
                ctx.not_encoded.append(f'{backend}:{X.show(tree)}: {v} {info.get("why", info.get("error", ""))}')
                continue
            ctx.verdict(v)
            ctx.obligation(f'{backend}:{X.show(tree)}')
            mode = 'structural(t!=t)' if info.get('structural') else info.get('mode', '?')
            modes[mode] = modes.get(mode, 0) + 1
            if uf == 'unsat':
                uf_ok += 1
            elif uf is not None:
                uf_diff += 1
            if v == 'unsat':
                if i % 97 == 0:
                    ctx.sample({'tree': X.show(tree), 'backend': backend, 'text': info['text'], 'verdict': v})
                continue
            if v == 'unknown':
                ctx.inconcl(f'{backend}:{X.show(tree)} -> {info["text"]}')
                continue
            sig = signature(tree, backend, sigcache)
            n = per_sig_replayed.get(sig, 0)
            if n >= 2 and (sig in ctx.known_sigs or n >= 3):
                ctx.extra['candidates_not_replayed_same_signature'] = ctx.extra.get('candidates_not_replayed_same_signature', 0) + 1
                continue
            per_sig_replayed[sig] = n + 1
            ok, msg = replay_candidate(tree, backend, info)
            if ok is None:
                ctx.unrepro(f'{backend}:{X.show(tree)} -> {info["text"]}: {msg}')
            elif ok:
                ctx.candidate(sig, f'{X.show(tree)} printed as {info["text"]!r}; {msg}',
                              {'tree': X.show(tree), 'backend': backend, 'family_kind': kind, 'text': info['text'],
                               'model': info.get('model'), 'how': 'checks/C06.py: rebuild family, locate tree by show(), replay_candidate'})
            else:
                ctx.unrepro(f'{backend}:{X.show(tree)} -> {info["text"]}: {msg}')
    ctx.extra['uf_pass'] = {'real_trees_equal_under_uninterpreted_arithmetic': uf_ok,
                            'equal_over_reals_only(fp-reassociation, not a violation)': uf_diff}
    ctx.extra['family_size'] = len(FAMILY)
    ctx.extra['queries_by_encoding'] = modes
    return ctx.finish()


def replay(path):
    import json
    d = json.load(open(path))['replay']
    fam = build_family('thorough')
    for kind, t in fam:
        if X.show(t) == d['tree']:
            v, info = decide(t, d['backend'], 'real', want_gap=True)
            print('solver verdict', v, info)
            if v in ('sat', 'unparsable'):
                print(replay_candidate(t, d['backend'], info))
                return 1
            return 0
    print('tree not in family')
    return 3
