"""C23 (partial: item identity / name handling kernel only) -- Item eq/hash/container membership, name parts and
DuplicateKernel naming under letter-case permutations, CrossHair."""
from vlib.xhcheck import run_xh, replay_xh
import harness.C2x_batch as H

PROP = 'C23'


def signature(func, call):
    return f'item-case:{func}'


def run(tier, seed):
    text, funcs = H.generate(tier, PROP)
    return run_xh(
        PROP, tier, seed, 'C2x_batch', text, funcs, signature,
        rule=('CrossHair conditions over symbolic indices into a pool of 13 item names incl. case variants and 3 item '
              'classes: equality is symmetric and case-insensitive, equal items hash equal, dict/set/list membership '
              'agree with equality, comparison with strings, scope_name/local_name under case permutation, and '
              'DuplicateKernel._get_new_item_name under case permutation of item and suffixes; ItemFactory look-up of definitions '
              'behind unqualified USE (get_or_create_module_definitions_from_candidates) under case permutation of the local '
              'name and of the candidate module names, on a module read by the REGEX frontend'),
        functions=['loki.batch.item.Item.__eq__/__hash__/scope_name/local_name', 'loki.transformations.dependency.DuplicateKernel._get_new_item_name',
                   'loki.batch.item_factory.ItemFactory.get_or_create_module_definitions_from_candidates'],
        bounds={'item_names': 13, 'classes': 'Item, ProcedureItem, ModuleItem', 'suffixes': 4,
                'outside': 'dependency graph, processing order and generated code under case permutation (no value domain: not claimed)'},
        assumptions=['items are built without source (names only)'],
        timeout_quick=120, timeout_thorough=600)


def replay(path):
    text, _ = H.generate('thorough', PROP)
    return replay_xh(path, 'C2x_batch', text)
