r"""C09 -- symbolic comparisons only answer what holds for all values.

For every pair (e1, e2) of a deterministic family of integer expression trees and each of the six comparison
operators the real symbolic_op is called.  If it returns a Boolean r, z3 is asked for a valuation with
(e1 op e2) != r  (sat = a wrong definite answer, replayed by evaluating both sides concretely).  If it raises
TypeError nothing is claimed for that pair.
"""
import itertools
import json
import operator as _op
import z3

from loki.expression import symbols as sym
from loki.expression.symbolic import symbolic_op, is_minus_prefix, strip_minus_prefix

from vlib.common import Ctx, pmap
from vlib.corpus import exprs as X
from vlib.fsmt.sem import Sem
from vlib.fsmt.expr import ExprEnc, NotEncoded
from vlib.fsmt.solve import check, model_value2

PROP = 'C09'
BOUND = 8
OPS = {'eq': (_op.eq, '=='), 'ne': (_op.ne, '!='), 'lt': (_op.lt, '<'), 'le': (_op.le, '<='),
       'gt': (_op.gt, '>'), 'ge': (_op.ge, '>=')}


def family(tier):
    n, m = X.V('n', X.INT_T), X.V('m', X.INT_T)
    L = sym.IntLiteral
    base = {
        'n': n, 'm': m, '0': L(0), '1': L(1), '2': L(2), '-1': X.neg(L(1)),
        'n+1': sym.Sum((n, L(1))), 'n-1': sym.Sum((n, X.neg(L(1)))), 'n+2': sym.Sum((n, L(2))), '1+n': sym.Sum((L(1), n)),
        '2*n': sym.Product((L(2), n)), 'n*2': sym.Product((n, L(2))), '2*n+1': sym.Sum((sym.Product((L(2), n)), L(1))),
        'n+m': sym.Sum((n, m)), 'm+n': sym.Sum((m, n)), 'n-m': sym.Sum((n, X.neg(m))), '-n': X.neg(n), '-(n+1)': X.neg(sym.Sum((n, L(1)))),
        'n+n': sym.Sum((n, n)), 'n*m': sym.Product((n, m)), 'n*n': sym.Product((n, n)), 'n**2': sym.Power(n, L(2)),
        'n/2': sym.Quotient(n, L(2)), '(n+1)/2': sym.Quotient(sym.Sum((n, L(1))), L(2)), '(2*n)/2': sym.Quotient(sym.Product((L(2), n)), L(2)),
        'n/m': sym.Quotient(n, m), '(n+m)-m': sym.Sum((sym.Sum((n, m)), X.neg(m))), 'n-(n-1)': sym.Sum((n, X.neg(sym.Sum((n, X.neg(L(1))))))),
        '3*n-n': sym.Sum((sym.Product((L(3), n)), X.neg(n))), '(n+1)*(n-1)': sym.Product((sym.Sum((n, L(1))), sym.Sum((n, X.neg(L(1)))))),
        'n*n-1': sym.Sum((sym.Product((n, n)), X.neg(L(1)))),
    }
    # flat n-ary products / sums with several minus signs (sign bookkeeping of the simplifier)
    k3 = X.V('k', X.INT_T)
    base.update({
        '(-n)*(-m)*(-k)': sym.Product((X.neg(n), X.neg(m), X.neg(k3))), 'n*m*k': sym.Product((n, m, k3)),
        '(-1)*n*(-1)*2*(-1)': sym.Product((-1, n, -1, L(2), -1)), '(-1)*(-2)*(-3)': sym.Product((X.neg(L(1)), X.neg(L(2)), X.neg(L(3)))),
        'n+(-2)*(-1)*(-1)': sym.Sum((n, sym.Product((X.neg(L(2)), X.neg(L(1)), X.neg(L(1)))))), '-6': X.neg(L(6)),
        '(-n)*(-m)': sym.Product((X.neg(n), X.neg(m))), '(-n)*(-2)*(-3)*(-1)': sym.Product((X.neg(n), X.neg(L(2)), X.neg(L(3)), X.neg(L(1)))),
        '6*n': sym.Product((L(6), n)), '-(n*m*k)': X.neg(sym.Product((n, m, k3))),
    })
    # quotients nested in the numerator / denominator of quotients and inside sums (denominator bookkeeping of the simplifier)
    base.update({
        '(n/2)/2': sym.Quotient(sym.Quotient(n, L(2)), L(2)), 'n/4': sym.Quotient(n, L(4)),
        '(n/m)/2': sym.Quotient(sym.Quotient(n, m), L(2)), '(n/2+m)/2': sym.Quotient(sym.Sum((sym.Quotient(n, L(2)), m)), L(2)),
        'n/(2*m)': sym.Quotient(n, sym.Product((L(2), m))), 'n/(m/2)': sym.Quotient(n, sym.Quotient(m, L(2))),
        '(n/m)/k': sym.Quotient(sym.Quotient(n, m), k3),
    })
    if tier == 'thorough':
        k = X.V('k', X.INT_T)
        base.update({
            'k': k, 'n+k': sym.Sum((n, k)), 'n*k+1': sym.Sum((sym.Product((n, k)), L(1))), 'max(n,m)': sym.InlineCall(sym.ProcedureSymbol('max', scope=None), parameters=(n, m)),
            '(n-m)/2': sym.Quotient(sym.Sum((n, X.neg(m))), L(2)), '2*(n/2)': sym.Product((L(2), sym.Quotient(n, L(2)))),
            '-2*n': sym.Product((-1, sym.Product((L(2), n)))), 'n-2*m': sym.Sum((n, X.neg(sym.Product((L(2), m))))),
        })
    return base


FAM = {}
NAMES = []


def work(pair):
    a, b = pair
    e1, e2 = FAM[a], FAM[b]
    out = []
    for oname, (fn, osym) in OPS.items():
        rec = {'e1': a, 'e2': b, 'op': oname}
        try:
            r = symbolic_op(e1, fn, e2)
        except TypeError:
            rec['verdict'] = 'raises-TypeError'
            out.append(rec)
            continue
        except Exception as ex:  # pylint: disable=broad-except
            rec['verdict'] = 'raises-other'
            rec['why'] = f'{type(ex).__name__}: {str(ex)[:80]}'
            out.append(rec)
            continue
        if not isinstance(r, bool):
            rec['verdict'] = 'non-bool'
            rec['why'] = repr(r)[:80]
            out.append(rec)
            continue
        rec['answer'] = r
        sem = Sem()
        env = {v: sem.int_var(v, BOUND) for v in ('n', 'm', 'k')}
        try:
            t1, t2 = ExprEnc(sem, env).enc(e1), ExprEnc(sem, env).enc(e2)
        except (NotEncoded, TypeError) as ex:
            rec['verdict'] = 'notenc'
            rec['why'] = str(ex)
            out.append(rec)
            continue
        truth = sem.cmp(osym, t1, t2)
        v, mdl, dt = check(sem.ranges + sem.defined + [truth != z3.BoolVal(r)], 10000)
        rec['solver_s'] = dt
        rec['verdict'] = v
        if v == 'sat':
            rec['model'] = {k: model_value2(mdl, x) for k, x in env.items()}
            rec['v1'], rec['v2'] = model_value2(mdl, t1), model_value2(mdl, t2)
        out.append(rec)
    return out


def replay_rec(rec):
    """evaluate both operands concretely at the model (python ints, truncating division) and compare with the answer"""
    m = rec['model']
    sem = Sem()
    env = {k: sem.int_lit(v) for k, v in m.items()}
    v1 = z3.simplify(ExprEnc(sem, env).enc(FAM[rec['e1']])).as_long()
    v2 = z3.simplify(ExprEnc(sem, env).enc(FAM[rec['e2']])).as_long()
    truth = OPS[rec['op']][0](v1, v2)
    again = symbolic_op(FAM[rec['e1']], OPS[rec['op']][0], FAM[rec['e2']])
    return again != truth, (f"symbolic_op({rec['e1']}, {rec['op']}, {rec['e2']}) returns {again} but at "
                            f"{ {k: v for k, v in m.items() if k in rec['e1'] + rec['e2']} } the operands are {v1} and {v2}")


def rational_verdict(rec):
    """'unsat' if no rational valuation (|v| <= BOUND, denominators non-zero) contradicts the answer"""
    sem = Sem('real', int_mode='asreal')
    env = {v: sem.int_var(v, BOUND) for v in ('n', 'm', 'k')}
    try:
        t1, t2 = ExprEnc(sem, env).enc(FAM[rec['e1']]), ExprEnc(sem, env).enc(FAM[rec['e2']])
    except (NotEncoded, TypeError):
        return 'notenc'
    truth = sem.cmp(OPS[rec['op']][1], t1, t2)
    return check(sem.ranges + sem.defined + [truth != z3.BoolVal(rec['answer'])], 10000)[0]


def classify(rec):
    """signature: operator class x whether the (simplified) difference is a constant.  eq/ne on a non-constant
    difference is the documented-by-use 'structural inequality' guess."""
    from loki.expression.symbolic import simplify, is_constant  # pylint: disable=import-outside-toplevel
    d = simplify(FAM[rec['e1']] - FAM[rec['e2']])
    const = is_constant(d)
    hasdiv = '/' in rec['e1'] or '/' in rec['e2']
    if rec['op'] in ('eq', 'ne') and not const:
        return 'symbolic_op:eq-ne-guess-on-undecidable-difference'
    if hasdiv:
        # root-cause discriminator (second solver query): the 'simplified as rational' finding covers only answers that are
        # right when INTEGER division is read as exact rational division; an answer that is wrong there too is something else
        rat = rational_verdict(rec)
        tail = 'integer-division-simplified-as-rational' if rat == 'unsat' else f'division:wrong-over-rationals-too({rat})'
        return f"symbolic_op:{'eq-ne' if rec['op'] in ('eq', 'ne') else 'order'}:{tail}"
    return f"symbolic_op:{'eq-ne' if rec['op'] in ('eq', 'ne') else 'order'}:{'constant' if const else 'nonconstant'}-difference"


def run(tier, seed):
    global FAM, NAMES  # pylint: disable=global-statement
    ctx = Ctx(PROP, tier, seed, 'model_checking')
    FAM = family(tier)
    NAMES = list(FAM)
    ctx.rule = (f'all ordered pairs of {len(NAMES)} integer expression trees over n,m (offsets, scalings, products, powers, '
                'quotients incl. nested ones, minus prefixes) x 6 operators; the real symbolic_op is called; each Boolean answer yields one z3 '
                'query for a contradicting valuation; non-trivial = symbolic_op returned a Boolean')
    ctx.functions = ['loki.expression.symbolic.symbolic_op', 'is_minus_prefix', 'strip_minus_prefix', 'simplify (as called by symbolic_op)']
    ctx.bounds = {'vars': f'|n|,|m|,|k| <= {BOUND}', 'outside': 'non-integer operands, overflow'}
    ctx.assumptions = ['a TypeError is the documented way to decline; nothing is claimed for such pairs']
    pairs = list(itertools.product(NAMES, NAMES))
    per_sig = {}
    declined = 0
    for recs in pmap(work, pairs, chunksize=8):
        for rec in recs:
            v = rec['verdict']
            if v == 'raises-TypeError':
                declined += 1
                continue
            if v in ('notenc', 'non-bool', 'raises-other'):
                ctx.not_encoded.append(f"{rec['e1']} {rec['op']} {rec['e2']}: {v} {rec.get('why')}")
                continue
            ctx.verdict(v)
            ctx.solver_s += rec.get('solver_s', 0)
            ctx.obligation(f"{rec['e1']}|{rec['op']}|{rec['e2']}")
            if v == 'unsat':
                if len(ctx.samples) < 10 and rec['e1'] != rec['e2'] and rec['op'] in ('lt', 'ge'):
                    ctx.sample({'call': f"symbolic_op({rec['e1']}, {rec['op']}, {rec['e2']})", 'answer': rec['answer'],
                                'verdict': 'unsat: no valuation contradicts the answer'})
                continue
            if v == 'unknown':
                ctx.inconcl(f"{rec['e1']} {rec['op']} {rec['e2']}")
                continue
            sig = classify(rec)
            k = per_sig.get(sig, 0)
            per_sig[sig] = k + 1
            if k >= 3:
                continue
            ok, msg = replay_rec(rec)
            if ok:
                ctx.candidate(sig, msg, rec)
            else:
                ctx.unrepro(msg)
    ctx.extra['pairs_declined_with_TypeError'] = declined
    ctx.extra['signatures_seen'] = per_sig
    return ctx.finish()


def replay(path):
    global FAM  # pylint: disable=global-statement
    rec = json.load(open(path))['replay']
    FAM = family('thorough')
    ok, msg = replay_rec(rec)
    print(msg)
    return 1 if ok else 0
