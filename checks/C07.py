r"""C07 -- the standalone expression parser follows Fortran semantics.

Outer quantifier: deterministic family of well-formed Fortran expression strings (operator chains, parentheses, unary
minus, both comparison spellings, logical operators, literals with kinds, subscripts, components, intrinsics).
Inner quantifier (z3): all valuations.  Oracles: the FP frontend's tree for the same text (the property's oracle) and the
independent reference parser (vlib/refparse.py); both must agree with each other, else the string is inconclusive.
Obligation: exists valuation. defined /\ [[parse_expr(s)]] != [[frontend(s)]]  must be unsat.
"""
import itertools
import json
import z3

from loki import parse_expr, Subroutine, FindNodes
from loki.ir import Assignment
from loki.expression import symbols as sym

from vlib.common import Ctx, pmap
from vlib.corpus import exprs as X
from vlib.fsmt.sem import Sem
from vlib.fsmt.expr import ExprEnc, NotEncoded, fullparen
from vlib.fsmt.solve import prove_equal
from vlib.refparse import parse_fortran, ast_to_z3, RefParseError
from vlib import replay as RP

PROP = 'C07'
BOUND = 6

DECLS = """
  type tt
    integer :: c, d
    integer :: v(-20:20)
    real :: w
  end type tt
  integer :: a, b, c, d, e, f, arr(-20:20), ri
  real :: x, y, z, rr
  logical :: p, q, rl
  type(tt) :: t1
"""
INTS, REALS, LOGS = ['a', 'b', 'c', 'd', 'e', 'f', 't1%c', 't1%d'], ['x', 'y', 'z', 't1%w'], ['p', 'q']


def chains(operands, ops, n, lead_minus=True, parens=True):
    """all operator chains with exactly n binary operators; variants with a leading minus and with one parenthesised
    contiguous sub-chain (which may itself start with a minus)"""
    out = []
    opnds = operands[:n + 1]
    for seq in itertools.product(ops, repeat=n):
        toks = [opnds[0]]
        for o, v in zip(seq, opnds[1:]):
            toks += [o, v]
        base = ' '.join(toks).replace(' ** ', '**')
        out.append(base)
        if lead_minus:
            out.append('-' + base)
        if parens:
            for i in range(0, n + 1):
                for j in range(i + 1, n + 1):
                    if i == 0 and j == n:
                        continue
                    t2 = list(toks)
                    t2[2 * i] = '(' + t2[2 * i]
                    t2[2 * j] = t2[2 * j] + ')'
                    out.append(' '.join(t2).replace(' ** ', '**'))
                    t3 = list(toks)
                    t3[2 * i] = '(-' + t3[2 * i]
                    t3[2 * j] = t3[2 * j] + ')'
                    out.append(' '.join(t3).replace(' ** ', '**'))
    return out


def build_family(tier):
    fam = []   # (result-kind, string)
    iops = ['+', '-', '*', '/', '**']
    for n in (1, 2, 3):
        fam += [('i', s) for s in chains(['a', 'b', 'c', 'd'], iops, n)]
    # long multiplicative chains (association must hold at any length)
    for n in (4, 5, 6):
        fam += [('i', s) for s in chains(['a', 'b', 'c', 'd', 'e', 'f', 'a'], ['*', '/'], n, lead_minus=(n == 4), parens=False)]
    fam += [('i', 'a*(b/c)*d*e'), ('i', 'a*b/(c*d)*e/f'), ('i', 'a*b/c*d*e*f/a*b'), ('i', 'a - b*c/d*e/f + a')]
    # components and subscripts next to every operator
    for op in ['+', '-', '*', '/', '**']:
        o = op if op == '**' else f' {op} '
        fam += [('i', f't1%c{o}b'), ('i', f'a{o}t1%c'), ('i', f't1%c{o}t1%d'), ('i', f'arr(a){o}b'), ('i', f'a{o}arr(b)'),
                ('i', f't1%v(a){o}b'), ('i', f't1%c{o}max(a, b)'), ('i', f't1%c{o}arr(b){o}a')]
    if tier == 'thorough':
        fam += [('i', s) for s in chains(['a', 'b', 'c', 'd', 'a'], ['+', '-', '*', '/', '**'], 4, parens=False)]
        fam += [('i', s) for s in chains(['a', '2', 'c', '3'], iops, 3)]
    rops = ['+', '-', '*', '/']
    for n in (1, 2, 3):
        fam += [('r', s) for s in chains(['x', 'y', 'z', 'x'], rops, n, parens=(n < 3))]
    fam += [('r', s) for s in chains(['x', 'a', '2', 'y'], rops + ['**'], 2)]
    # literals with and without kinds, subscripts, components, intrinsics
    lits_i = ['2', '3_jpim', '10']
    lits_r = ['1.5', '2.0_jprb', '1.0e-3', '3.d0', '2.', '1.5_jprb']
    for l in lits_i:
        fam += [('i', f'{l}*a - b'), ('i', f'a/{l}*c'), ('i', f'-{l}**2'), ('i', f'a - {l} + b')]
    for l in lits_r:
        fam += [('r', f'{l}*x - y'), ('r', f'x/{l}*y'), ('r', f'x - {l}'), ('r', f'-{l}*x')]
    fam += [('i', s) for s in ['arr(a + 1)*2', 'arr(a)*arr(b) - c', '-arr(a)**2', 't1%c + 1', 't1%c*a/b', '-t1%c**2',
                               'max(a, b)*2', 'mod(a, b) + c', 'min(a, b - c, d)', 'abs(-a)*b', '-max(a, b)**2',
                               'a*max(b, c)/d', 'arr(max(a, b)) - 1', 'arr(a*b/c)', 'a*b/c/d', 'a/b/c/d', 'a/b*c/d',
                               '+a', '+a - b']]
    fam += [('r', s) for s in ['t1%w*x', 'max(x, y)/z', 'abs(x - y)*2.0', 'real(a)*x', 'x*a/b', 'a/b*x']]
    # comparisons: both spellings, arithmetic on both sides
    cmps = [('<', '.lt.'), ('<=', '.le.'), ('>', '.gt.'), ('>=', '.ge.'), ('==', '.eq.'), ('/=', '.ne.')]
    sides = [('a + b', 'c*2'), ('-a', 'b - c'), ('a*b/c', 'd'), ('a**2', '-b'), ('x*y', 'z - 1.0'), ('a', 'b')]
    for (s1, s2), (l, r) in itertools.product(cmps, sides):
        fam += [('l', f'{l} {s1} {r}'), ('l', f'{l} {s2} {r}')]
    # logical operators
    atoms = ['p', 'q', 'a < b', 'c .ge. d', '.true.', '.not. p', '(p .or. q)', 'x > y']
    for n in (1, 2):
        for seq in itertools.product(['.and.', '.or.'], repeat=n):
            for at in itertools.permutations(atoms[:5], n + 1):
                toks = [at[0]]
                for o, v in zip(seq, at[1:]):
                    toks += [o, v]
                fam.append(('l', ' '.join(toks)))
                fam.append(('l', '.not. ' + ' '.join(toks)))
    for s in ['.not. p .and. q', '.not. (p .and. q)', 'p .and. .not. q .or. a < b', '.not. a < b', 'p .or. q .and. .not. p',
              'a + b == c .and. p', 'a < b .or. c < d .and. p', '.not. .true. .or. q', '.not. (a == b) .and. (c /= d)',
              'p .eqv. q', 'p .neqv. q', 'p .and. q .eqv. q .or. p', 'a < b .eqv. p', '.not. p .eqv. q', 'p .eqv. .not. q']:
        fam.append(('l', s))
    out, seen = [], set()
    for k, s in fam:
        if s not in seen:
            seen.add(s)
            out.append((k, s))
    return out


def make_scope():
    return Subroutine.from_source(f'subroutine scp\n{DECLS}\nend subroutine scp\n')


def frontend_trees(strings):
    """FP frontend trees for the same texts (batched into one routine)"""
    lines = []
    for k, s in strings:
        lhs = {'i': 'ri', 'r': 'rr', 'l': 'rl'}[k]
        lines.append(f'  {lhs} = {s}')
    src = f'subroutine ft\n{DECLS}\n' + '\n'.join(lines) + '\nend subroutine ft\n'
    r = Subroutine.from_source(src)
    asg = FindNodes(Assignment).visit(r.body)
    assert len(asg) == len(strings)
    return [a.rhs for a in asg]


class Enc(ExprEnc):
    def lookup(self, e):
        name = e.name.lower()
        if name in ('arr', 't1%v'):
            dims = getattr(e, 'dimensions', None)
            if not dims:
                raise NotEncoded('whole array')
            return self.sem.int_app(name.replace('%', '_'), [self.enc(dims[0])], BOUND)
        return super().lookup(e)


def make_env(sem):
    env = {n: sem.int_var(n, BOUND) for n in INTS}
    env.update({n: sem.real_const(n, BOUND) for n in REALS})
    env.update({n: z3.Bool(n) for n in LOGS})
    sem.used_real = False
    return env


def ref_term(ast, sem, env):
    def call(name, args):
        if name.lower() in ('arr', 't1%v'):
            return sem.int_app(name.lower().replace('%', '_'), [args[0]], BOUND)
        return None
    return ast_to_z3(ast, sem, env, call)


BATCH = {}


class _Bad(Exception):
    pass


def work(batch_id):
    strings = BATCH[batch_id]
    scope = make_scope()
    try:
        ftrees = frontend_trees(strings)
    except Exception:  # pylint: disable=broad-except
        ftrees = None
    out = []
    for n, (kind, s) in enumerate(strings):
        rec = {'s': s, 'kind': kind, 'solver_s': 0.0}
        try:
            ast = parse_fortran(s)
        except RefParseError as ex:
            rec.update(verdict='harness-ref', why=repr(ex))
            out.append(rec)
            continue
        ftree = ftrees[n] if ftrees is not None else None
        # 1. the two oracles must agree
        if ftree is not None:
            def build_or(sem, _ft=ftree, _ast=ast):
                env = make_env(sem)
                return Enc(sem, env).enc(_ft), ref_term(_ast, sem, env), env
            try:
                ro = prove_equal(build_or, timeout_ms=5000)
                rec['solver_s'] += ro['seconds']
                if ro['verdict'] != 'unsat':
                    rec.update(verdict='oracle-disagree', frontend_tree=X.show(ftree))
                    out.append(rec)
                    continue
            except (NotEncoded, TypeError, RefParseError, NotImplementedError) as ex:
                rec['frontend_notenc'] = str(ex)
                ftree = None
        # 2. system under test
        try:
            tree = parse_expr(s, scope=scope)
        except Exception as ex:  # pylint: disable=broad-except
            rec.update(verdict='rejects', why=f'{type(ex).__name__}: {str(ex)[:120]}')
            out.append(rec)
            continue
        rec['tree'] = X.show(tree)

        def build(sem, _t=tree, _ft=ftree, _ast=ast):
            env = make_env(sem)
            try:
                tp = Enc(sem, env).enc(_t)
            except (NotEncoded, TypeError) as ex:
                raise _Bad(str(ex)) from ex
            to = Enc(sem, env).enc(_ft) if _ft is not None else ref_term(_ast, sem, env)
            return tp, to, env
        try:
            r = prove_equal(build, timeout_ms=5000)
        except _Bad as ex:
            # parse_expr's tree is not interpretable as a numeric/logical expression at all
            rec.update(verdict='sat', why=f'tree not interpretable as the expression: {ex}', model={})
            out.append(rec)
            continue
        except (RefParseError, TypeError, NotImplementedError) as ex:
            rec.update(verdict='harness-ref', why=repr(ex))
            out.append(rec)
            continue
        rec['solver_s'] += r['seconds']
        rec['mode'] = 'structural(t!=t)' if r['structural'] else r['mode']
        rec['verdict'] = r['verdict']
        rec['model'] = r['model'] or {}
        out.append(rec)
    return out


def classify(rec):
    """signature: which operator adjacency is mis-grouped (predicate on the counterexample string/tree)"""
    s = rec['s']
    toks = s.replace('(', ' ( ').replace(')', ' ) ').replace('**', ' ^ ').split()
    if rec['verdict'] == 'rejects':
        if '_' in s and any(ch.isdigit() for ch in s):
            return 'parse_expr:rejects:real-literal-with-kind-not-at-end'
        if s.lstrip().startswith('+'):
            return 'parse_expr:rejects:unary-plus'
        return 'parse_expr:rejects:other'
    if '.eqv.' in s.lower() or '.neqv.' in s.lower():
        return 'parse_expr:eqv-neqv-lexed-as-component-lookup'
    tree = rec.get('tree', '')
    if 'Power(Product(-1,' in tree and '-' in s and '^' in toks:
        return 'parse_expr:unary-minus-binds-tighter-than-power'
    if '/' in toks and '*' in toks:
        return 'parse_expr:mul-div-chain-not-left-associative'
    if toks.count('/') >= 2:
        return 'parse_expr:div-chain-not-left-associative'
    if '-' in toks and ('*' in toks or '/' in toks):
        return 'parse_expr:unary-minus-in-product'
    return 'parse_expr:other'


def replay_candidate(rec):
    """gfortran evaluates the original text and the fully parenthesised rendering of parse_expr's tree"""
    scope = make_scope()
    try:
        tree = parse_expr(rec['s'], scope=scope)
        ref = fullparen_ext(tree)
    except Exception as ex:  # pylint: disable=broad-except
        # structural confirmation: the frontend accepts the text and builds an interpretable tree, parse_expr does not
        try:
            ft = frontend_trees([(rec['kind'], rec['s'])])[0]
            return True, f'frontend parses {rec["s"]!r} as {X.show(ft)}; parse_expr: {rec.get("why") or rec.get("tree")}'
        except Exception as ex2:  # pylint: disable=broad-except
            return None, f'frontend also fails: {ex2!r}'
    model = rec.get('model') or {}
    decl = DECLS + '\n  integer :: k\n'
    setv = []
    for n in INTS:
        setv.append(f'  {n} = {model.get(n, 1)}')
    for n in REALS:
        v = model.get(n, (1, 1))
        v = v if isinstance(v, tuple) else (v, 1)
        setv.append(f'  {n} = real({v[0]})/real({v[1]})')
    for n in LOGS:
        setv.append(f"  {n} = {'.true.' if model.get(n) else '.false.'}")
    setv.append('  do k=-20,20\n    arr(k) = k*k - 3*k + 1\n    t1%v(k) = 7 - k\n  end do')
    head = f'program rp\n  implicit none\n{decl}\n' + '\n'.join(setv)
    ok0, out0, err0 = RP.run_fortran([('rp.f90', head + f"\n  print *, {rec['s']}\nend program rp\n")])
    if not ok0:
        return None, f'gfortran rejects the family string itself: {err0[-200:]}'
    ok, out, err = RP.run_fortran([('rp.f90', head + f"\n  print *, {rec['s']}\n  print *, {ref}\nend program rp\n")])
    if not ok:
        msg = [l for l in err.splitlines() if l.startswith('Error')]
        return True, (f'gfortran accepts {rec["s"]!r} but rejects the rendering {ref!r} of parse_expr\'s tree: '
                      f'{msg[0] if msg else err[-120:]}')
    l = out.split()
    same = l[0] == l[1]
    if not same:
        try:
            same = abs(float(l[0]) - float(l[1])) <= 1e-6 * max(1, abs(float(l[0])))
        except ValueError:
            pass
    return (not same), f'gfortran: text={l[0]} parse_expr-tree={l[1]} at {dict((k, v) for k, v in model.items() if not k.startswith("__"))}'


def fullparen_ext(tree):
    """fullparen with array subscripts / components"""
    import pymbolic.primitives as pmbl  # pylint: disable=import-outside-toplevel

    class _P:
        pass
    from vlib.fsmt import expr as E  # pylint: disable=import-outside-toplevel
    orig = E.fullparen

    def fp(e, lang='fortran'):
        if isinstance(e, sym.Array) and e.dimensions:
            return f"{e.name}({', '.join(fp(d) for d in e.dimensions)})"
        return orig(e, lang)
    E.fullparen = fp
    try:
        return fp(tree)
    finally:
        E.fullparen = orig


def run(tier, seed):
    ctx = Ctx(PROP, tier, seed, 'model_checking')
    ctx.rule = ('every string of a deterministic family of well-formed Fortran expressions (all chains of <=3 (thorough: 4) '
                'binary operators over + - * / ** with leading minus and one parenthesised sub-chain, literals with kinds, '
                'subscripts, components, intrinsics, comparisons in both spellings, logical operators); one z3 query per '
                'string: parse_expr tree vs FP-frontend tree; distinct by string; non-trivial = at least one operator')
    ctx.functions = ['loki.expression.parser.ExpressionParser.__call__/parse_prefix/parse_postfix/parse_terminal',
                     'loki.expression.parser.PymbolicMapper', 'loki.frontend.fparser (oracle)']
    ctx.bounds = {'int_vars': f'|v|<={BOUND}', 'real_vars': f'|v|<={BOUND}', 'int_exponent': '-3..3', 'binary_operators': 3 if tier == 'quick' else 4,
                  'outside': 'strings, array constructors, overflow, FP rounding'}
    ctx.assumptions = ['FP frontend tree and the independent reference parser agree on every string (checked per string; '
                       'disagreement -> inconclusive)', 'arr(k) is an uninterpreted Int->Int function']
    fam = build_family(tier)
    n = 16
    for i in range(0, len(fam), n):
        BATCH[i // n] = fam[i:i + n]
    results = pmap(work, list(BATCH))
    per_sig = {}
    modes = {}
    for recs in results:
        for rec in recs:
            v = rec['verdict']
            ctx.solver_s += rec.get('solver_s', 0)
            if v == 'harness-ref':
                ctx.inconcl(f"reference parser cannot handle {rec['s']!r}: {rec['why']}")
                continue
            if v == 'oracle-disagree':
                ctx.inconcl(f"frontend and reference parser disagree on {rec['s']!r}: {rec.get('frontend_tree')}")
                continue
            ctx.verdict(v)
            ctx.obligation(rec['s'])
            modes[rec.get('mode', 'n/a')] = modes.get(rec.get('mode', 'n/a'), 0) + 1
            if v == 'unsat':
                if len(ctx.samples) < 10 and len(rec['s']) > 8:
                    ctx.sample({'string': rec['s'], 'parse_expr_tree': rec['tree'], 'verdict': 'unsat'})
                continue
            if v == 'unknown':
                ctx.inconcl(f"solver unknown on {rec['s']!r}")
                continue
            sig = classify(rec)
            k = per_sig.get(sig, 0)
            if k >= 3:
                ctx.extra['candidates_not_replayed_same_signature'] = ctx.extra.get('candidates_not_replayed_same_signature', 0) + 1
                continue
            per_sig[sig] = k + 1
            ok, msg = replay_candidate(rec)
            if ok:
                ctx.candidate(sig, f"{rec['s']!r} -> {rec.get('tree', rec.get('why'))}; {msg}", rec)
            else:
                ctx.unrepro(f"{rec['s']!r}: {msg}")
    ctx.extra['family_size'] = len(fam)
    ctx.extra['queries_by_encoding'] = modes
    return ctx.finish()


def replay(path):
    rec = json.load(open(path))['replay']
    BATCH[0] = [(rec['kind'], rec['s'])]
    new = work(0)[0]
    print('solver:', new['verdict'], new.get('tree'), new.get('why'))
    if new['verdict'] in ('sat', 'rejects'):
        print(replay_candidate(new))
        return 1
    return 0
