"""C36 -- Fortran-to-Python transpilation preserves behaviour: Fortran-semantics interpretation of the original vs
Python/numpy-semantics interpretation of the generated function (templates: vlib/corpus/c36.py)."""
from vlib.tv import run_tv, replay_tv
from vlib.corpus.c36 import cases

PROP = 'C36'
META = __import__('checks._tvmeta', fromlist=['META']).META[PROP]


def run(tier, seed):
    return run_tv(PROP, tier, seed, cases(), **META)


def replay(path):
    return replay_tv(path, cases())
