"""C39 -- parametrisation preserves behaviour for matching inputs; the generated guard triggers for every other input.
(a) translation validation with the parametrised dummies fixed to their values (scheduler-driven transformation on a
scratch project); (b) for the transformed program alone z3 must find no input with a non-matching value that is not
aborted."""
import z3

from vlib.tv import run_tv, replay_tv
from vlib.corpus.c39 import cases
from checks._tvmeta import COMMON_ASSUME, COMMON_BOUNDS

PROP = 'C39'


def guards(ctx):
    from vlib.fsmt.equiv import Prog  # pylint: disable=import-outside-toplevel
    from vlib.fsmt.sem import Sem  # pylint: disable=import-outside-toplevel
    from vlib.fsmt.interp import Interp  # pylint: disable=import-outside-toplevel
    from vlib.fsmt.expr import NotEncoded  # pylint: disable=import-outside-toplevel
    from vlib.fsmt.solve import check, model_value2  # pylint: disable=import-outside-toplevel
    for c in cases():
        p = Prog.from_source(c.src, c.entry)
        try:
            q = c.apply(p)
        except AssertionError:
            continue        # already reported by the equivalence pass (raise_is_violation)
        fixed = {k: v for k, v in c.sizes[0].items() if k.startswith('parametrised_')}
        sizes = {k: v for k, v in c.sizes[0].items() if not k.startswith('parametrised_')}
        sem = Sem('real')
        it = Interp(sem, q.routines, q.modules, sizes)
        it.int_bound = 6
        try:
            it.run_entry(q.entry)
        except NotEncoded as ex:
            ctx.not_encoded.append(f'{c.name}/guard: {ex}')
            continue
        mism = [it.inputs[f'in_{k}'] != v for k, v in fixed.items() if f'in_{k}' in it.inputs]
        if not mism:
            ctx.not_encoded.append(f'{c.name}/guard: parametrised dummies are not inputs of the transformed driver')
            continue
        r, m, dt = check(list(sem.ranges) + [z3.Or(*mism), z3.Not(it.aborted)], 20000)
        ctx.solver_s += dt
        ctx.verdict(r)
        ctx.obligation(f'{c.name}/guard')
        if r == 'unsat':
            ctx.sample({'case': c.name, 'obligation': 'every input with a non-matching value aborts', 'verdict': 'unsat'})
        elif r == 'sat':
            model = {n: model_value2(m, v) for n, v in it.inputs.items()}
            ctx.candidate(f'parametrise:guard:{c.name}', f'{c.name}: input {model} has a non-matching value but the transformed driver does not abort',
                          {'case': c.name, 'model': model, 'guard': True})
        else:
            ctx.inconcl(f'{c.name}/guard')


def run(tier, seed):
    return run_tv(
        PROP, tier, seed, cases(),
        rule=('a driver + 3 kernels project is written to a scratch directory, the real Scheduler processes ParametriseTransformation '
              '(5 choices of parametrised arguments / values, replace_by_value on/off); (a) original vs transformed driver '
              'equivalence with the parametrised dummies fixed to their values, all other inputs symbolic; (b) one z3 query per '
              'variant: no input with a non-matching value escapes the generated guard (abort)'),
        functions=['loki.transformations.parametrise.ParametriseTransformation (via loki.batch.Scheduler.process)',
                   'declare_fixed_value_scalars_as_constants'],
        bounds=dict(COMMON_BOUNDS, outside='custom abort / replace callbacks, key= transformations on renamed entries'),
        assumptions=COMMON_ASSUME + ['STOP and abor1 are aborts'], post=guards)


def replay(path):
    return replay_tv(path, cases())
