"""C30 -- array-notation resolution and index normalisation preserve behaviour (translation validation)."""
from vlib.tv import run_tv, replay_tv
from vlib.corpus.c30 import cases

PROP = 'C30'


def run(tier, seed):
    return run_tv(
        PROP, tier, seed, cases(),
        rule=('each template (1-D/2-D section assignments: overlapping, strided, negative stride, lower bounds != 1, '
              'broadcast, elemental intrinsics, WHERE masks, inside loops/branches) x transformation variant '
              '(resolve_vector_notation with/without implicit ranges, add/remove_explicit_array_dimensions, '
              'normalize_range_indexing, normalize_array_shape_and_access) x size instance; the real transformation is '
              'applied to the parsed routine, both versions are interpreted symbolically and z3 decides whether any '
              'input gives different array contents; non-trivial = the transformation changed the generated code'),
        functions=['loki.transformations.array_indexing.resolve_vector_notation', 'add_explicit_array_dimensions',
                   'remove_explicit_array_dimensions', 'normalize_range_indexing', 'normalize_array_shape_and_access'],
        bounds={'extents': 'n in {3,4,5}, m in {2,3}', 'values': 'reals: any (uninterpreted arithmetic first, exact reals second); ints |v|<=6',
                'outside': 'shift_to_zero_indexing / invert_array_indices / flatten_arrays (change the declared index space; '
                           'covered only through C35), character data, pointers'},
        assumptions=['Fortran semantics of vlib/fsmt/interp.py (validated against gfortran in the self-validation of the thorough tier)',
                     'inputs on which the original traps (out-of-bounds, division by zero) are excluded'])


def replay(path):
    return replay_tv(path, cases())
