"""C13 -- symbols are classified by their declared type and share it by scope (CrossHair over the Variable factory)."""
from vlib.xhcheck import run_xh, replay_xh
import harness.C13_symbols as H

PROP = 'C13'


def signature(func, call):
    return f'Variable:{func}'


def run(tier, seed):
    text, funcs = H.generate(tier)
    return run_xh(
        PROP, tier, seed, 'C13_symbols', text, funcs, signature,
        rule=('CrossHair conditions with symbolic choice of declared type (none, INTEGER, REAL with kind, DEFERRED, derived, '
              'subroutine/function ProcedureType), shape yes/no, subscripts yes/no, explicit type vs scope look-up (own/parent '
              'scope), name spelling; post-condition: class == documented tier table; then a symbolic type update through the '
              'scope is seen by every attached symbol of that name (any spelling) and not by a detached one; clone/rescope'),
        functions=['loki.expression.symbols.Variable.__new__ / _get_type_from_scope', 'TypedSymbol.type getter/setter',
                   'TypedSymbol.clone / rescope', 'loki.types.Scope / SymbolTable (as used)'],
        bounds={'declared_types': 7, 'spellings': 3, 'scope_depth': 2, 'members': 'derived-type members resolved through a type definition, with stale DEFERRED placeholders', 'outside': 'DerivedTypeSymbol tier (name equals type name), nested derived types'},
        assumptions=['tier table transcribed from the Variable docstring'],
        timeout_quick=150, timeout_thorough=600)


def replay(path):
    text, _ = H.generate('thorough')
    return replay_xh(path, 'C13_symbols', text)
