"""C43 (behavioural part) -- lint auto-fix preserves program behaviour (translation validation of the fixed file)."""
from vlib.tv import run_tv, replay_tv
from vlib.corpus.c43 import cases
from checks._tvmeta import COMMON_ASSUME, COMMON_BOUNDS

PROP = 'C43'


def relint(ctx):
    """concrete part of the property (not decided by a solver, recorded and reported): the fixer must run and the
    fixed rules must report nothing on the written file"""
    from vlib.fsmt.equiv import Prog  # pylint: disable=import-outside-toplevel
    stats = {}
    for c in cases():
        p = Prog.from_source(c.src, c.entry)
        try:
            q = c.apply(p)
            stats[c.name] = q.lint
            if q.lint['fixable_after'] > 0:
                ctx.candidate(f'lint-fix:violations-remain:{c.name}',
                              f"{c.name}: {q.lint['fixable_before']} fixable report(s) before Linter.fix, {q.lint['fixable_after']} after; "
                              f"file changed: {q.lint['changed']}", {'case': c.name, 'kind': 'relint'})
        except Exception as ex:  # pylint: disable=broad-except
            stats[c.name] = f'{type(ex).__name__}: {ex}'
            ctx.candidate(f'lint-fix:fixer-raises:{c.name}', f'{c.name}: Linter.check/fix raises {type(ex).__name__}: {str(ex)[:120]}',
                          {'case': c.name, 'kind': 'raises'})
    ctx.extra['relint'] = stats


def run(tier, seed):
    return run_tv(
        PROP, tier, seed, cases(),
        rule=('files with violations of the fixable rules (old-style relational operators in every context incl. strings, comments, '
              'mixed case, continuation lines; dynamic UBOUND checks on assumed-shape dummies) are written to a scratch directory, '
              'checked and fixed by the real Linter (Fixer + conservative write), read back and parsed; z3 decides whether the fixed '
              'program can behave differently from the original for any input (for the UBOUND rule: on inputs where the removed '
              'check passes, i.e. the original does not abort)'),
        functions=['loki.lint.Linter.check / fix', 'loki.lint.utils.Fixer', 'lint_rules.Fortran90OperatorsRule.fix_subroutine',
                   'lint_rules.DynamicUboundCheckRule.fix_subroutine', 'Sourcefile.write(conservative=True)'],
        bounds=dict(COMMON_BOUNDS, outside='"all other text unchanged" and "the fixed rules report no violations" (text / report identity, '
                    'no value domain; the re-lint count is recorded in the evidence but not decided by the solver)'),
        assumptions=COMMON_ASSUME + ['calls to abor1 are aborts'], post=relint)


def replay(path):
    import json  # pylint: disable=import-outside-toplevel
    d = json.load(open(path))['replay']
    if d.get('kind') in ('relint', 'raises'):
        from vlib.fsmt.equiv import Prog  # pylint: disable=import-outside-toplevel
        c = [c for c in cases() if c.name == d['case']][0]
        try:
            q = c.apply(Prog.from_source(c.src, c.entry))
            print(q.lint)
            return 1 if q.lint['fixable_after'] > 0 else 0
        except Exception as ex:  # pylint: disable=broad-except
            print('raises', repr(ex))
            return 1
    return replay_tv(path, cases())
