r"""C27 -- dependency queries report every actual loop-carried or read-after-write value.

Same event layer as C26.  For every counted loop instance L of a template:  if some element written in iteration k (guard
gw) is read in iteration k' > k (guard gr) with no intervening overwrite of that element, and z3 finds gw /\ gr /\ index
equality feasible, the variable must be in loop_carried_dependencies(L).  For every node N of the routine body: if an
element is written before N and read at or after N (no intervening overwrite, feasible), the variable must be in
read_after_write_vars(body, N).
"""
import json
import z3

from loki import ir, FindNodes
from loki.analyse import dataflow_analysis_attached
from loki.analyse.dataflow_analysis import loop_carried_dependencies, read_after_write_vars

from vlib.common import Ctx, pmap
from vlib.fsmt.sem import Sem
from vlib.fsmt.expr import NotEncoded
from vlib.fsmt.interp import Interp
from vlib.fsmt.equiv import Prog
from vlib.fsmt.solve import check, model_value2
from vlib.corpus.c26 import sources
from checks.C26 import same_elem, names_of, SIZES

PROP = 'C27'


def reaching(events, w_t, r_t, name, idx):
    """condition that no write between positions w_t and r_t overwrites the element"""
    kills = []
    for t in range(w_t + 1, r_t):
        kind, n2, i2, g2, _ = events[t]
        if kind == 'w' and n2 == name:
            kills.append(z3.And(g2, same_elem(idx, i2)))
    return z3.Not(z3.Or(*kills)) if kills else z3.BoolVal(True)


def analyse(item):
    name, src, sizes = item
    res = {'case': name, 'sizes': sizes, 'queries': 0, 'solver_s': 0.0, 'violations': [], 'loops': 0, 'points': 0}
    p = Prog.from_source(src, 'k')
    routine = p.entry
    sem = Sem('real')
    events = []
    try:
        with dataflow_analysis_attached(routine):
            it = Interp(sem, p.routines, p.modules, sizes, events=events)
            it.int_bound = 6
            it.run_entry(routine)
            assume = list(sem.ranges) + list(sem.defined) + [z3.Not(it.trap), z3.Not(it.unwind_violation)]
            induction = {l.variable.name.lower() for l in FindNodes(ir.Loop).visit(routine.body)}
            amap = {}
            for an in FindNodes(ir.Associate).visit(routine.body):
                for sel, nm in an.associations:
                    if hasattr(sel, 'name'):
                        amap[nm.name.lower()] = sel.name.lower().split('%')[0]

            def xlate(names):
                # names reported inside ASSOCIATE blocks are associate names: read them as their selectors as well
                out = set(names)
                for _ in range(3):
                    out |= {amap[n] for n in out if n in amap}
                return out

            def ask(kind, label, var, conds, node_repr):
                r, m, dt = check(assume + [z3.Or(*conds)], 10000)
                res['queries'] += 1
                res['solver_s'] += dt
                if r == 'sat':
                    res['violations'].append({'query': kind, 'at': label, 'variable': var, 'node': node_repr,
                                              'model': {n: model_value2(m, v) for n, v in it.inputs.items()}})

            # ---- loop-carried dependencies
            loops = {}
            for t, ev in enumerate(events):
                for node, inst, npc in ev[4]:
                    if isinstance(node, ir.Loop) and isinstance(inst, tuple):
                        # identify the loop instance by the position of the enclosing (node, k) entry
                        outer = [x for x in ev[4] if x[0] is node and not isinstance(x[1], tuple)]
                        lkey = (id(node), outer[0][1] if outer else 0)
                        loops.setdefault(lkey, {'node': node, 'events': []})['events'].append((t, inst[1], ev))
            res['loops'] = len(loops)
            for lkey, info in loops.items():
                loop = info['node']
                reported = xlate(names_of(loop_carried_dependencies(loop)))
                conds = {}
                evs = info['events']
                for a, (tw, kw, (kind_w, nm, iw, gw, _)) in enumerate(evs):
                    if kind_w != 'w':
                        continue
                    base = nm.split('%')[0]
                    if nm in reported or base in reported or base in induction:
                        continue
                    for tr, kr, (kind_r, nm2, ir_, gr, _) in evs[a + 1:]:
                        if kind_r == 'r' and nm2 == nm and kr > kw:
                            conds.setdefault(nm, []).append(z3.And(gw, gr, same_elem(iw, ir_), reaching(events, tw, tr, nm, iw)))
                for nm, cs in conds.items():
                    ask('loop_carried_dependencies', repr(loop)[:50], nm, cs[:200], repr(loop)[:60])
            # ---- read after write across an inspection node (top-level nodes of the body and of loop/conditional bodies)
            points = {}
            for t, ev in enumerate(events):
                for node, inst, npc in ev[4]:
                    if not isinstance(inst, tuple) and inst == 0:
                        points.setdefault(id(node), (node, t))
            res['points'] = len(points)
            for nid, (node, t0) in points.items():
                try:
                    reported = xlate(names_of(read_after_write_vars(routine.body, node)))
                except Exception as ex:  # pylint: disable=broad-except
                    res.setdefault('query_errors', []).append(f'{repr(node)[:40]}: {type(ex).__name__}')
                    continue
                conds = {}
                for tw in range(0, t0):
                    kind_w, nm, iw, gw, stack_w = events[tw]
                    if kind_w != 'w':
                        continue
                    base = nm.split('%')[0]
                    if nm in reported or base in reported or base in induction:
                        continue
                    for tr in range(t0, len(events)):
                        kind_r, nm2, ir_, gr, _ = events[tr]
                        if kind_r == 'r' and nm2 == nm:
                            conds.setdefault(nm, []).append(z3.And(gw, gr, same_elem(iw, ir_), reaching(events, tw, tr, nm, iw)))
                for nm, cs in conds.items():
                    ask('read_after_write_vars', repr(node)[:50], nm, cs[:200], repr(node)[:60])
            res['events'] = len(events)
    except NotEncoded as ex:
        res['notenc'] = str(ex)
    return res


def run(tier, seed):
    ctx = Ctx(PROP, tier, seed, 'model_checking')
    ctx.rule = ('the C26 template routines x size instances; events of a symbolic execution carry loop iteration numbers; one z3 '
                'feasibility query per (loop instance, unreported variable) and per (inspection node, unreported variable) asking '
                'for an input on which a written element is read in a later iteration / at-or-after the node without being '
                'overwritten in between; non-trivial = loop instance or inspection point with events')
    ctx.functions = ['loki.analyse.dataflow_analysis.loop_carried_dependencies', 'read_after_write_vars', 'FindReads', 'FindWrites']
    ctx.bounds = {'extents': 'n in {3,4}', 'values': 'ints |v|<=6', 'unwinding': '6',
                  'inspection_nodes': 'first execution instance of every node', 'outside': 'over-reporting (never alarms)'}
    ctx.assumptions = ['loop induction variables are exempt (Loki convention)', 'Fortran semantics of vlib/fsmt/interp.py']
    items = [(name, src, sz) for name, src in sources() for sz in (SIZES if tier == 'thorough' else SIZES[:1])]
    for res in pmap(analyse, items):
        if 'notenc' in res:
            ctx.not_encoded.append(f"{res['case']}: {res['notenc']}")
            continue
        ctx.solver_s += res['solver_s']
        n = res['loops'] + res['points']
        ctx.verdict('unsat-or-reported', max(n - len(res['violations']), 0))
        for k in range(n):
            ctx.obligation(f"{res['case']}@{res['sizes']}#{k}")
        ctx.sample({'case': res['case'], 'loop_instances': res['loops'], 'inspection_points': res['points'], 'events': res.get('events'),
                    'feasibility_queries': res['queries'], 'violations': len(res['violations']), 'query_errors': res.get('query_errors')})
        for v in res['violations']:
            ctx.verdict('sat')
            sig = f"depquery:{v['query']}:{res['case'].replace('~case', '')}:{v['variable'].lower()}"
            ctx.candidate(sig, f"{res['case']}: {v['query']} at {v['at']} does not report '{v['variable']}' although on input "
                          f"{dict(list(v['model'].items())[:6])} a written element is read later without being overwritten",
                          {'case': res['case'], 'sizes': res['sizes'], **v})
    return ctx.finish()


def replay(path):
    d = json.load(open(path))['replay']
    for name, src in sources():
        if name == d['case']:
            res = analyse((name, src, d['sizes']))
            hit = [v for v in res['violations'] if v['variable'] == d['variable'] and v['query'] == d['query']]
            print(hit[:1])
            return 1 if hit else 0
    return 3
