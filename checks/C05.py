r"""C05 -- frontend input sanitisation leaves untargeted text untouched.

For every rule of sanitize_registry[FP] (live compiled patterns / match strings) and every untargeted context (string
literal in assignment / PRINT / CALL / OPEN FILE=, trailing and full-line comments, identifier infix) the context line
with a symbolic payload S (|S| <= 24 over the context's alphabet) is encoded as a z3 string term and z3 decides whether
the rule can fire on it:  line in L(search(rule)).  unsat = the rule can never touch that context.  sat = a concrete
line, embedded in a compilable routine and pushed through the real Sourcefile.from_source + fgen; it is a violation iff
parsing fails or the payload is not preserved exactly in the IR / regenerated code.
"""
import json
import re
import z3

from loki import Sourcefile, Frontend, FindNodes, fgen
from loki import ir
from loki.frontend.preprocessing import sanitize_registry
from loki.frontend.util import FP, REGEX
from loki.ir import FindVariables
from loki.expression import symbols as sym

from vlib.common import Ctx
from vlib.rx import search_language, contains_language, RxUnsupported, ANY, WORD
from vlib.fsmt.solve import check

PROP = 'C05'
MAXLEN = 24

PRINTABLE = z3.Range(' ', '~')


def alpha(exclude):
    r = PRINTABLE
    for ch in exclude:
        r = z3.Intersect(r, z3.Complement(z3.Re(ch)))
    return r


# name: (prefix, suffix, payload alphabet, how the payload is recovered after the round trip)
CONTEXTS = {
    'sq-literal-assign': ("  c = '", "'\n", alpha("'&!"), 'literal'),
    'dq-literal-assign': ('  c = "', '"\n', alpha('"&!'), 'literal'),
    'literal-print': ("  print *, '", "'\n", alpha("'&!"), 'print'),
    'literal-call-arg': ("  call sub('", "', n)\n", alpha("'&!"), 'callarg'),
    'literal-open-file': ("  open(10, file='", "')\n", alpha("'&!"), 'text'),
    'trailing-comment': ("  n = 1  ! ", "\n", alpha("&"), 'comment'),
    'full-line-comment': ("! ", "\n", alpha("&"), 'comment'),
    'identifier-infix': ("  a", "b = 1\n", WORD, 'identifier'),
}

TEMPLATE = """subroutine t(n)
  integer :: n
  character(len=64) :: c
{decl}{line}end subroutine t
"""


def rules():
    out = []
    for name, rule in sanitize_registry[FP].items():
        out.append(('FP', name, rule))
    for name, rule in sanitize_registry[REGEX].items():
        out.append(('REGEX', name, rule))
    return out


def language(rule):
    if hasattr(rule.match, 'pattern'):
        return search_language(rule.match)
    return contains_language(rule.match)


def fires(rule, line):
    if hasattr(rule.match, 'pattern'):
        return rule.match.search(line) is not None
    return rule.match in line


def roundtrip(ctxname, payload):
    """push the concrete line through the real frontend; returns (preserved: bool, detail)"""
    prefix, suffix, _, how = CONTEXTS[ctxname]
    line = prefix + payload + suffix
    decl = ''
    if how == 'identifier':
        decl = f'  integer :: a{payload}b\n'
    src = TEMPLATE.format(decl=decl, line=line)
    try:
        sf = Sourcefile.from_source(src, frontend=Frontend.FP)
        r = sf['t']
        out = fgen(r)
    except Exception as ex:  # pylint: disable=broad-except
        return False, f'frontend fails: {type(ex).__name__}: {str(ex)[:100]}'
    if how in ('literal', 'print', 'callarg', 'text'):
        lits = [str(l.value) for n in FindNodes((ir.Assignment, ir.CallStatement)).visit(r.body)
                for l in _string_literals(n)]
        stmts = [str(getattr(n, 'text', '')) for n in FindNodes(ir.GenericStmt).visit(r.body)]
        stmts += [' '.join(str(v) for v in getattr(n, 'values', ())) for n in FindNodes(ir.PrintStmt).visit(r.body)]
        if payload in lits or any(payload in s for s in stmts):
            if payload in out or payload.replace("'", "''") in out:
                return True, 'literal preserved'
            return False, f'literal lost in regenerated code: {out.splitlines()[-2][:120]!r}'
        return False, f'literal changed in IR: literals {lits[:3]} statements {stmts[:2]}'
    if how == 'comment':
        comments = [c.text for c in FindNodes(ir.Comment).visit(r.ir)]
        comments += [c.text for b in FindNodes(ir.CommentBlock).visit(r.ir) for c in b.comments]
        comments += [getattr(n.comment, 'text', '') for n in FindNodes(ir.Assignment).visit(r.body) if n.comment]
        if any(payload.rstrip() in c for c in comments) and payload.rstrip() in out:
            return True, 'comment preserved'
        return False, f'comment changed: {comments[:3]}'
    if how == 'identifier':
        names = {v.name.lower() for v in FindVariables().visit(r.body)}
        want = f'a{payload}b'.lower()
        return (want in names), f'identifier {want!r} -> {sorted(names)}'
    return None, 'unknown context kind'


def _string_literals(node):
    from loki.expression import ExpressionRetriever  # pylint: disable=import-outside-toplevel
    ret = ExpressionRetriever(lambda e: isinstance(e, sym.StringLiteral))
    out = []
    for e in (getattr(node, 'rhs', None),) + tuple(getattr(node, 'arguments', ()) or ()):
        if e is not None:
            out += ret.retrieve(e)
    return out


def run(tier, seed):
    ctx = Ctx(PROP, tier, seed, 'model_checking')
    ctx.rule = ('one z3 string query per (sanitiser rule, untargeted context): context line with a symbolic payload of <= 24 printable '
                'characters (context alphabet) intersected with the search language of the live pattern translated from '
                're._parser.parse; sat models are embedded in a routine and replayed through the real FP frontend + fgen; '
                'non-trivial = every (rule, context) query')
    ctx.functions = ['loki.frontend.preprocessing.sanitize_registry (compiled patterns, match strings, replacement callables)',
                     'PPRule.filter', 'sanitize_input', 'reinsert_convert_endian', 'reinsert_open_newunit', 'FParser2IR (replay)']
    ctx.bounds = {'payload_length': f'<= {MAXLEN}', 'alphabet': 'printable ASCII minus the context delimiter, & and ! (literals); '
                  'word characters (identifier)', 'outside': 'multi-line constructs (continuations), the targeted OPEN statements themselves'}
    ctx.assumptions = ['vlib/rx.py translates the pattern faithfully (self-tested against Python re on every run)',
                       'a rule that fires but restores the text exactly is not a violation (decided by the replay)']
    # translator self-test on this run's patterns
    samples = ["  open(10, file='a', convert='big_endian')\n", "  OPEN (UNIT=iu, NEWUNIT=foo)\n", "c = 'see __FILE__ here'\n",
               '# 1 "a.fypp"\n', "x = 1\n", "@PROCESS foo\n", " #define X __DATE__\n", "  open(newunit=u, file='x')\n", "n = __LINE__\n"]
    bad = 0
    for fe, name, rule in rules():
        try:
            L = language(rule)
        except RxUnsupported:
            continue
        for s in samples:
            r, _, _ = check([z3.InRe(z3.StringVal(s), L)], 20000)
            if (r == 'sat') != fires(rule, s):
                bad += 1
    if bad:
        raise RuntimeError(f'regex translator self-test failed on {bad} sample(s)')
    ctx.traces_validated = len(samples) * len(rules())
    per_sig = {}
    for fe, name, rule in rules():
        try:
            L = language(rule)
        except RxUnsupported as ex:
            ctx.not_encoded.append(f'{fe}:{name}: {ex}')
            continue
        for cname, (prefix, suffix, alph, how) in CONTEXTS.items():
            S = z3.String('S')
            line = z3.Concat(z3.StringVal(prefix), S, z3.StringVal(suffix))
            cs = [z3.InRe(S, z3.Star(alph)), z3.Length(S) <= MAXLEN, z3.InRe(line, L)]
            r, m, dt = check(cs, 60000)
            ctx.solver_s += dt
            ctx.verdict(r)
            ctx.obligation(f'{fe}:{name}|{cname}')
            if r == 'unsat':
                ctx.sample({'rule': f'{fe}:{name}', 'context': cname, 'verdict': 'unsat: the rule can never fire in this context'})
                continue
            if r == 'unknown':
                ctx.inconcl(f'{fe}:{name} in {cname}')
                continue
            payload = m.eval(S, model_completion=True).as_string()
            payload = payload.encode().decode('unicode_escape') if '\\u' in payload else payload
            concrete = prefix + payload + suffix
            if not fires(rule, concrete):
                ctx.unrepro(f'{fe}:{name} in {cname}: model {payload!r} does not make the real pattern fire')
                continue
            if fe != 'FP':
                # REGEX-frontend rules are only applied by the regex frontend; the effect is replayed through FP only
                ctx.sample({'rule': f'{fe}:{name}', 'context': cname, 'verdict': 'sat (fires)', 'payload': payload})
                continue
            ok, detail = roundtrip(cname, payload)
            sig = f'sanitize:{name}:{cname}'
            if ok:
                ctx.sample({'rule': f'{fe}:{name}', 'context': cname, 'verdict': 'sat but text restored exactly', 'payload': payload})
                ctx.extra.setdefault('fires_but_restored', []).append(f'{name}|{cname}|{payload!r}')
            elif ok is False:
                ctx.candidate(sig, f'line {concrete!r}: rule {name} fires; {detail}', {'rule': name, 'context': cname, 'payload': payload})
            else:
                ctx.unrepro(f'{sig}: {detail}')
    return ctx.finish()


def replay(path):
    d = json.load(open(path))['replay']
    ok, detail = roundtrip(d['context'], d['payload'])
    print(ok, detail)
    return 0 if ok else 1
