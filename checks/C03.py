"""C03 -- behavioural projection by translation validation over the program corpus (vlib/corpus/struct.py)."""
from vlib.tv import run_tv, replay_tv
from vlib.corpus.struct import c03_cases as cases
from checks._tvmeta import COMMON_ASSUME, COMMON_BOUNDS

PROP = 'C03'


def run(tier, seed):
    return run_tv(
        PROP, tier, seed, cases(),
        rule='PARTIAL (behavioural half): after a semantically visible local edit through the public API (Transformer replacing the k-th numeric assignment x = e by x = e + 1), Sourcefile.to_fortran(conservative=True) is re-parsed and z3 decides whether it can differ from the modified IR for any input (a stale source string emitted for a changed node shows up as a value difference); also the unmodified conservative output vs the original.' + ' Outer family: the program corpus (vlib/corpus/programs.py) and the sources of the transformation templates; every case is an obligation.',
        functions=['loki.backend.fgencon.FortranCodegenConservative', 'Transformer._rebuild (source invalidation)', 'Source.invalidate/is_valid'],
        bounds=dict(COMMON_BOUNDS, outside='node identity, pragma placement, text identity, scope-chain and symbol-identity statements of the property (no value domain for a solver: not claimed)'),
        assumptions=COMMON_ASSUME)


def replay(path):
    return replay_tv(path, cases())
