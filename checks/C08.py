r"""C08 -- symbolic simplification preserves expression values.

(i)  E-SMT: for every tree of a deterministic typed family and every subset of Simplification flags, the real
     simplify() is run and z3 is asked for a valuation (non-zero divisors) where tree and result differ, under
     INTEGER (truncating division) semantics for integer-typed trees and over the reals for real-typed ones.
(ii) E-XH: templates whose literal values are symbolic ints executed by CrossHair through the real simplify().
"""
import itertools
import json
import shutil
import z3
import pymbolic.primitives as pmbl

from loki.expression import symbols as sym
from loki.expression import operations as ops
from loki.expression.symbolic import simplify, Simplification

from vlib.common import Ctx, pmap, rotate
from vlib.corpus import exprs as X
from vlib.fsmt.expr import ExprEnc, NotEncoded, fullparen
from vlib.fsmt.solve import prove_equal
from vlib import replay as RP
from vlib import xh
import harness.C08_simplify as H

PROP = 'C08'
BOUND = 6
FLAGS = [Simplification.Flatten, Simplification.IntegerArithmetic, Simplification.FloatingPointArithmetic,
         Simplification.CollectCoefficients, Simplification.LogicEvaluation]


def flag_subsets():
    out = []
    for n in range(0, len(FLAGS) + 1):
        for comb in itertools.combinations(range(len(FLAGS)), n):
            f = Simplification(0)
            for i in comb:
                f |= FLAGS[i]
            out.append(f)
    return out


def flagname(f):
    names = [x.name for x in FLAGS if x & f]
    return '|'.join(names) if names else 'NONE'


def literal_trees():
    """literal-heavy shapes that drive sum_literals / mul_literals / div_literals / collect_coefficients"""
    a, b = X.V('a', X.INT_T), X.V('b', X.INT_T)
    L = sym.IntLiteral
    out = []
    vals = [-3, -2, -1, 0, 1, 2, 3, 4, 6]
    for k1, k2 in itertools.product(vals, vals):
        if k2 != 0:
            out.append(sym.Quotient(sym.Product((L(k1), a)), L(k2)))
            out.append(sym.Quotient(L(k1), L(k2)))
            out.append(sym.Sum((sym.Quotient(a, L(k2)), sym.Quotient(sym.Product((L(k1), a)), L(k2)))))
            out.append(sym.Quotient(sym.Sum((a, L(k1))), L(k2)))
        out.append(sym.Sum((L(k1), a, L(k2))))
        out.append(sym.Product((L(k1), a, L(k2), b)))
        out.append(sym.Sum((sym.Product((L(k1), a)), sym.Product((L(k2), a)), b)))
        out.append(sym.Sum((sym.Product((L(k1), a)), X.neg(sym.Product((L(k2), a))))))
        out.append(sym.Product((sym.Sum((a, L(k1))), sym.Sum((b, L(k2))))))
        out.append(sym.Power(sym.Sum((a, L(k1))), L(abs(k2) % 4)))
        out.append(sym.Comparison(sym.Sum((a, L(k1))), '<', sym.Sum((a, L(k2)))))
        if abs(k2) <= 3 and abs(k1) <= 4:
            # powers of literals, also with negative / computed exponents (integer base: 2**(-1) == 0 in Fortran)
            out.append(sym.Power(L(k1), L(k2)))
            out.append(sym.Power(L(k1), sym.Sum((L(1), L(k2 - 1)))))
            out.append(sym.Power(L(k1), sym.Product((-1, L(abs(k2))))))
            out.append(sym.Power(sym.Sum((L(k1), L(1))), sym.Sum((L(k2), sym.Product((-1, L(1)))))))
            out.append(sym.Power(a, L(k2)))
            out.append(sym.Product((L(k1), sym.Power(L(2), L(k2)))))
            out.append(sym.Power(sym.FloatLiteral('2.0'), L(k2)))
        out.append(sym.Comparison(sym.Product((L(k1), a)), '==', sym.Product((L(k2), a))))
    return out


def build_family(tier):
    fam = []
    ileaves = [X.V('a', X.INT_T), X.V('b', X.INT_T), X.V('c', X.INT_T), sym.IntLiteral(2), sym.IntLiteral(3)]
    plain = ['add', 'sub', 'mul', 'div', 'pow', 'padd', 'pdiv']
    fam += [('int', t) for t in X.arith_trees(ileaves, 2, binops=plain, unops=['neg'])]
    fam += [('int', t) for t in X.arith_trees([ileaves[0], sym.IntLiteral(2), ileaves[1]], 3 if tier == 'thorough' else 2,
                                              binops=['add', 'sub', 'mul', 'div'], unops=['neg'])]
    fam += [('int', t) for t in literal_trees()]
    fam += [('int', t) for t in X.nary_sign_trees(ileaves)]
    fam += [('int', t) for t in X.power_towers(ileaves)]
    fam += [('int', t) for t in X.pyop_trees([ileaves[0], ileaves[1], ileaves[3]])[::3]]
    rleaves = [X.V('x', X.REAL_T), X.V('y', X.REAL_T), X.V('z', X.REAL_T), sym.FloatLiteral('2.0'), sym.IntLiteral(2)]
    fam += [('real', t) for t in X.arith_trees(rleaves, 2, binops=['add', 'sub', 'mul', 'div', 'padd'], unops=['neg'])]
    fam += [('real', t) for t in X.arith_trees([rleaves[0], sym.FloatLiteral('1.5'), sym.FloatLiteral('0.5')], 2,
                                               binops=['add', 'sub', 'mul', 'div'], unops=['neg'])]
    fam += [('logic', t) for t in X.logic_trees(X.arith_trees(ileaves, 1, binops=['add', 'sub', 'mul'], unops=[]))[:400]]
    # logic with literals (LogicEvaluation)
    p, q = X.V('p', X.LOG_T), X.V('q', X.LOG_T)
    T, F = sym.LogicLiteral('.true.'), sym.LogicLiteral('.false.')
    for l in (T, F):
        fam += [('logic', sym.LogicalAnd((p, l))), ('logic', sym.LogicalOr((l, q))), ('logic', sym.LogicalNot(l)),
                ('logic', sym.LogicalAnd((p, sym.LogicalOr((q, l))))), ('logic', sym.LogicalOr((sym.LogicalNot(l), sym.LogicalAnd((p, q))))),
                ('logic', sym.LogicalAnd((l, l))), ('logic', sym.LogicalOr((sym.LogicalAnd((l, p)), sym.LogicalNot(sym.LogicalNot(q)))))]
    out, seen = [], set()
    for kind, t in fam:
        k = X.show(t)
        if k not in seen:
            seen.add(k)
            out.append((kind, t))
    return out


def make_env(sem):
    env = {n: sem.int_var(n, BOUND) for n in 'abc'}
    env.update({n: sem.real_const(n, BOUND) for n in 'xyz'})
    env.update({n: z3.Bool(n) for n in 'pq'})
    sem.used_real = False
    return env


def decide(tree, flags, ints_as_reals=False):
    try:
        s = simplify(tree, enabled_simplifications=flags)
    except Exception as ex:  # pylint: disable=broad-except
        return 'raises', {'why': f'{type(ex).__name__}: {str(ex)[:100]}'}

    def build(sem):
        env = make_env(sem)
        return ExprEnc(sem, env).enc(tree), ExprEnc(sem, env).enc(s), env
    try:
        r = prove_equal(build, timeout_ms=8000, want_gap=not ints_as_reals, ints_as_reals=ints_as_reals)
    except NotEncoded as ex:
        return 'notenc', {'why': str(ex), 'simplified': X.show(s)}
    except TypeError as ex:
        return 'notenc', {'why': f'type: {ex}', 'simplified': X.show(s)}
    info = {'simplified': X.show(s), 'solver_s': r['seconds'], 'mode': 'structural(t!=t)' if r['structural'] else r['mode'],
            'changed': X.show(s) != X.show(tree)}
    if r['verdict'] == 'sat':
        info.update(model=r['model'], v1=r.get('v1'), v2=r.get('v2'), why=r.get('why'))
    return r['verdict'], info


FAMILY = []
SUBSETS = []


def work(item):
    i, js = item
    kind, tree = FAMILY[i]
    out = []
    for j in js:
        v, info = decide(tree, SUBSETS[j])
        out.append((i, j, v, info))
    return out


def minimal(tree, flags):
    """(minimal failing subtree, minimal set of flags) for the signature"""
    subs = sorted((s for s in X.subtrees(tree) if isinstance(s, pmbl.Expression)), key=lambda e: len(X.show(e)))
    for st in subs:
        if decide(st, flags)[0] == 'sat':
            mf = flags
            for f in FLAGS:
                if (f & mf) and (mf & ~f) != Simplification(0) and decide(st, mf & ~f)[0] == 'sat':
                    mf = mf & ~f
            return st, mf
    return tree, flags


def classify(kind, st, mf):
    """Signature of a counterexample = (minimal single flag, type, root operator of the minimal failing subtree,
    root-cause discriminator).  For integer-typed trees containing a division the discriminator is decided by a second
    solver query that reads the integers as exact rationals: if the rewrite is valid there, the root cause is
    'exact-rational rewrite applied under truncating division'; otherwise the rewrite is wrong in any arithmetic."""
    k = kind.split('-')[0]
    root = type(st).__name__.replace('Parenthesised', '')
    root = {'Add': 'Sum', 'Mul': 'Product', 'Div': 'Quotient', 'Pow': 'Power'}.get(root, root)
    hasdiv = any(isinstance(x, pmbl.Quotient) for x in X.subtrees(st))
    disc = 'wrong-in-any-arithmetic'
    if k == 'int' and hasdiv:
        v, _ = decide(st, mf, ints_as_reals=True)
        if v == 'unsat':
            disc = 'exact-rational-rewrite-under-truncating-division'
        elif v != 'sat':
            disc = f'rational-check-{v}'
    return f'simplify:{flagname(mf)}:{k}:{root}:{disc}'


def shape2(e, depth=2):
    """shape with literals classified by sign/zero, limited depth"""
    if isinstance(e, sym.IntLiteral):
        return 'lit0' if e.value == 0 else ('lit-' if e.value < 0 else 'lit')
    if isinstance(e, sym.FloatLiteral):
        return 'flit'
    if isinstance(e, (int, float)) and not isinstance(e, bool):
        return 'neg1' if e == -1 else 'num'
    ch = X._children(e)
    if not ch:
        return '_'
    n = type(e).__name__.replace('Parenthesised', 'P')
    if depth == 0:
        return n
    return n + '(' + ','.join(shape2(c, depth - 1) for c in ch) + ')'


def replay_candidate(kind, tree, flags, info):
    s = simplify(tree, enabled_simplifications=flags)
    m = info.get('model') or {}
    decl = ['integer :: a, b, c', 'real(8) :: x, y, z', 'logical :: p, q']
    for n in 'abc':
        decl.append(f'{n} = {m.get(n, 1)}')
    for n in 'xyz':
        v = m.get(n, (1, 1))
        v = v if isinstance(v, tuple) else (v, 1)
        decl.append(f'{n} = {v[0]}.0d0/{v[1]}.0d0')
    for n in 'pq':
        decl.append(f"{n} = {'.true.' if m.get(n) else '.false.'}")
    body = '\n'.join('  ' + l for l in decl)
    try:
        t1, t2 = fullparen(tree), fullparen(s)
    except NotEncoded as ex:
        return None, str(ex)
    prog = f'program rp\n{body}\n  print *, {t1}\n  print *, {t2}\nend program rp\n'
    ok, out, err = RP.run_fortran([('rp.f90', prog)])
    if not ok:
        return None, f'replay failed: {err[-300:]}'
    l = out.split()
    same = l[0] == l[1]
    if not same:
        try:
            same = abs(float(l[0]) - float(l[1])) <= 1e-9 * max(1.0, abs(float(l[0])))
        except ValueError:
            pass
    return (not same), f'gfortran: original={l[0]} simplified={l[1]} at ' + \
        str({k: v for k, v in m.items() if k in ('abc' if kind.startswith('int') else 'abcxyzpq')})


def run(tier, seed):
    global FAMILY, SUBSETS  # pylint: disable=global-statement
    ctx = Ctx(PROP, tier, seed, 'model_checking')
    ctx.rule = ('(i) every tree of the typed family (depth<=2/3 arithmetic over ints and reals incl. Parenthesised nodes, '
                'literal-heavy shapes with literal values from -3..6, comparisons, logical trees with literals) x subsets '
                'of Simplification flags (quick: 9 subsets rotating with VERIF_SEED incl. ALL, NONE and all singletons; '
                'thorough: all 32); one z3 query per pair; non-trivial = simplify changed the tree; (ii) CrossHair conditions '
                'with symbolic literal values')
    ctx.functions = ['loki.expression.symbolic.simplify / SimplifyMapper', 'flatten_expr', 'distribute_product', 'distribute_quotient',
                     'sum_literals', 'mul_literals', 'div_literals', 'collect_coefficients', 'SimplifyMapper.map_comparison/map_logical_*']
    ctx.bounds = {'int_vars': f'|v|<={BOUND}', 'real_vars': f'|v|<={BOUND} (mathematical reals)', 'int_exponent': '-3..3',
                  'literal_values': '-3..6 (i), symbolic -8..8 (ii)', 'outside': 'overflow, FP rounding (reals are exact here)'}
    ctx.assumptions = ['non-zero divisors', 'real arithmetic is exact (rounding differences of re-association are not violations)']
    FAMILY = build_family(tier)
    SUBSETS = flag_subsets()
    allidx = list(range(len(SUBSETS)))
    if tier == 'quick':
        must = [j for j, f in enumerate(SUBSETS) if f in (Simplification(0), Simplification.ALL) or f in FLAGS]
        rest = [j for j in allidx if j not in must]
        sel = must + rotate(rest, seed, 2)
    else:
        sel = allidx
    items = [(i, sel) for i in range(len(FAMILY))]
    per_sig = {}
    modes = {}
    changed = 0
    for res in pmap(work, items, chunksize=8):
        for i, j, v, info in res:
            kind, tree = FAMILY[i]
            flags = SUBSETS[j]
            key = f'{flagname(flags)}:{X.show(tree)}'
            if v == 'notenc':
                ctx.not_encoded.append(f'{key}: {info["why"]}')
                continue
            ctx.verdict(v)
            ctx.solver_s += info.get('solver_s', 0)
            if v == 'raises':
                # a crash is not a changed value: outside the property as stated -> recorded, not alarmed
                rz = ctx.extra.setdefault('simplify_raises(not a violation of C08)', {'count': 0, 'examples': []})
                rz['count'] += 1
                if len(rz['examples']) < 5:
                    rz['examples'].append(f'simplify({X.show(tree)}, {flagname(flags)}): {info["why"]}')
                continue
            if info.get('changed'):
                changed += 1
                ctx.obligation(key)
            modes[info['mode']] = modes.get(info['mode'], 0) + 1
            if v == 'unsat':
                if info.get('changed') and (i * 31 + j) % 211 == 0:
                    ctx.sample({'tree': X.show(tree), 'flags': flagname(flags), 'simplified': info['simplified'], 'verdict': v})
                continue
            if v == 'unknown':
                ctx.inconcl(f'{key} -> {info["simplified"]}')
                continue
            st, mf = minimal(tree, flags)
            sig = classify(kind, st, mf)
            n = per_sig.get(sig, 0)
            per_sig[sig] = n + 1
            if n >= 2:
                ctx.extra['candidates_not_replayed_same_signature'] = ctx.extra.get('candidates_not_replayed_same_signature', 0) + 1
                continue
            ok, msg = replay_candidate(kind, tree, flags, info)
            if ok:
                ctx.candidate(sig, f'simplify({X.show(tree)}, {flagname(flags)}) = {info["simplified"]}; {msg}',
                              {'tree': X.show(tree), 'flags': flagname(flags), 'model': info.get('model')})
            else:
                ctx.unrepro(f'{key} -> {info["simplified"]}: {msg}')
    ctx.extra['family_size'] = len(FAMILY)
    ctx.extra['flag_subsets'] = [flagname(SUBSETS[j]) for j in sel]
    ctx.extra['queries_by_encoding'] = modes
    ctx.extra['pairs_where_simplify_changed_the_tree'] = changed
    ctx.extra['signatures_seen'] = per_sig
    # (ii) CrossHair -- thorough tier only (most conditions need minutes; inconclusive ones are reported as such)
    if tier == 'thorough':
        text, funcs = H.generate(tier)
        res, twins, d = xh.run_conditions('C08_simplify', funcs, 150, text=text, workers=12)
        try:
            for r, t in zip(res, twins):
                ctx.verdict('xh-' + r['verdict'])
                ctx.solver_s += r['seconds']
                if t['verdict'] != 'refuted':
                    ctx.inconcl(f"XH: reachability twin of {r['func']} not refuted ({t['verdict']})")
                if r['verdict'] == 'confirmed':
                    ctx.obligation('XH:' + r['func'])
                    ctx.sample({'part': 'ii', 'condition': r['func'], 'verdict': 'Confirmed over all paths'})
                elif r['verdict'] == 'refuted':
                    ok, msg = xh.replay_call('C08_simplify', r['call'], d)
                    if ok:
                        ctx.candidate(H.signature(r['func']), f"{r['call']}: {msg}", {'part': 'ii', 'call': r['call']})
                    else:
                        ctx.unrepro(f"XH: {r['call']}: {msg}")
                else:
                    ctx.inconcl(f"XH: {r['func']}: {r['verdict']} {r['message'][:100]}")
        finally:
            shutil.rmtree(d, ignore_errors=True)
    return ctx.finish()


def replay(path):
    global FAMILY, SUBSETS  # pylint: disable=global-statement
    d = json.load(open(path))['replay']
    if d.get('part') == 'ii':
        text, _ = H.generate('thorough')
        dd = xh.materialise('C08_simplify', text)
        try:
            ok, msg = xh.replay_call('C08_simplify', d['call'], dd)
        finally:
            shutil.rmtree(dd, ignore_errors=True)
        print(msg)
        return 1 if ok else 0
    FAMILY = build_family('thorough')
    for kind, t in FAMILY:
        if X.show(t) == d['tree']:
            for f in flag_subsets():
                if flagname(f) == d['flags']:
                    v, info = decide(t, f)
                    print(v, info)
                    if v == 'sat':
                        print(replay_candidate(kind, t, f, info))
                        return 1
                    return 0
    return 3
