"""rule / functions / bounds / assumptions texts of the translation-validation checks"""
COMMON_ASSUME = ['Fortran semantics of vlib/fsmt/interp.py + sem.py (self-validated against gfortran in the thorough tier of C01)',
                 'inputs on which the ORIGINAL traps (out-of-bounds, division by zero, unallocated) or exceeds the unwinding bound are excluded; '
                 'a trap of the transformed program on any remaining input is a violation']
COMMON_BOUNDS = {'values': 'reals: any value (uninterpreted arithmetic first, exact reals second); integers |v| <= 6',
                 'extents': 'per size instance, 2-7', 'unwinding': 'input-dependent loops 5 iterations + unwinding assertion'}
RULE = ('each template x transformation variant x size instance (quick: first size instance of every template; thorough: all): '
        'the real transformation is applied to the freshly parsed program, original and result are interpreted symbolically '
        'and z3 decides whether any input yields different observable results (argument values, module variables, PRINT '
        'output, abort); sat models are replayed with gfortran -fcheck=bounds; non-trivial = the transformation changed the code')
META = {
    'C31': dict(rule=RULE + '. Families: unrolling over 18 literal (start,stop,step) combinations incl. negative/empty/single-trip and nested depths; '
                'fusion / fission / interchange / split_loop / block_loop_arrays on nests legal by construction.',
                functions=['do_loop_unroll / LoopUnrollTransformer', 'do_loop_fusion', 'do_loop_fission', 'do_loop_interchange',
                           'loop_blocking.split_loop', 'loop_blocking.block_loop_arrays'],
                bounds=dict(COMMON_BOUNDS, outside='illegal pragma placements (precondition of the property), non-literal unroll bounds'),
                assumptions=COMMON_ASSUME),
    'C28': dict(rule=RULE + '. Families: internal procedures (scalar/element/section/whole-array/expression actuals, host association, name clashes, '
                'nested calls, keyword + optional arguments, aliasing read-only), statement functions (precedence contexts, nesting), '
                'elemental and other module functions inside expressions/conditions, marked subroutines (sections, loops, sequence '
                'association), constant parameters (module / imported), InlineTransformation with all flags.',
                functions=['inline_internal_procedures', 'inline_marked_subroutines', 'inline_statement_functions', 'inline_elemental_functions',
                           'inline_functions', 'inline_constant_parameters', 'InlineTransformation', 'resolve_sequence_association_for_inlined_calls'],
                bounds=dict(COMMON_BOUNDS, outside='recursion, character data, pointers'), assumptions=COMMON_ASSUME),
    'C29': dict(rule=RULE + '. Families: ASSOCIATE to scalars, arrays, sections, (nested) derived-type components, expressions; shadowing, nesting, '
                'use as call argument; do_resolve_associates (full / start_depth=1), do_merge_associates (unbounded / max_parents=1), both.',
                functions=['do_resolve_associates / ResolveAssociatesTransformer / ResolveAssociateMapper', 'do_merge_associates'],
                bounds=dict(COMMON_BOUNDS, outside='polymorphic selectors, pointer targets'), assumptions=COMMON_ASSUME),
    'C32': dict(rule=RULE + '. Families: constant chains, constants killed by inputs / branches / loops, decidable and undecidable conditions, '
                'integer division and MOD of constants, negative-step loops, logical constants; dead literal / tautological / '
                'undecidable conditions; unused variables, unused dummy + call arguments.',
                functions=['do_constant_propagation / ConstantPropagationTransformer', 'do_remove_dead_code / RemoveDeadCodeTransformer',
                           'do_remove_unused_vars', 'do_remove_unused_dummy_args', 'do_remove_unused_call_args'],
                bounds=dict(COMMON_BOUNDS), assumptions=COMMON_ASSUME),
    'C33': dict(rule=RULE + '. Families: !$loki outline regions (read-only, written-and-read-after, read-write, local arrays fully/partially written, '
                'loop variables, explicit intents, two regions, calls inside, conditional writes, region inside a loop) with the caller and the '
                'generated routine interpreted together; extraction of internal procedures using host-associated scalars/arrays/sizes, '
                'member functions, nested member calls, shadowing locals.',
                functions=['outline_pragma_regions / outline_region', 'extract_internal_procedures'],
                bounds=dict(COMMON_BOUNDS), assumptions=COMMON_ASSUME),
    'C34': dict(rule=RULE + '. Families: caller + callee pairs, entry = caller: derived-type argument expansion (components read/written, nested '
                'components, keyword calls), sequence association (element start, 2-D element, whole/section), explicit shapes for '
                'assumed-shape dummies, duplicate argument removal (recurse / rename variants).',
                functions=['DerivedTypeArgumentsTransformation', 'do_resolve_sequence_association', 'ArgumentArrayShapeAnalysis',
                           'ExplicitArgumentArrayShapeTransformation', 'RemoveDuplicateArgs'],
                bounds=dict(COMMON_BOUNDS, outside='TypeboundProcedureCallTransformation (type-bound calls are not interpreted), arrays of derived types'),
                assumptions=COMMON_ASSUME),
    'C37': dict(rule=RULE + '. Families: driver + kernel(s) call trees (vertical recurrence, 2-D/1-D temporaries, vector-section notation, '
                'conditionals in the horizontal loop, mixed loop order, nested kernel) x SCC pipelines {V-vector, S-vector, V-hoist, S-hoist, '
                'no-directive} applied with scheduler items exactly as the repository tests do; entry = driver; pragmas are comments.',
                functions=['SCCVVectorPipeline', 'SCCSVectorPipeline', 'SCCVHoistPipeline', 'SCCSHoistPipeline', 'SCCBase/Devector/Demote/Revector/Annotate/Hoist transformations'],
                bounds=dict(COMMON_BOUNDS, sizes='nlon 2-3, nz 2-3, nb 1-2', outside='CUF / low-level pipelines, anything needing an accelerator compiler'),
                assumptions=COMMON_ASSUME),
    'C38': dict(rule=RULE + '. Families: the C37 call trees that have temporaries x {V-hoist, S-hoist, stack direct-index (V/S), stack Fortran-pointer, raw stack}; '
                'entry = driver; "enough storage on every path" = no out-of-bounds trap on the stack/hoisted arrays for any input; '
                'plus TemporariesPoolAllocatorTransformation (with and without check_bounds) driven by the real Scheduler on 5 call trees '
                '(same kernel called twice with different sizes in both orders, three calls, two different callees, 4-byte / logical '
                'temporaries): the interpreter follows the integer address arithmetic of the Cray pointers (LOC, C_SIZEOF, ISHFT; a pointee '
                'is given the region [address, address + size)), a region that leaves the scratch array or overlaps a live region traps, '
                'the generated STOP aborts; replay with gfortran -fcray-pointer -fsanitize=address.',
                functions=['SCCHoistTemporaryArraysTransformation', 'HoistTemporaryArraysAnalysis', 'DirectIdxStackTransformation', 'FtrPtrStackTransformation',
                           'TemporariesRawStackTransformation', 'TemporariesPoolAllocatorTransformation (Cray-pointer variant)'],
                bounds=dict(COMMON_BOUNDS, sizes='nlon 2-3, nz/klev 2-3, nb 1-2', outside='cray_ptr_loc_rhs / C_F_POINTER variants of the pool allocator, '
                            'element sizes other than gfortran x86-64 defaults'),
                assumptions=COMMON_ASSUME),
}

META['C36'] = dict(
    rule=('each Fortran template x size instance (quick: first size instance; thorough: all): the real FortranPythonTransformation '
          '(+ pygen) is run on the freshly parsed routine; the ORIGINAL is interpreted with Fortran semantics, the GENERATED '
          'function (Python ast) with Python/numpy semantics (true division, dynamic typing of names, zero-based/wrapping/IndexError '
          'indexing, dtype-preserving stores, name rebinding, NameError on undefined callables) on the same symbolic inputs, called '
          'the way the repository tests call it; z3 decides whether any input makes a returned scalar or an array element differ '
          'or the Python function raise; sat models are replayed: gfortran build of the original vs CPython+numpy run of the '
          'generated module (relative tolerance 1e-6 on reals).'),
    functions=['FortranPythonTransformation.transform_subroutine', 'pygen / PyCodegen / PyCodeMapper', 'shift_to_zero_indexing',
               'replace_intrinsics', 'convert_to_lower_case'],
    bounds=dict(COMMON_BOUNDS, outside='with_dace / invert_indices variants, derived-type arguments, real32 rounding (reals are compared '
                'as exact values, replay tolerance 1e-6), integer overflow of np.int32 (|v| <= 6), exponents outside -3..3, '
                'SELECT CASE / WHERE / EXIT (no pygen handler: not in the transpilable subset)'),
    assumptions=COMMON_ASSUME + ['executions in which the original reads a variable before defining it are excluded',
                                 'numpy semantics as modelled in vlib/fsmt/pysem.py; every counterexample is confirmed by CPython+numpy'])

META['C35'] = dict(
    rule=('each Fortran template x size instance (quick: first size instance; thorough: all): the real FortranCTransformation and '
          'FortranISOCWrapperTransformation are run on the freshly parsed routine as in the repository tests; the ORIGINAL is '
          'interpreted with Fortran semantics, the GENERATED kernel (own C parser over the emitted text) with C semantics (static '
          'types with converting stores, truncating int division and %, usual arithmetic conversions, short-circuit logicals as int, '
          'flat zero-based arrays whose bounds come from the Fortran shapes, by-pointer scalars) on the same symbolic inputs; z3 decides '
          'whether any input makes an output differ or a subscript leave its array; a kernel that gcc rejects is a violation; sat '
          'models are replayed END TO END: gfortran build of the original vs gfortran build of the generated ISO-C wrapper calling the '
          'gcc-compiled kernel (ASan/UBSan), relative tolerance 1e-6.  WRAPPER obligations (group iso-c-wrapper, every template + '
          'kernels with derived-type arguments of every intent): the generated wrapper is re-read by the frontend and interpreted with '
          'the bind(c) routine replaced by a nondeterministic stub that records what it receives and overwrites everything passed by '
          'reference (except what the original declares INTENT(IN)) with fresh symbols; z3 / term identity decides that every input '
          'reaches the stub unchanged, that every OUT / INOUT argument holds what the stub wrote, and the wrapper must not assign '
          'to an INTENT(IN) dummy; TRANSFER between interoperable derived types = componentwise copy.'),
    functions=['FortranCTransformation.transform_subroutine', 'cgen / CCodegen / CCodeMapper',
               'FortranISOCWrapperTransformation / generate_iso_c_wrapper_routine (symbolic marshalling check + replay)',
               'shift_to_zero_indexing', 'flatten_arrays', 'resolve_vector_notation (as used by the transformation)', 'replace_intrinsics'],
    bounds=dict(COMMON_BOUNDS, outside='kernel BODIES that use derived-type arguments (csem has no struct model: their wrapper is checked, '
                'their kernel only in the replay of a wrapper counterexample), cpp / cuda language variants, inlined kernels and '
                'global variables, int overflow, float rounding (doubles are exact reals), use_c_ptr wrappers'),
    assumptions=COMMON_ASSUME + ['executions in which the original reads a variable before defining it are excluded',
                                 'C semantics as modelled in vlib/fsmt/csem.py; every counterexample is confirmed by gcc + gfortran',
                                 'wrapper stub contract: the C kernel writes nothing that the original declares INTENT(IN)'])
