"""C37 -- SCC pipelines / temporaries preserve driver results (translation validation, templates vlib/corpus/c37.py)."""
from vlib.tv import run_tv, replay_tv
from vlib.corpus.c37 import c37_cases as cases
from checks._tvmeta import META

PROP = 'C37'


def run(tier, seed):
    return run_tv(PROP, tier, seed, cases(), **META[PROP])


def replay(path):
    return replay_tv(path, cases())
