"""C11 -- expression equality is symmetric, case-insensitive and hash-consistent (CrossHair, pool-indexed)."""
from vlib.xhcheck import run_xh, replay_xh
import harness.C11_expr_eq as H

PROP = 'C11'


def run(tier, seed):
    text, funcs = H.generate(tier)
    return run_xh(
        PROP, tier, seed, 'C11_expr_eq', text, funcs, lambda f, c: f'expr-eq:{f}',
        rule=('CrossHair conditions over two symbolic indices into a pool of 45 expression nodes of every kind (typed / deferred symbols, '
              'arrays with subscripts, derived-type members, sums, products, quotients, powers, comparisons, logicals, inline calls, '
              'casts with and without kind, ranges, loop ranges, string / float / logical literals, parenthesised nodes, literal lists) in '
              'spellings differing in letter case: symmetry, case-insensitivity, equal => equal hash, != is the negation, usability as '
              'dict keys; IntLiteral / FloatLiteral laws with symbolic values and kinds; the 1:n == n shortcut is the only cross-kind '
              'equality.  The solver contributes path feasibility and exhaustiveness accounting for the pool part, arithmetic for '
              'the literal part.'),
        functions=['StrCompareMixin.__eq__/__hash__', 'IntLiteral/FloatLiteral/LogicLiteral/StringLiteral __eq__/__hash__',
                   'Range/RangeIndex equality', 'InlineCall.__hash__', 'Cast'],
        bounds={'pool': 45, 'quick': 'pairs with 0 <= b - a <= 2 (case variants are adjacent in the pool)', 'literal_values': '-5..5'},
        assumptions=['pool classes (which entries denote the same expression) are fixed in harness/C11_expr_eq.py'],
        timeout_quick=150, timeout_thorough=600)


def replay(path):
    text, _ = H.generate('thorough')
    return replay_xh(path, 'C11_expr_eq', text)
