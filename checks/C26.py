r"""C26 -- dataflow def/use/live sets over-approximate actual reads and writes.
C27 (same machinery, see checks/C27.py) -- dependency queries.

The real dataflow_analysis_attached() annotates the routine; the SAME node objects are then executed by the symbolic
interpreter with the event layer switched on: every read/write of a variable of the entry routine (also through
callee dummies, sections, associate names: events are attributed by storage identity) is recorded with its path
condition and the stack of IR nodes being executed.  For every node instance n and variable v:
   v \notin n.defines_symbols  and  sat(assume /\ written(n, v))                      -> violation
   v \notin n.uses_symbols     and  sat(assume /\ read-before-written-within(n, v))   -> violation
   v \notin n.live_symbols     and  sat(assume /\ written-before(n, v) /\ executes(n)) -> violation
Only the over-approximation direction is checked.  Replay = the solver model is pushed through a concrete run of the
same interpreter (all inputs fixed) and the offending event must occur.
"""
import json
import z3

from loki import ir
from loki.analyse import dataflow_analysis_attached

from vlib.common import Ctx, pmap
from vlib.fsmt.sem import Sem
from vlib.fsmt.expr import NotEncoded
from vlib.fsmt.interp import Interp
from vlib.fsmt.equiv import Prog
from vlib.fsmt.solve import check, model_value2
from vlib.corpus.c26 import sources

PROP = 'C26'
SIZES = [{'n': 3}, {'n': 4}]
CHECKED = (ir.Assignment, ir.ConditionalAssignment, ir.Loop, ir.WhileLoop, ir.Conditional, ir.MultiConditional,
           ir.MaskedStatement, ir.CallStatement, ir.Associate)


def names_of(symbols):
    out = set()
    for s in symbols:
        n = s.name.lower()
        out.add(n)
        out.add(n.split('%')[0])
    return out


def same_elem(i1, i2):
    if i1 is None or i2 is None:
        return z3.BoolVal(True)
    if len(i1) != len(i2):
        return z3.BoolVal(True)
    return z3.And(*[a == b for a, b in zip(i1, i2)])


def analyse(item):
    name, src, sizes, enrich = item
    res = {'case': name, 'sizes': sizes, 'enriched': enrich, 'queries': 0, 'solver_s': 0.0, 'violations': [], 'nodes': 0}
    p = Prog.from_source(src, 'k')
    if not enrich:
        for c in [n for n in __import__('loki').FindNodes(ir.CallStatement).visit(p.entry.body)]:
            pass
    routine = p.entry
    sem = Sem('real')
    events = []
    try:
        with dataflow_analysis_attached(routine):
            it = Interp(sem, p.routines, p.modules, sizes, events=events)
            it.int_bound = 6
            fr = it.run_entry(routine)
            assume = list(sem.ranges) + list(sem.defined) + [z3.Not(it.trap), z3.Not(it.unwind_violation)]
            # loop induction variables: by Loki's documented convention "not considered outside the loop" -> exempt
            induction = {l.variable.name.lower() for l in __import__('loki').FindNodes(ir.Loop).visit(routine.body)}
            # collect node instances
            sets = {}
            for ev in events:
                assoc = {}
                for node, inst, npc in ev[4]:
                    if isinstance(node, ir.Associate) and not isinstance(inst, tuple):
                        for sel, nm in node.associations:
                            if hasattr(sel, 'name'):
                                assoc[nm.name.lower()] = sel.name.lower().split('%')[0]
                    if isinstance(inst, tuple) or not isinstance(node, CHECKED):
                        continue
                    key = (id(node), inst)
                    if key not in sets:
                        def tr(names, _assoc=dict(assoc), _node=node):
                            if isinstance(_node, ir.Associate):
                                return names
                            out = set(names)
                            for _ in range(3):
                                out |= {_assoc[n] for n in out if n in _assoc}
                            return out
                        sets[key] = {'node': node, 'defs': tr(names_of(node.defines_symbols)), 'uses': tr(names_of(node.uses_symbols)),
                                     'live': tr(names_of(node.live_symbols)), 'repr': repr(node)[:70], 'inst': inst, 'pc': npc,
                                     'stack': ev[4][:[i for i, x in enumerate(ev[4]) if x[0] is node and x[1] == inst][0] + 1]}
            res['nodes'] = len(sets)
            per = {k: [] for k in sets}
            first_index = {}
            for t, ev in enumerate(events):
                for node, inst, npc in ev[4]:
                    key = (id(node), inst)
                    if key in per:
                        per[key].append((t, ev))
                        first_index.setdefault(key, t)
            done = set()

            def report(info, kind_, name_, cs, extra=''):
                sigkey = (info['repr'], kind_, name_, extra)
                if sigkey in done:
                    return
                r, m, dt = check(assume + [z3.Or(*cs)], 10000)
                res['queries'] += 1
                res['solver_s'] += dt
                if r == 'sat':
                    done.add(sigkey)
                    res['violations'].append({'node': info['repr'], 'set': kind_ + '_symbols', 'variable': name_, 'class': extra,
                                              'node_type': type(info['node']).__name__,
                                              'model': {n: model_value2(m, v) for n, v in it.inputs.items()}})

            for key, evs in per.items():
                info = sets[key]
                written = {}   # name -> list of (idx, guard)
                cond_def, cond_use = {}, {}
                for t, (kind, name, idx, guard, stack) in evs:
                    if kind == 'w':
                        cond_def.setdefault(name, []).append(guard)
                        written.setdefault(name, []).append((idx, guard))
                    else:
                        prior = [z3.And(g, same_elem(idx, i)) for i, g in written.get(name, [])]
                        c = z3.And(guard, z3.Not(z3.Or(*prior))) if prior else guard
                        cond_use.setdefault(name, []).append(c)
                for kind_, conds, have in (('defines', cond_def, info['defs']), ('uses', cond_use, info['uses'])):
                    for name_, cs in conds.items():
                        base = name_.split('%')[0]
                        if name_ in have or base in have or base in induction:
                            continue
                        report(info, kind_, name_, cs)
                # live: a feasible earlier write on the SAME execution that reaches this node instance
                t0 = first_index.get(key)
                if t0 is not None:
                    my_iters = {(id(n_), i_) for n_, i_, _ in info['stack'] if isinstance(i_, tuple)}
                    my_loops = {id(n_) for n_, i_, _ in info['stack'] if isinstance(i_, tuple)}
                    before, carried = {}, {}
                    for kind, name, idx, guard, stack in events[:t0]:
                        if kind != 'w':
                            continue
                        ev_iters = {(id(n_), i_) for n_, i_, _ in stack if isinstance(i_, tuple)}
                        is_carried = any(lid in my_loops for lid, _ in ev_iters) and not ev_iters <= my_iters
                        (carried if is_carried else before).setdefault(name, []).append(z3.And(guard, info['pc']))
                    for name_, cs in before.items():
                        base = name_.split('%')[0]
                        if name_ in info['live'] or base in info['live'] or base in induction:
                            continue
                        report(info, 'live', name_, cs)
                    for name_, cs in carried.items():
                        base = name_.split('%')[0]
                        if name_ in info['live'] or base in info['live'] or base in induction or name_ in before:
                            continue
                        report(info, 'live', name_, cs, 'value-from-previous-iteration')
            res['events'] = len(events)
    except NotEncoded as ex:
        res['notenc'] = str(ex)
    return res


def run(tier, seed):
    ctx = Ctx(PROP, tier, seed, 'model_checking')
    ctx.rule = ('every template routine (straight-line, conditionals, loops, nested loops, SELECT CASE, WHERE/ELSEWHERE, ASSOCIATE, '
                'section assignments, calls to enriched routines with every intent incl. none, calls in loops, while loops, early exit) '
                'x size instance: dataflow_analysis_attached on the real routine, symbolic execution of the same nodes with read/write '
                'events, one z3 feasibility query per (node, set, variable) that is NOT in the reported set; non-trivial = node '
                'instance with at least one event')
    ctx.functions = ['loki.analyse.dataflow_analysis.DataflowAnalysisAttacher (all visit_* transfer rules)', 'dataflow_analysis_attached']
    ctx.bounds = {'extents': 'n in {3,4}', 'values': 'ints |v|<=6, reals unbounded', 'unwinding': '6', 'outside': 'under-approximation '
                  '(extra members never alarm), un-enriched calls, pointers'}
    ctx.assumptions = ['events are attributed to variables of the entry routine by storage identity (dummy association, sections, associate names)',
                       'Fortran semantics of vlib/fsmt/interp.py']
    items = []
    for name, src in sources():
        for sz in (SIZES if tier == 'thorough' else SIZES[:1]):
            items.append((name, src, sz, True))
    for res in pmap(analyse, items):
        if 'notenc' in res:
            ctx.not_encoded.append(f"{res['case']}: {res['notenc']}")
            continue
        ctx.solver_s += res['solver_s']
        ctx.verdict('unsat-or-member', res['nodes'] * 3)
        for k in range(res['nodes']):
            ctx.obligation(f"{res['case']}@{res['sizes']}#{k}")
        ctx.sample({'case': res['case'], 'node_instances': res['nodes'], 'events': res.get('events'), 'feasibility_queries': res['queries'],
                    'violations': len(res['violations'])})
        for v in res['violations']:
            ctx.verdict('sat')
            sig = f"dataflow:{v['set']}{':' + v['class'] if v.get('class') else ''}:{v['node_type']}:{res['case'].replace('~case', '')}:{v['variable'].lower()}"
            ctx.candidate(sig, f"{res['case']}: node {v['node']} executes a {'write of' if 'defines' in v['set'] else 'read of' if 'uses' in v['set'] else 'with live'} "
                          f"'{v['variable']}' on input {dict(list(v['model'].items())[:6])} but it is missing from {v['set']}",
                          {'case': res['case'], 'sizes': res['sizes'], **v})
    return ctx.finish()


def replay(path):
    d = json.load(open(path))['replay']
    for name, src in sources():
        if name == d['case']:
            res = analyse((name, src, d['sizes'], True))
            hit = [v for v in res['violations'] if v['variable'] == d['variable'] and v['set'] == d['set']]
            print(hit[:1])
            return 1 if hit else 0
    return 3
