r"""C10 -- loop-range helpers match Fortran DO-loop iteration semantics.

(A) CrossHair executes the real get_pyrange (incl. LokiEvaluationMapper) with symbolic integer bounds, |a|,|b| <= 6/9,
    step swept over a concrete grid; post-condition: the produced sequence equals the Fortran DO sequence.
(B) get_pyrange's source is re-translated (ast -> z3, vlib/pyast.py) on every run and compared with the Fortran trip
    count / k-th value for UNBOUNDED start/stop and each step of the grid.
(C) LoopRange.num_iterations / normalized / iteration_number / iteration_index: the returned trees are encoded and
    compared, for every non-empty loop with |s|,|e|,|st| <= 8, with the Fortran sequence.
"""
import json
import shutil
import z3

from loki.expression import symbols as sym
from loki.expression.symbolic import get_pyrange, iteration_number, iteration_index

from vlib.common import Ctx, pmap
from vlib.corpus import exprs as X
from vlib.fsmt.expr import ExprEnc, NotEncoded
from vlib.fsmt.solve import prove_equal, check, model_value
from vlib.pyast import Exec, SymRange, Obj, Unsupported
from vlib import xh
import harness.C10_pyrange as H

PROP = 'C10'
B = 8


def fortran_values(a, b, c):
    num = b - a + c
    q = abs(num) // abs(c)
    if (num < 0) != (c < 0):
        q = -q
    return [a + k * c for k in range(max(0, q))]


# ---------------------------------------------------------------- (B)

def part_b(ctx, tier):
    steps = [None, -7, -3, -2, -1, 1, 2, 3, 7] if tier == 'quick' else [None] + [c for c in range(-16, 17) if c != 0]
    try:
        ex = Exec(get_pyrange, {'LokiEvaluationMapper': lambda: (lambda x: x), 'floor': lambda x: x,
                                'range': lambda *a: SymRange(*a)})
    except (Unsupported, OSError, SyntaxError) as e:
        ctx.not_encoded.append(f'get_pyrange source not translatable: {e}')
        return
    a, b, k = z3.Ints('a b k')
    for c in steps:
        cv = 1 if c is None else c
        try:
            r = ex.run(loop_range=Obj(start=a, stop=b, step=None if c is None else z3.IntVal(c)))
            if not isinstance(r, SymRange):
                raise Unsupported('does not return a range')
        except Unsupported as e:
            ctx.not_encoded.append(f'get_pyrange(step={c}): {e}')
            continue
        num = b - a + cv
        if cv > 0:
            q = z3.If(num >= 0, num / cv, -((-num) / cv))
        else:
            q = z3.If(num <= 0, (-num) / (-cv), -(num / (-cv)))
        n = z3.If(q > 0, q, 0)
        rv, m, dt = check([z3.Or(r.length() != n, z3.And(0 <= k, k < n, r.item(k) != a + k * cv))], 20000)
        ctx.solver_s += dt
        ctx.verdict(rv)
        ctx.obligation(f'B:get_pyrange:step={c}')
        if rv == 'sat':
            av, bv = model_value(m, a), model_value(m, b)
            lr = sym.LoopRange((sym.IntLiteral(av), sym.IntLiteral(bv))) if c is None else \
                sym.LoopRange((sym.IntLiteral(av), sym.IntLiteral(bv), sym.IntLiteral(c)))
            got, want = list(get_pyrange(lr)), fortran_values(av, bv, cv)
            if got != want:
                sig = 'get_pyrange:' + ('negative-step' if cv < 0 else 'positive-step' if c is not None else 'default-step')
                ctx.candidate(sig, f'get_pyrange({av},{bv},{c}) = {got[:8]}... but DO loop visits {want[:8]}',
                              {'part': 'B', 'a': av, 'b': bv, 'c': c})
            else:
                ctx.unrepro(f'B: model a={av} b={bv} c={c} does not reproduce')
        elif rv == 'unknown':
            ctx.inconcl(f'B: get_pyrange step={c}')
        else:
            ctx.sample({'part': 'B', 'step': c, 'claim': 'len and k-th element equal Fortran DO semantics for all integers a,b',
                        'verdict': rv})


# ---------------------------------------------------------------- (C)

def loop_forms(tier):
    s, e, st = (X.V(n, X.INT_T) for n in ('s', 'e', 'st'))
    L = sym.IntLiteral
    forms = [('s:e:st', (s, e, st)), ('s:e', (s, e)), ('1:e', (L(1), e)), ('0:e', (L(0), e)), ('s:7', (s, L(7)))]
    lits = [-3, -2, -1, 1, 2, 3] if tier == 'quick' else [-5, -4, -3, -2, -1, 1, 2, 3, 4, 5]
    for c in lits:
        # the frontend encodes negative literals as Product(-1, lit)
        cl = L(c) if c > 0 else sym.Product((-1, L(-c)))
        forms.append((f's:e:{c}', (s, e, cl)))
        forms.append((f'1:e:{c}', (L(1), e, cl)))
        forms.append((f's:e:IntLiteral({c})', (s, e, L(c))))
    forms.append(('3:e:st', (L(3), e, st)))
    forms.append(('s+1:e-1:st', (sym.Sum((s, L(1))), sym.Sum((e, sym.Product((-1, L(1))))), st)))
    forms.append(('s:2*e:2', (s, sym.Product((L(2), e)), L(2))))
    return forms


FORMS = []


def obligations(form_idx):
    name, parts = FORMS[form_idx]
    lr = sym.LoopRange(parts)
    i, k = X.V('i', X.INT_T), X.V('k', X.INT_T)
    out = []

    def common(sem):
        env = {n: sem.int_var(n, B) for n in ('s', 'e', 'st', 'i', 'k')}
        enc = ExprEnc(sem, env)
        S, E = enc.enc(lr.start), enc.enc(lr.stop)
        ST = enc.enc(lr.step) if lr.step is not None else sem.int_lit(1)
        N = sem.tdiv(sem.add(sem.sub(E, S), ST), ST)   # (e - s + st)/st, truncating
        return env, enc, S, E, ST, N

    def nonempty(sem, env, ST, N):
        return [ST != 0, N >= 1]

    def run(label, mk):
        """mk(sem) -> (t1, t2, env, extra_constraints)"""
        box = {}

        def build(sem):
            t1, t2, env, extra = mk(sem)
            box[id(sem)] = extra
            return t1, t2, env
        try:
            r = prove_equal(build, timeout_ms=10000, extra=lambda sem, env: box[id(sem)])
        except NotEncoded as ex:
            return {'form': name, 'ob': label, 'verdict': 'notenc', 'why': str(ex)}
        return {'form': name, 'ob': label, 'verdict': r['verdict'], 'model': r.get('model'), 'v1': r.get('v1'),
                'v2': r.get('v2'), 'seconds': r['seconds'], 'mode': r['mode'], 'structural': r['structural']}

    def mk_num(sem):
        env, enc, S, E, ST, N = common(sem)
        return enc.enc(lr.num_iterations), N, env, nonempty(sem, env, ST, N)
    out.append(run('num_iterations == trip count', mk_num))

    def mk_norm(sem):
        env, enc, S, E, ST, N = common(sem)
        nz = lr.normalized
        ok = nz.step is None and str(nz.start) == '1'
        t = enc.enc(nz.stop) if ok else sem.int_lit(-999)
        return t, N, env, nonempty(sem, env, ST, N)
    out.append(run('normalized == 1:trip count', mk_norm))

    def mk_itnum(sem):
        env, enc, S, E, ST, N = common(sem)
        t = enc.enc(iteration_number(i, lr))
        K = env['k']
        ik = sem.add(S, sem.mul(sem.sub(K, sem.int_lit(1)), ST))
        return t, K, env, nonempty(sem, env, ST, N) + [K >= 1, K <= N, env['i'] == ik]
    out.append(run('iteration_number(k-th visited value) == k', mk_itnum))

    def mk_itidx(sem):
        env, enc, S, E, ST, N = common(sem)
        t = enc.enc(iteration_index(k, lr))
        K = env['k']
        ik = sem.add(S, sem.mul(sem.sub(K, sem.int_lit(1)), ST))
        return t, ik, env, nonempty(sem, env, ST, N) + [K >= 1, K <= N]
    out.append(run('iteration_index(k) == k-th visited value', mk_itidx))

    def mk_round(sem):
        env, enc, S, E, ST, N = common(sem)
        t = enc.enc(iteration_index(iteration_number(i, lr), lr))
        K = env['k']
        ik = sem.add(S, sem.mul(sem.sub(K, sem.int_lit(1)), ST))
        return t, env['i'], env, nonempty(sem, env, ST, N) + [K >= 1, K <= N, env['i'] == ik]
    out.append(run('iteration_index(iteration_number(i)) == i', mk_round))
    return out


def replay_c(rec):
    """evaluate the helper tree concretely (LokiEvaluationMapper-free: python ints with truncating division)"""
    name, parts = [f for f in FORMS if f[0] == rec['form']][0]
    m = rec['model']
    s, e, st = m.get('s', 0), m.get('e', 0), m.get('st', 1)

    def val(x):
        from vlib.fsmt.sem import Sem  # pylint: disable=import-outside-toplevel
        sem = Sem()
        env = {n: sem.int_lit(m.get(n, 0)) for n in ('s', 'e', 'st', 'i', 'k')}
        return z3.simplify(ExprEnc(sem, env).enc(x)).as_long()
    lr = sym.LoopRange(parts)
    S, E = val(lr.start), val(lr.stop)
    ST = val(lr.step) if lr.step is not None else 1
    seq = fortran_values(S, E, ST)
    i, k = X.V('i', X.INT_T), X.V('k', X.INT_T)
    ob = rec['ob']
    if ob.startswith('num_iterations'):
        got, want = val(lr.num_iterations), len(seq)
    elif ob.startswith('normalized'):
        got, want = val(lr.normalized.stop), len(seq)
    elif ob.startswith('iteration_number'):
        got, want = val(iteration_number(i, lr)), m['k']
    elif ob.startswith('iteration_index(k)'):
        got, want = val(iteration_index(k, lr)), seq[m['k'] - 1]
    else:
        got, want = val(iteration_index(iteration_number(i, lr), lr)), m['i']
    return got != want, f'{rec["form"]} with s={S} e={E} st={ST} visits {seq}; {ob}: helper gives {got}, expected {want} (k={m.get("k")}, i={m.get("i")})'


def classify_c(rec):
    neg = (rec['model'] or {}).get('st', 1) < 0 or ':-' in rec['form']
    return f"{rec['ob'].split('(')[0].split(' ')[0]}:{'negative-step' if neg else 'positive-step'}"


# ---------------------------------------------------------------- run

def run(tier, seed):
    global FORMS  # pylint: disable=global-statement
    ctx = Ctx(PROP, tier, seed, 'model_checking')
    ctx.rule = ('(A) one CrossHair condition per step of a concrete grid with symbolic start/stop executing the real '
                'get_pyrange; (B) one z3 query per step over unbounded start/stop on the ast->z3 translation of '
                'get_pyrange; (C) five z3 obligations per loop-range form (symbolic and literal bounds/steps) on the trees '
                'returned by num_iterations/normalized/iteration_number/iteration_index; non-trivial = every obligation '
                '(each has a reachability twin or a satisfiable non-emptiness assumption)')
    ctx.functions = ['loki.expression.symbolic.get_pyrange (CrossHair + ast->z3)', 'loki.expression.evaluation.LokiEvaluationMapper (CrossHair)',
                     'loki.expression.symbols.LoopRange.num_iterations/normalized', 'loki.expression.symbolic.iteration_number',
                     'loki.expression.symbolic.iteration_index', 'loki.expression.symbolic.simplify (as used by the helpers)']
    ctx.bounds = {'A': '|start|,|stop| <= 6 (quick) / 9 (thorough); steps -3..3 / -5..5', 'B': 'start/stop unbounded integers; steps grid',
                  'C': f'|s|,|e|,|st|,|i|,|k| <= {B}, non-empty loops only', 'outside': 'non-integer bounds, overflow'}
    ctx.assumptions = ['(B) models LokiEvaluationMapper on IntLiteral as the identity and math.floor on ints as identity (exercised for real in (A))',
                       'CPython range length/element formulas (Objects/rangeobject.c)']
    # (A)
    text, funcs = H.generate(tier)
    res, twins, d = xh.run_conditions('C10_pyrange', funcs, 60 if tier == 'quick' else 240, text=text)
    try:
        for r, t in zip(res, twins):
            ctx.verdict('xh-' + r['verdict'])
            ctx.solver_s += r['seconds']
            ctx.obligation('A:' + r['func'])
            if t['verdict'] != 'refuted':
                ctx.inconcl(f"A: reachability twin of {r['func']} not refuted ({t['verdict']}): condition may be vacuous")
            if r['verdict'] == 'confirmed':
                ctx.sample({'part': 'A', 'condition': r['func'], 'verdict': 'Confirmed over all paths', 'twin': t['verdict']})
            elif r['verdict'] == 'refuted':
                ok, msg = xh.replay_call('C10_pyrange', r['call'], d)
                if ok:
                    neg = '_m' in r['func']
                    ctx.candidate('get_pyrange:' + ('negative-step' if neg else 'positive-step' if '_p' in r['func'] else 'default-step'),
                                  f"{r['call']}: {msg}", {'part': 'A', 'call': r['call']})
                else:
                    ctx.unrepro(f"A: {r['call']}: {msg}")
            else:
                ctx.inconcl(f"A: {r['func']}: {r['verdict']} {r['message'][:100]}")
    finally:
        shutil.rmtree(d, ignore_errors=True)
    # (B)
    part_b(ctx, tier)
    # (C)
    FORMS = loop_forms(tier)
    modes = {}
    for recs in pmap(obligations, list(range(len(FORMS)))):
        for rec in recs:
            if rec['verdict'] == 'notenc':
                ctx.not_encoded.append(f"C: {rec['form']} {rec['ob']}: {rec['why']}")
                continue
            ctx.verdict(rec['verdict'])
            ctx.solver_s += rec['seconds']
            ctx.obligation(f"C:{rec['form']}:{rec['ob']}")
            md = 'structural(t!=t)' if rec['structural'] else rec['mode']
            modes[md] = modes.get(md, 0) + 1
            if rec['verdict'] == 'unsat':
                if len(ctx.samples) < 12:
                    ctx.sample({'part': 'C', 'form': rec['form'], 'obligation': rec['ob'], 'verdict': 'unsat', 'encoding': md})
            elif rec['verdict'] == 'unknown':
                ctx.inconcl(f"C: {rec['form']} {rec['ob']}")
            else:
                ok, msg = replay_c(rec)
                if ok:
                    ctx.candidate(classify_c(rec), msg, {'part': 'C', **{k: rec[k] for k in ('form', 'ob', 'model')}})
                else:
                    ctx.unrepro(f'C: {msg}')
    ctx.extra['queries_by_encoding_C'] = modes
    return ctx.finish()


def replay(path):
    global FORMS  # pylint: disable=global-statement
    d = json.load(open(path))['replay']
    if d['part'] == 'B':
        c = d['c']
        lr = sym.LoopRange((sym.IntLiteral(d['a']), sym.IntLiteral(d['b']))) if c is None else \
            sym.LoopRange((sym.IntLiteral(d['a']), sym.IntLiteral(d['b']), sym.IntLiteral(c)))
        got, want = list(get_pyrange(lr)), fortran_values(d['a'], d['b'], 1 if c is None else c)
        print(got, want)
        return 1 if got != want else 0
    if d['part'] == 'A':
        text, _ = H.generate('thorough')
        dd = xh.materialise('C10_pyrange', text)
        try:
            ok, msg = xh.replay_call('C10_pyrange', d['call'], dd)
        finally:
            shutil.rmtree(dd, ignore_errors=True)
        print(msg)
        return 1 if ok else 0
    FORMS = loop_forms('thorough')
    ok, msg = replay_c(d)
    print(msg)
    return 1 if ok else 0
