r"""C19 (partial: single-line statement recognition) -- the regex frontend finds what the full parser finds.

For each single-line Pattern of loki/frontend/regex.py (imports, calls, procedure / generic bindings, procedure
statements in interfaces) the LIVE compiled pattern is translated to a z3 regular expression (vlib/rx.py) and compared
with a REFERENCE language of the statement class, written here from the Fortran 2008 grammar over a small lexical pool
(identifiers, blanks, letter case):

  complete   L(reference statement) \ L(pattern)  must be empty   (every valid statement of the class is recognised)
  exclusive  L(other statement kinds) /\ L(pattern) must be empty (nothing else is mistaken for the class)

z3 decides both over ALL lines up to the length bound; a model is a concrete source line, which is embedded in a
compilable unit and read by Frontend.REGEX and by Frontend.FP; it is a violation iff the two frontends report different
entities of that class (call targets, imports with only/rename lists, bindings).  A model the full parser rejects is
not a valid statement: it is blocked and the query is repeated.
"""
import json
import re
import z3

from loki import Sourcefile, Frontend
from loki import ir
from loki.ir import FindNodes
import loki.frontend.regex as RX

from vlib.common import Ctx
from vlib.rx import search_language, RxUnsupported
from vlib.fsmt.solve import check

PROP = 'C19'
MAXLEN = 48
MAX_MODELS = 8

ID = r'[a-z][a-z0-9_]{0,6}'
B0 = r' {0,2}'
B1 = r' {1,2}'

# ------------------------------------------------------------------------------------------- reference grammars
REF = {
    # R1109 use-stmt (module nature, optional ::, rename list, only list with renames and generic specs)
    'use': (rf'use(?:{B0},{B0}(?:intrinsic|non_intrinsic){B0}::{B0}|{B0}::{B0}|{B1}){ID}'
            rf'(?:{B0},{B0}only{B0}:{B0}(?:{ID}(?:{B0}=>{B0}{ID})?(?:{B0},{B0}{ID}(?:{B0}=>{B0}{ID})?)?)?'
            rf'|{B0},{B0}{ID}{B0}=>{B0}{ID}(?:{B0},{B0}{ID}{B0}=>{B0}{ID})?)?'),
    # R1220 call-stmt, optionally as the action of an IF statement
    'call': (rf'(?:if{B0}\({B0}(?:{ID}|{ID}{B0}>{B0}0|\({ID}\)){B0}\){B0})?call{B1}{ID}(?:%{ID}){{0,2}}'
             rf'(?:{B0}\((?:{ID}|[0-9]|\'[a-z ()]{{0,6}}\')?(?:,{B0}{ID})?\))?'),
    # R448 type-bound-procedure-stmt
    'procedure-binding': (rf'procedure(?:(?:{B0},{B0}(?:pass|nopass|non_overridable|public|private|pass{B0}\({ID}\))){{0,2}}(?:{B0}::{B0}|{B1})'
                          rf'{ID}(?:{B0}=>{B0}{ID})?(?:{B0},{B0}{ID}(?:{B0}=>{B0}{ID})?)?'
                          rf'|{B0}\({B0}{ID}{B0}\){B0},{B0}deferred(?:{B0},{B0}(?:pass|nopass|public|private))?{B0}::{B0}{ID}(?:{B0},{B0}{ID})?)'),
    # R452 type-bound-generic-stmt
    'generic-binding': rf'generic(?:{B0},{B0}(?:public|private))?{B0}::{B0}{ID}{B0}=>{B0}{ID}(?:{B0},{B0}{ID})?',
    # R1206 procedure-stmt inside an interface block
    'procedure-stmt': rf'(?:module{B1})?procedure(?:{B0}::{B0}|{B1}){ID}(?:{B0},{B0}{ID})?',
}
# statements of OTHER kinds that begin with (or contain) the class keyword: must not be matched by the class pattern
OTHER = {
    'call': (rf'(?:if{B0}\({B0}{ID}{B0}\){B0})?(?:call|if)[a-z0-9_]{{0,5}}{B0}={B0}(?:[0-9]|{ID})(?:{B0}\+{B0}[0-9])?'
             rf'|print{B0}\*,{B0}\'call [a-z]{{1,4}}\'|(?:call|if)[a-z0-9_]{{1,5}}%{ID}{B0}={B0}[0-9]'),
    'use': rf'use[a-z0-9_]{{0,5}}{B0}={B0}(?:[0-9]|{ID})|use[a-z0-9_]{{0,4}}%{ID}{B0}={B0}[0-9]|print{B0}\*,{B0}\'use [a-z]{{1,4}}\'',
}


def pattern_of(kind):
    cls = {'use': RX.ImportPattern, 'call': RX.CallPattern, 'procedure-binding': RX.ProcedureBindingPattern,
           'generic-binding': RX.GenericBindingPattern, 'procedure-stmt': RX.ProcedureStatementPattern}[kind]
    return cls().pattern


# ------------------------------------------------------------------------------------------- concrete comparison
def skeleton(kind, line):
    if kind in ('use', ):
        return f'subroutine t(n)\n  {line}\n  integer :: n\n  n = 1\nend subroutine t\n', 't'
    if kind == 'call':
        return f'subroutine t(n)\n  integer :: n\n  n = 1\n  {line}\n  n = 2\nend subroutine t\n', 't'
    if kind in ('procedure-binding', 'generic-binding'):
        return ('module m\n  type, abstract :: tt\n    integer :: v\n  contains\n    ' + line + '\n  end type tt\nend module m\n'), None
    if kind == 'procedure-stmt':
        return f'module m\n  interface gen\n    {line}\n  end interface gen\nend module m\n', None
    raise KeyError(kind)


def entities(kind, src, frontend):
    sf = Sourcefile.from_source(src, frontend=frontend)
    if frontend == Frontend.REGEX:
        sf.make_complete(frontend=Frontend.REGEX, parser_classes=RX.RegexParserClass.AllClasses)
    if kind == 'call':
        return sorted(str(c.name).lower().replace(' ', '') for c in FindNodes(ir.CallStatement).visit(sf['t'].ir))
    if kind == 'use':
        out = []
        for i in FindNodes(ir.Import).visit(sf['t'].ir):
            syms = sorted((str(s.name).lower(), str(s.type.use_name).lower() if s.type.use_name else None) for s in i.symbols or ())
            ren = sorted((str(a).lower(), str(b.name).lower()) for a, b in (i.rename_list or ()))
            out.append((str(i.module).lower(), syms, ren))
        return sorted(out)
    mod = sf['m']
    if kind in ('procedure-binding', 'generic-binding'):
        td = mod['tt'] if hasattr(mod, '__getitem__') else None
        tds = FindNodes(ir.TypeDef).visit(mod.spec)
        out = []
        for t in tds:
            for d in FindNodes(ir.ProcedureDeclaration).visit(t.body):
                for s in d.symbols:
                    bound = s.type.bind_names
                    tgt = sorted(str(b).lower() for b in bound) if bound else []     # explicit '=> target' names only
                    out.append((str(s.name).lower(), bool(d.generic), tgt))
        _ = td
        return sorted(out)
    if kind == 'procedure-stmt':
        out = []
        for itf in FindNodes(ir.Interface).visit(mod.spec):
            for d in FindNodes(ir.ProcedureDeclaration).visit(itf.body):
                out += [(str(s.name).lower(), bool(d.module)) for s in d.symbols]
        return sorted(out)
    raise KeyError(kind)


def compare(kind, line):
    """(differs: bool|None, detail); None = the full parser rejects the unit (the line is not a valid statement)"""
    src, _ = skeleton(kind, line)
    try:
        want = entities(kind, src, Frontend.FP)
    except Exception as ex:  # pylint: disable=broad-except
        return None, f'FP rejects: {type(ex).__name__}: {str(ex)[:80]}'
    try:
        got = entities(kind, src, Frontend.REGEX)
    except Exception as ex:  # pylint: disable=broad-except
        return True, f'REGEX frontend raises {type(ex).__name__}: {str(ex)[:120]} (full parser: {want})'
    if got != want:
        return True, f'REGEX frontend reports {got}, full parser {want}'
    return False, f'both report {want}'


def classify(kind, mode, line):
    """stable signature of a counterexample line"""
    l = line.lower()
    if kind == 'use':
        if mode == 'complete':
            if '::' in l:
                return 'use-with-double-colon-or-nature'
            return 'use-other'
        return 'non-use-statement'
    if kind == 'call':
        if mode == 'exclusive':
            return 'identifier-starting-with-call' if not l.startswith('print') else 'call-in-literal'
        if l.startswith('if'):
            return 'if-call'
        return 'call-other'
    if kind == 'procedure-binding':
        if re.match(r'procedure *\(', l):
            return 'binding-with-interface-name'
        return 'binding-other'
    return f'{kind}-{mode}'


def translator_selftest():
    samples = ['use m', 'use m, only: a', 'use, intrinsic :: iso_c_binding', 'call foo(x)', 'callback = 1', 'if (n > 0) call s',
               'procedure :: a => b', 'procedure(iface), deferred :: a', 'generic :: g => a, b', 'module procedure p', 'x = 1',
               'USE M, ONLY: A=>B', 'procedure, pass :: p']
    bad = 0
    for kind in REF:
        pat = pattern_of(kind)
        L = search_language(pat)
        for s in samples:
            r, _, _ = check([z3.InRe(z3.StringVal(s), L)], 20000)
            if (r == 'sat') != (pat.search(s) is not None):
                bad += 1
    return bad, len(samples) * len(REF)


def run(tier, seed):
    ctx = Ctx(PROP, tier, seed, 'model_checking')
    ctx.rule = ('per single-line Pattern of the regex frontend and per obligation (complete / exclusive): the live compiled pattern, '
                'translated from re._parser.parse into a z3 regular expression, is compared with a reference language of the statement '
                'class (written from F2008 R1109 / R1220 / R448 / R452 / R1206 over a small lexical pool); z3 decides language inclusion / '
                'disjointness for all lines up to the length bound; a model line is embedded in a unit and read by Frontend.REGEX and '
                'Frontend.FP, violation iff the reported entities differ; models the full parser rejects are blocked and the query is repeated')
    ctx.functions = ['loki.frontend.regex.ImportPattern / CallPattern / ProcedureBindingPattern / GenericBindingPattern / '
                     'ProcedureStatementPattern (compiled patterns + match methods in the replay)', 'parse_regex_source / make_complete (replay)']
    ctx.bounds = {'line_length': f'<= {MAXLEN}', 'identifiers': '[a-z][a-z0-9_]{0,6} (patterns are case-insensitive; upper case in the self-test)',
                  'blanks': '0-2 between tokens', 'models_per_obligation': MAX_MODELS,
                  'outside': 'block patterns (module / subroutine / typedef / interface extents), continuation lines, semicolons, comments '
                             '(handled by the reader before the patterns), order of incremental parser-class requests'}
    ctx.assumptions = ['vlib/rx.py translates the patterns faithfully (self-tested against Python re on every run)',
                       'reference grammars in checks/C19.py; a model rejected by the full parser is not a valid statement']
    bad, n = translator_selftest()
    if bad:
        raise RuntimeError(f'regex translator self-test failed on {bad} sample(s)')
    ctx.traces_validated = n
    obligations = [(k, 'complete', REF[k]) for k in REF] + [(k, 'exclusive', OTHER[k]) for k in OTHER]
    for kind, mode, ref in obligations:
        key = f'{kind}|{mode}'
        pat = pattern_of(kind)
        try:
            LP = search_language(pat)
            LR = search_language(re.compile('^(?:' + ref + ')$', re.IGNORECASE))
        except RxUnsupported as ex:
            ctx.not_encoded.append(f'{key}: {ex}')
            continue
        line = z3.String('line')
        cs = [z3.Length(line) <= MAXLEN, z3.InRe(line, LR)]
        cs.append(z3.Not(z3.InRe(line, LP)) if mode == 'complete' else z3.InRe(line, LP))
        # vacuity: the reference language itself must be inhabited
        rv, _, _ = check([z3.Length(line) <= MAXLEN, z3.InRe(line, LR)], 60000)
        if rv != 'sat':
            raise RuntimeError(f'{key}: reference language empty / undecided ({rv})')
        seen_sigs = set()
        for _ in range(MAX_MODELS):
            r, m, dt = check(cs, 120000)
            ctx.solver_s += dt
            ctx.verdict(r)
            ctx.obligation(key)
            if r == 'unsat':
                ctx.sample({'obligation': key, 'verdict': 'unsat: holds for every line of the reference language (further models excluded)'
                            if seen_sigs else 'unsat: holds for every line of the reference language'})
                break
            if r == 'unknown':
                ctx.inconcl(f'{key}: solver unknown')
                break
            text = m.eval(line, model_completion=True).as_string()
            if (pat.search(text) is not None) != (mode == 'exclusive'):
                ctx.unrepro(f'{key}: model {text!r} does not behave as encoded on the real pattern')
                break
            differs, detail = compare(kind, text)
            cs.append(line != z3.StringVal(text))
            if differs is None:
                ctx.extra.setdefault('models_rejected_by_full_parser', []).append(f'{key}: {text!r}')
                continue
            if differs is False:
                # the pattern over-/under-matches this line but the frontends still agree on the entities (e.g. a later
                # pattern picks the statement up): recorded, not a violation
                ctx.sample({'obligation': key, 'verdict': 'sat but both frontends agree', 'line': text, 'detail': detail})
                continue
            sig = f'regex-frontend:{kind}:{mode}:{classify(kind, mode, text)}'
            if sig in seen_sigs:
                continue
            seen_sigs.add(sig)
            ctx.candidate(sig, f'line {text!r}: {detail}', {'kind': kind, 'line': text})
            # exclude the whole class of this counterexample and look for a different one
            if kind == 'use' and mode == 'complete' and '::' in text:
                cs.append(z3.Not(z3.InRe(line, search_language(re.compile('::')))))
            elif kind == 'procedure-binding' and mode == 'complete' and re.match(r'procedure *\(', text):
                cs.append(z3.Not(z3.InRe(line, search_language(re.compile(r'^procedure *\(', re.I)))))
            elif kind == 'call' and mode == 'exclusive':
                break
    return ctx.finish()


def replay(path):
    d = json.load(open(path))['replay']
    differs, detail = compare(d['kind'], d['line'])
    print(differs, detail)
    return 1 if differs else 0
