"""Generic runner for properties decided by CrossHair conditions (one process per condition, reachability twins,
concrete replay of counterexamples on the real code)."""
import json
import shutil

from vlib.common import Ctx
from vlib import xh


def run_xh(prop, tier, seed, modname, text, funcs, signature, rule, functions, bounds, assumptions,
           timeout_quick=90, timeout_thorough=400, level='model_checking', ctx=None, finish=True, workers=16):
    ctx = ctx or Ctx(prop, tier, seed, level)
    if rule:
        ctx.rule = rule
        ctx.functions = functions
        ctx.bounds = bounds
        ctx.assumptions = assumptions
    to = timeout_quick if tier == 'quick' else timeout_thorough
    res, twins, d = xh.run_conditions(modname, funcs, to, text=text, twin_timeout=max(20, to // 3), workers=workers)
    try:
        for r, t in zip(res, twins):
            ctx.verdict('xh-' + r['verdict'])
            ctx.solver_s += r['seconds']
            twin_ok = t['verdict'] == 'refuted'
            if not twin_ok:
                ctx.inconcl(f"reachability twin of {r['func']} not refuted ({t['verdict']}): condition may be vacuous")
            if r['verdict'] == 'confirmed':
                if twin_ok:
                    ctx.obligation(r['func'])
                ctx.sample({'condition': r['func'], 'verdict': 'Confirmed over all paths', 'reachability_twin': t['verdict'],
                            'witness': t.get('call')})
            elif r['verdict'] == 'refuted':
                ctx.obligation(r['func'])
                ok, msg = xh.replay_call(modname, r['call'], d)
                if ok:
                    ctx.candidate(signature(r['func'], r['call']), f"{r['call']}: {msg}",
                                  {'module': modname, 'call': r['call']})
                else:
                    ctx.unrepro(f"{r['call']}: {msg}")
            else:
                ctx.inconcl(f"{r['func']}: {r['verdict']} {r['message'][:120]}")
    finally:
        shutil.rmtree(d, ignore_errors=True)
    ctx.extra['crosshair'] = {'per_condition_timeout_s': to, 'conditions': len(funcs)}
    return ctx.finish() if finish else ctx


def replay_xh(path, modname, text):
    d = json.load(open(path))['replay']
    dd = xh.materialise(modname, text)
    try:
        ok, msg = xh.replay_call(modname, d['call'], dd)
    finally:
        shutil.rmtree(dd, ignore_errors=True)
    print(d['call'], '->', msg)
    return 1 if ok else 0
