"""Concrete replay helpers: gfortran / gcc / CPython runs in throw-away directories outside /repo and /verif."""
import os
import shutil
import subprocess
import tempfile


def scratch(prefix='verif-'):
    return tempfile.mkdtemp(prefix=prefix, dir=os.environ.get('VERIF_SCRATCH', None))


def run_fortran(sources, std=None, timeout=60, flags=()):
    """sources: list of (filename, text) compiled in order into one executable. Returns (ok, stdout, stderr)."""
    d = scratch()
    try:
        files = []
        for fn, text in sources:
            with open(os.path.join(d, fn), 'w') as f:
                f.write(text)
            files.append(fn)
        cmd = ['gfortran', '-O0', '-ffree-line-length-none', *flags]
        if std:
            cmd.append(f'-std={std}')
        cmd += files + ['-o', 'a.out']
        p = subprocess.run(cmd, cwd=d, capture_output=True, text=True, timeout=timeout)
        if p.returncode != 0:
            return False, '', p.stderr
        env = dict(os.environ, ASAN_OPTIONS='detect_leaks=0')
        r = subprocess.run(['./a.out'], cwd=d, capture_output=True, text=True, timeout=timeout, env=env)
        return r.returncode == 0, r.stdout, r.stderr
    except subprocess.TimeoutExpired:
        return False, '', 'timeout'
    finally:
        shutil.rmtree(d, ignore_errors=True)


def run_c(text, timeout=60, flags=('-lm',)):
    d = scratch()
    try:
        with open(os.path.join(d, 'm.c'), 'w') as f:
            f.write(text)
        p = subprocess.run(['gcc', '-O0', 'm.c', '-o', 'a.out', *flags], cwd=d, capture_output=True, text=True,
                           timeout=timeout)
        if p.returncode != 0:
            return False, '', p.stderr
        r = subprocess.run(['./a.out'], cwd=d, capture_output=True, text=True, timeout=timeout)
        return r.returncode == 0, r.stdout, r.stderr
    except subprocess.TimeoutExpired:
        return False, '', 'timeout'
    finally:
        shutil.rmtree(d, ignore_errors=True)
