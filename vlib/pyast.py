"""Minimal Python-AST -> z3 symbolic executor for small straight-line integer functions of /repo (beyond CrossHair's
reach when the claim should be unbounded).  Supports: assignments, if/else with decidable-or-symbolic tests, return,
integer arithmetic (+ - * // unary -), comparisons, IfExp, attribute access on a dict-like argument, ``is None``,
calls to functions given in ``prims`` (e.g. floor, range, identity evaluators).  Everything else raises Unsupported,
which the caller must report as *not encoded* (never as a pass)."""
import ast
import inspect
import textwrap
import z3


class Unsupported(Exception):
    pass


class SymRange:
    """Python range(start, stop, step) with z3 Int fields; len/element formulas are CPython's (Objects/rangeobject.c)"""

    def __init__(self, start, stop, step=None):
        self.start, self.stop = start, stop
        self.step = step if step is not None else z3.IntVal(1)

    def length(self):
        a, b, c = self.start, self.stop, self.step
        pos = z3.If(a < b, (b - a - 1) / c + 1, z3.IntVal(0))           # c > 0 ; z3 '/' on Int = floor for positive divisor
        neg = z3.If(a > b, (a - b - 1) / (-c) + 1, z3.IntVal(0))         # c < 0
        return z3.If(c > 0, pos, neg)

    def item(self, k):
        return self.start + k * self.step


class Obj:
    def __init__(self, **attrs):
        self.__dict__.update(attrs)


def _ret_merge(c, a, b):
    if isinstance(a, SymRange) and isinstance(b, SymRange):
        return SymRange(z3.If(c, a.start, b.start), z3.If(c, a.stop, b.stop), z3.If(c, a.step, b.step))
    return z3.If(c, a, b)


class Exec:
    def __init__(self, func, prims):
        src = textwrap.dedent(inspect.getsource(func))
        self.tree = ast.parse(src).body[0]
        self.prims = prims
        self.source = src

    def run(self, **args):
        env = dict(args)
        r = self.block(self.tree.body, env)
        if r is None:
            raise Unsupported('function may fall off the end')
        return r

    def block(self, stmts, env):
        for i, st in enumerate(stmts):
            if isinstance(st, ast.Expr) and isinstance(st.value, ast.Constant):
                continue  # docstring
            if isinstance(st, ast.Assign) and len(st.targets) == 1 and isinstance(st.targets[0], ast.Name):
                env[st.targets[0].id] = self.ev(st.value, env)
                continue
            if isinstance(st, ast.Return):
                return self.ev(st.value, env)
            if isinstance(st, ast.If):
                c = self.ev(st.test, env)
                rest = stmts[i + 1:]
                if isinstance(c, bool):
                    return self.block((st.body if c else st.orelse) + rest, dict(env))
                r1 = self.block(st.body + rest, dict(env))
                r2 = self.block(st.orelse + rest, dict(env))
                return _ret_merge(c, r1, r2)
            raise Unsupported(ast.dump(st)[:80])
        return None

    def ev(self, e, env):
        if isinstance(e, ast.Constant):
            if e.value is None:
                return None
            if isinstance(e.value, bool):
                return e.value
            if isinstance(e.value, int):
                return z3.IntVal(e.value)
            raise Unsupported(f'constant {e.value!r}')
        if isinstance(e, ast.Name):
            if e.id in env:
                return env[e.id]
            if e.id in self.prims:
                return self.prims[e.id]
            raise Unsupported(f'name {e.id}')
        if isinstance(e, ast.Attribute):
            o = self.ev(e.value, env)
            if isinstance(o, Obj) and hasattr(o, e.attr):
                return getattr(o, e.attr)
            raise Unsupported(f'attribute {e.attr}')
        if isinstance(e, ast.Call):
            f = self.ev(e.func, env)
            if e.keywords:
                raise Unsupported('keyword call')
            args = [self.ev(a, env) for a in e.args]
            if callable(f):
                return f(*args)
            raise Unsupported(f'call of {ast.dump(e.func)[:40]}')
        if isinstance(e, ast.BinOp):
            l, r = self.ev(e.left, env), self.ev(e.right, env)
            if isinstance(e.op, ast.Add):
                return l + r
            if isinstance(e.op, ast.Sub):
                return l - r
            if isinstance(e.op, ast.Mult):
                return l * r
            if isinstance(e.op, ast.FloorDiv):
                # z3 Int division is Euclidean (remainder >= 0): equals floor for r > 0, ceil for r < 0 when inexact
                return z3.If(r > 0, l / r, z3.If(l % r == 0, l / r, l / r - 1))
            raise Unsupported(type(e.op).__name__)
        if isinstance(e, ast.UnaryOp):
            v = self.ev(e.operand, env)
            if isinstance(e.op, ast.USub):
                return -v
            if isinstance(e.op, ast.Not):
                return (not v) if isinstance(v, bool) else z3.Not(v)
            raise Unsupported(type(e.op).__name__)
        if isinstance(e, ast.Compare) and len(e.ops) == 1:
            l, r = self.ev(e.left, env), self.ev(e.comparators[0], env)
            op = e.ops[0]
            if isinstance(op, ast.Is):
                if r is None:
                    return l is None
                raise Unsupported('is')
            if isinstance(op, ast.IsNot):
                if r is None:
                    return l is not None
                raise Unsupported('is not')
            table = {ast.Gt: lambda a, b: a > b, ast.Lt: lambda a, b: a < b, ast.GtE: lambda a, b: a >= b,
                     ast.LtE: lambda a, b: a <= b, ast.Eq: lambda a, b: a == b, ast.NotEq: lambda a, b: a != b}
            if type(op) in table:
                return table[type(op)](l, r)
            raise Unsupported(type(op).__name__)
        if isinstance(e, ast.IfExp):
            c = self.ev(e.test, env)
            a, b = self.ev(e.body, env), self.ev(e.orelse, env)
            if isinstance(c, bool):
                return a if c else b
            return z3.If(c, a, b)
        raise Unsupported(ast.dump(e)[:80])
