"""CrossHair driver: one `crosshair check` process per condition (real Loki code executed symbolically with z3),
automatic reachability twins, concrete replay of counterexamples on the real code."""
import os
import re
import shutil
import subprocess
import sys
import tempfile
import time
from concurrent.futures import ThreadPoolExecutor
from pathlib import Path

VERIF = Path(__file__).resolve().parent.parent
PY = str(VERIF / '.venv' / 'bin' / 'python')


def _env(extra_path=None):
    env = dict(os.environ)
    pp = [str(VERIF), '/repo', '/repo/lint_rules']
    if extra_path:
        pp.insert(0, extra_path)
    env['PYTHONPATH'] = ':'.join(pp)
    env['PYTHONDONTWRITEBYTECODE'] = '1'
    env['LOKI_LOGGING'] = 'ERROR'
    env['PYTHONHASHSEED'] = '0'
    return env


_RX_LINE = re.compile(r'^(?P<file>[^:]+):(?P<line>\d+): (?P<kind>info|error): (?P<msg>.*)$')


def _classify(out, err, rc):
    msgs = []
    for l in out.splitlines():
        m = _RX_LINE.match(l.strip())
        if m:
            msgs.append((m.group('kind'), m.group('msg')))
    for kind, msg in msgs:
        if kind == 'error':
            m = re.search(r'when calling (?P<call>.*?)(?: \(which returns (?P<ret>.*)\))?$', msg)
            return 'refuted', {'message': msg, 'call': m.group('call') if m else None}
    for kind, msg in msgs:
        if 'Confirmed over all paths' in msg:
            return 'confirmed', {'message': msg}
        if 'Unable to meet precondition' in msg:
            return 'unable', {'message': msg}
        if 'Not confirmed' in msg:
            return 'not_confirmed', {'message': msg}
    return 'error', {'message': (out + err)[-600:], 'rc': rc}


def run_one(module, func, per_condition_timeout, extra_path=None, wall_factor=4.0):
    t0 = time.time()
    cmd = [PY, '-m', 'crosshair', 'check', '--report_all', '--per_condition_timeout', str(per_condition_timeout),
           f'{module}.{func}']
    try:
        p = subprocess.run(cmd, env=_env(extra_path), capture_output=True, text=True, cwd='/tmp',
                           timeout=per_condition_timeout * wall_factor + 60)
        verdict, info = _classify(p.stdout, p.stderr, p.returncode)
    except subprocess.TimeoutExpired:
        verdict, info = 'not_confirmed', {'message': 'wall timeout'}
    info.update(module=module, func=func, seconds=round(time.time() - t0, 2), verdict=verdict)
    return info


# CrossHair replaces, with probability 0.3 per call, any call of a contract-bearing function by an arbitrary value of
# its return type ("short-circuiting"); its own patched builtin hash() carries such a contract, so every hash() inside
# Loki doubled the path tree and conditions over hash-heavy code never exhausted.  Executing the callee is always
# sound and more precise, so the heuristic is switched off inside the analysed process.
NO_SHORTCIRCUIT = """

try:
    import crosshair.core as _xh_core
    _xh_core.consider_shortcircuit = lambda *a, **k: None
except Exception:  # pragma: no cover
    pass
"""


def materialise(name, text):
    """Write the (possibly generated) harness module text and its reachability twin into a scratch directory.
    Twin = every 'post: _' negated: a twin condition that is *refuted* proves that some execution reaches the end of
    the harness with the property holding (no vacuity)."""
    d = tempfile.mkdtemp(prefix='xh-')
    text = text + NO_SHORTCIRCUIT
    Path(d, name + '.py').write_text(text)
    twin = re.sub(r'^(\s*)post: _\s*$', r'\1post: not _', text, flags=re.M)
    Path(d, name + '_twin.py').write_text(twin)
    return d


def run_conditions(module, funcs, per_condition_timeout=30, twins=True, workers=16, twin_timeout=20, text=None):
    """module: dotted name under /verif (harness.X) or, with ``text``, the name of a generated module.
    returns (results, twin_results, scratch_dir); caller must shutil.rmtree(scratch_dir) after replays"""
    if text is None:
        text = (VERIF / (module.replace('.', '/') + '.py')).read_text()
    name = module.split('.')[-1]
    d = materialise(name, text)
    jobs = [(name, f, per_condition_timeout, d) for f in funcs]
    if twins:
        jobs += [(name + '_twin', f, twin_timeout, d) for f in funcs]
    with ThreadPoolExecutor(max_workers=workers) as ex:
        res = list(ex.map(lambda j: run_one(*j), jobs))
    return res[:len(funcs)], res[len(funcs):], d


def replay_call(module, call, extra_path=None):
    """Execute the counterexample call concretely on the real code; returns (reproduced, text)"""
    code = (f'import sys\nfrom {module} import *\n'
            f'try:\n    r = {call}\nexcept Exception as e:\n    print("RAISED", type(e).__name__, e); sys.exit(0)\n'
            f'print("RETURNED", repr(r))\n')
    p = subprocess.run([PY, '-c', code], env=_env(extra_path), capture_output=True, text=True, cwd='/tmp', timeout=120)
    out = p.stdout.strip().splitlines()
    last = out[-1] if out else p.stderr[-300:]
    if last.startswith('RETURNED'):
        return last == 'RETURNED False', last
    if last.startswith('RAISED'):
        return True, last
    return None, last
