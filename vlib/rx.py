"""Python ``re`` pattern -> z3 regular expression (language of strings on which ``pattern.search`` succeeds).

Continuation-passing translation of ``re._parser.parse`` output, so that look-aheads, ``$`` and branches keep their
context.  ``^`` is handled by translating twice (match attempt at position 0 / at a later position).  Unsupported
constructs (back-references, look-behind, conditional groups) raise RxUnsupported -> the rule/context is reported as
not encoded."""
import re
import re._parser as sp
import re._constants as sc
import z3

ANY = z3.Range(chr(1), chr(126))
ANY_NO_NL = z3.Union(z3.Range(chr(1), chr(9)), z3.Range(chr(11), chr(126)))
EPS = z3.Re('')
NONE = z3.Empty(z3.ReSort(z3.StringSort()))
WORD = z3.Union(z3.Range('a', 'z'), z3.Range('A', 'Z'), z3.Range('0', '9'), z3.Re('_'))
SPACE = z3.Union(*[z3.Re(c) for c in ' \t\n\r\f\v'])
DIGIT = z3.Range('0', '9')


class RxUnsupported(Exception):
    pass


def _cls_item(op, av, ic):
    if op == sc.LITERAL:
        ch = chr(av)
        if ic and ch.isalpha():
            return z3.Union(z3.Re(ch.lower()), z3.Re(ch.upper()))
        return z3.Re(ch)
    if op == sc.RANGE:
        lo, hi = chr(av[0]), chr(av[1])
        r = z3.Range(lo, hi)
        if ic and lo.isalpha() and hi.isalpha():
            r = z3.Union(z3.Range(lo.lower(), hi.lower()), z3.Range(lo.upper(), hi.upper()))
        return r
    if op == sc.CATEGORY:
        if av == sc.CATEGORY_SPACE:
            return SPACE
        if av == sc.CATEGORY_NOT_SPACE:
            return z3.Intersect(ANY, z3.Complement(SPACE))
        if av == sc.CATEGORY_WORD:
            return WORD
        if av == sc.CATEGORY_NOT_WORD:
            return z3.Intersect(ANY, z3.Complement(WORD))
        if av == sc.CATEGORY_DIGIT:
            return DIGIT
        if av == sc.CATEGORY_NOT_DIGIT:
            return z3.Intersect(ANY, z3.Complement(DIGIT))
    raise RxUnsupported((op, av))


def _tr(items, flags, k, at_start):
    ic = bool(flags & re.I)
    rest = k
    items = list(items)
    for pos in range(len(items) - 1, -1, -1):
        op, av = items[pos]
        if op in (sc.LITERAL, sc.CATEGORY):
            rest = z3.Concat(_cls_item(op, av, ic), rest)
        elif op == sc.NOT_LITERAL:
            rest = z3.Concat(z3.Intersect(ANY, z3.Complement(_cls_item(sc.LITERAL, av, ic))), rest)
        elif op == sc.ANY:
            rest = z3.Concat(ANY if flags & re.S else ANY_NO_NL, rest)
        elif op == sc.IN:
            neg = bool(av) and av[0][0] == sc.NEGATE
            its = [_cls_item(o, a, ic) for o, a in av if o != sc.NEGATE]
            u = z3.Union(*its) if len(its) > 1 else its[0]
            rest = z3.Concat(z3.Intersect(ANY, z3.Complement(u)) if neg else u, rest)
        elif op in (sc.MAX_REPEAT, sc.MIN_REPEAT):
            lo, hi, sub = av
            r = _tr(sub, flags, EPS, False)
            if hi == sc.MAXREPEAT:
                rep = z3.Star(r) if lo == 0 else (z3.Plus(r) if lo == 1 else z3.Concat(z3.Loop(r, lo, lo), z3.Star(r)))
            elif (lo, hi) == (0, 1):
                rep = z3.Option(r)
            else:
                rep = z3.Loop(r, lo, hi)
            rest = z3.Concat(rep, rest)
        elif op == sc.SUBPATTERN:
            # at_start only matters if nothing was consumed before: true only for the first item
            rest = _tr(av[3], flags, rest, at_start and pos == 0)
        elif op == sc.BRANCH:
            rest = z3.Union(*[_tr(b, flags, rest, at_start and pos == 0) for b in av[1]])
        elif op == sc.AT:
            if av in (sc.AT_END, sc.AT_END_STRING):
                rest = z3.Intersect(rest, z3.Union(EPS, z3.Re('\n')))
            elif av in (sc.AT_BEGINNING, sc.AT_BEGINNING_STRING):
                if flags & re.M:
                    raise RxUnsupported('multiline ^')
                # can only hold when nothing precedes: first item of a match attempt at position 0
                if not (at_start and _nothing_before(items, pos)):
                    rest = NONE
            elif av == sc.AT_BOUNDARY:
                # \b: decided from the item before it, if that item always ends in a word character (then the next character
                # must not be one) or always ends in a non-word character (then the next character must be one)
                prev = _ends_in_word(items[pos - 1]) if pos > 0 else None
                starts_word = z3.Concat(WORD, z3.Star(ANY))
                if prev is True:
                    rest = z3.Intersect(rest, z3.Complement(starts_word))
                elif prev is False:
                    rest = z3.Intersect(rest, starts_word)
                else:
                    raise RxUnsupported('\\b after an item of unknown last character')
            else:
                raise RxUnsupported(av)
        elif op in (sc.ASSERT, sc.ASSERT_NOT):
            direction, sub = av
            if direction != 1:
                raise RxUnsupported('look-behind')
            la = z3.Concat(_tr(sub, flags, EPS, False), z3.Star(ANY))
            rest = z3.Intersect(rest, la if op == sc.ASSERT else z3.Complement(la))
        else:
            raise RxUnsupported(op)
    return rest


def _ends_in_word(item):
    """True: every match of the item ends in a word character; False: in a non-word character; None: unknown"""
    op, av = item
    if op == sc.LITERAL:
        ch = chr(av)
        return ch.isalnum() or ch == '_'
    if op == sc.CATEGORY:
        return {sc.CATEGORY_WORD: True, sc.CATEGORY_DIGIT: True, sc.CATEGORY_NOT_WORD: False, sc.CATEGORY_SPACE: False}.get(av)
    if op == sc.IN:
        if av and av[0][0] == sc.NEGATE:
            return None
        vals = {_ends_in_word(x) for x in av}
        return vals.pop() if len(vals) == 1 else None
    if op == sc.RANGE:
        lo, hi = chr(av[0]), chr(av[1])
        return True if (lo.isalnum() and hi.isalnum()) else None
    if op in (sc.MAX_REPEAT, sc.MIN_REPEAT):
        lo, _, sub = av
        if lo >= 1 and len(sub) >= 1:
            return _ends_in_word(list(sub)[-1])
        return None
    if op == sc.SUBPATTERN:
        sub = list(av[3])
        return _ends_in_word(sub[-1]) if sub else None
    if op == sc.BRANCH:
        vals = {(_ends_in_word(list(b)[-1]) if len(b) else None) for b in av[1]}
        return vals.pop() if len(vals) == 1 else None
    return None


def _nothing_before(items, pos):
    return pos == 0


def search_language(pat):
    """z3 regex of all strings s such that pat.search(s) is not None"""
    parsed = sp.parse(pat.pattern, pat.flags)
    tail = z3.Star(ANY)
    at0 = _tr(parsed, pat.flags, tail, True)
    later = _tr(parsed, pat.flags, tail, False)
    return z3.Union(at0, z3.Concat(z3.Plus(ANY), later))


def contains_language(text):
    return z3.Concat(z3.Star(ANY), z3.Re(text), z3.Star(ANY))
