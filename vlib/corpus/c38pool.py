"""C38, pool allocator part: TemporariesPoolAllocatorTransformation driven by the real Scheduler on a scratch project.
The transformed call tree bumps integer addresses inside a per-block scratch array (Cray pointers); the interpreter
follows the address arithmetic (vlib/fsmt/interp.py: LOC / C_SIZEOF / ISHFT, pointee regions) so that too little storage,
overlapping temporaries or a tripped stack check show up as trap / abort of the transformed program."""
import shutil
import tempfile
from pathlib import Path

from loki import Scheduler, SchedulerConfig, Frontend, Dimension
from loki.transformations.temporaries import TemporariesPoolAllocatorTransformation
from vlib.tv import Case
from vlib.fsmt.equiv import Prog

CONFIG = {
    'default': {'mode': 'idem', 'role': 'kernel', 'expand': True, 'strict': True, 'enable_imports': True},
    'routines': {'driver': {'role': 'driver'}},
}


def mk_pool(**kw):
    def f(p):
        d = tempfile.mkdtemp(prefix='verif-pool-')
        try:
            (Path(d) / 'proj.F90').write_text(f.src)
            sched = Scheduler(paths=[d], config=SchedulerConfig.from_dict(CONFIG), seed_routines=['driver'],
                              frontend=Frontend.FP, xmods=[d])
            sched.process(transformation=TemporariesPoolAllocatorTransformation(
                block_dim=Dimension(name='block_dim', size='nb', index='b'), **kw))
            item = [i for i in sched.items if i.name.endswith('#driver')][0]
            sf = item.source
            q = Prog.from_sourcefile(sf, 'driver')
            q.text = sf.to_fortran()
            return q
        finally:
            shutil.rmtree(d, ignore_errors=True)
    return f


HEAD = """
module pk
  implicit none
  integer, parameter :: jprb = selected_real_kind(13, 300)
  integer, parameter :: jpim = selected_int_kind(9)
end module pk

module pm
  use pk, only: jprb, jpim
  implicit none
contains
  subroutine driver(nlon, klev, nb, pfull, phalf, pres)
    integer(kind=jpim), intent(in) :: nlon, klev, nb
    real(kind=jprb), intent(in) :: pfull(nlon, klev, nb)
    real(kind=jprb), intent(in) :: phalf(nlon, klev + 1, nb)
    real(kind=jprb), intent(inout) :: pres(nlon, klev, nb)
    integer(kind=jpim) :: b
    do b = 1, nb
      call kernel1(nlon, klev, klev + 1, 1, nlon, pfull(:, :, b), phalf(:, :, b), pres(:, :, b))
    end do
  end subroutine driver
"""

K2 = """
  subroutine kernel2(nlon, nlev, jstart, jend, pin, pout)
    integer(kind=jpim), intent(in) :: nlon, nlev, jstart, jend
    real(kind=jprb), intent(in) :: pin(nlon, nlev)
    real(kind=jprb), intent(inout) :: pout(nlon, nlev)
    real(kind=jprb) :: zwork(nlon, nlev)
{k2extra}
    integer(kind=jpim) :: jl, jk
    do jl = jstart, jend
      zwork(jl, 1) = pin(jl, 1)
{k2stmt}
    end do
    do jk = 2, nlev
      do jl = jstart, jend
        zwork(jl, jk) = zwork(jl, jk - 1) + pin(jl, jk)
      end do
    end do
    do jk = 1, nlev
      do jl = jstart, jend
        pout(jl, jk) = zwork(jl, jk)
      end do
    end do
  end subroutine kernel2
"""

K3 = """
  subroutine kernel3(nlon, jstart, jend, pcol)
    integer(kind=jpim), intent(in) :: nlon, jstart, jend
    real(kind=jprb), intent(inout) :: pcol(nlon)
    real(kind=jprb) :: z1(nlon), z2(nlon, 3)
    integer(kind=jpim) :: jl
    do jl = jstart, jend
      z1(jl) = pcol(jl)*2.0_jprb
      z2(jl, 1) = z1(jl) + 1.0_jprb
      z2(jl, 3) = z2(jl, 1) - z1(jl)
      pcol(jl) = z2(jl, 3) + z1(jl)
    end do
  end subroutine kernel3
"""


def k1(calls, post=''):
    return f"""
  subroutine kernel1(nlon, klev, klevp1, jstart, jend, pfull, phalf, pres)
    integer(kind=jpim), intent(in) :: nlon, klev, klevp1, jstart, jend
    real(kind=jprb), intent(in) :: pfull(nlon, klev)
    real(kind=jprb), intent(in) :: phalf(nlon, klevp1)
    real(kind=jprb), intent(inout) :: pres(nlon, klev)
    real(kind=jprb) :: zsumh(nlon, klevp1)
    real(kind=jprb) :: zsumf(nlon, klev)
    integer(kind=jpim) :: jl, jk
{calls}
    do jk = 1, klev
      do jl = jstart, jend
        pres(jl, jk) = zsumf(jl, jk) + 0.5_jprb*(zsumh(jl, jk) + zsumh(jl, jk + 1))
      end do
    end do
{post}
  end subroutine kernel1
"""


BIG_FIRST = '    call kernel2(nlon, klevp1, jstart, jend, phalf, zsumh)\n    call kernel2(nlon, klev, jstart, jend, pfull, zsumf)'
BIG_LAST = '    call kernel2(nlon, klev, jstart, jend, pfull, zsumf)\n    call kernel2(nlon, klevp1, jstart, jend, phalf, zsumh)'
TREES = {
    'same-kernel-twice-bigger-first': HEAD + k1(BIG_FIRST) + K2.format(k2extra='', k2stmt='') + 'end module pm\n',
    'same-kernel-twice-bigger-last': HEAD + k1(BIG_LAST) + K2.format(k2extra='', k2stmt='') + 'end module pm\n',
    'mixed-kinds-in-callee': HEAD + k1(BIG_FIRST) + K2.format(
        k2extra='    integer(kind=jpim) :: iwork(nlon)\n    logical :: lw(nlon)',
        k2stmt='      iwork(jl) = jl\n      lw(jl) = pin(jl, 1) > 0.0_jprb\n      if (lw(jl)) zwork(jl, 1) = zwork(jl, 1) + iwork(jl) - jl') + 'end module pm\n',
    'two-different-callees': HEAD + k1(BIG_FIRST, post='    call kernel3(nlon, jstart, jend, pres(:, 1))') + K2.format(k2extra='', k2stmt='') + K3 + 'end module pm\n',
    'three-calls-middle-biggest': HEAD + k1('    call kernel2(nlon, klev, jstart, jend, pfull, zsumf)\n' + BIG_FIRST)
                                  + K2.format(k2extra='', k2stmt='') + 'end module pm\n',
}
S = [{'nlon': 2, 'klev': 2, 'nb': 2}, {'nlon': 3, 'klev': 2, 'nb': 1}]


def cases():
    out = []
    for name, src in TREES.items():
        for vn, kw in (('pool', {}), ('pool-no-bounds-check', {'check_bounds': False})):
            f = mk_pool(**kw)
            f.src = src
            out.append(Case(f'{name}/{vn}', src, 'driver', S, f, 'temporaries-pool'))
    return out
