"""Templates for C34: call-signature rewrites (derived-type argument expansion, sequence association, explicit argument
shapes, duplicate argument removal)."""
from loki.batch import ProcedureItem, SGraph
from loki.transformations.transform_derived_types import DerivedTypeArgumentsTransformation
from loki.transformations.sanitise import do_resolve_sequence_association
from loki.transformations.argument_shape import ArgumentArrayShapeAnalysis, ExplicitArgumentArrayShapeTransformation
from loki.transformations.routine_signatures import RemoveDuplicateArgs
from vlib.tv import Case


def _routine(p, name):
    return [r for r in p.routines + [x for m in p.modules for x in m.subroutines] if r.name.lower() == name][0]


def dta(p):
    mod = p.modules[0].name.lower()
    drv = ProcedureItem(name=f'{mod}#drv', source=p.sourcefile, config={'role': 'driver'})
    ker = ProcedureItem(name=f'{mod}#kern', source=p.sourcefile, config={'role': 'kernel'})
    graph = SGraph.from_dict({drv: [ker]})
    t = DerivedTypeArgumentsTransformation()
    t.apply(ker.ir, item=ker, role='kernel', sub_sgraph=graph.get_sub_sgraph(ker))
    t.apply(drv.ir, item=drv, role='driver', sub_sgraph=graph.get_sub_sgraph(drv))
    p.text = None


def seqassoc(p):
    do_resolve_sequence_association(p.entry)
    p.text = None


def argshape(p):
    drv, ker = _routine(p, 'drv'), _routine(p, 'kern')
    a = ArgumentArrayShapeAnalysis()
    a.apply(drv, role='driver')
    a.apply(ker, role='kernel')
    t = ExplicitArgumentArrayShapeTransformation()
    t.apply(ker, role='kernel')
    t.apply(drv, role='driver')
    p.text = None


def mk_dup(recurse, rename):
    def f(p):
        t = RemoveDuplicateArgs(recurse_to_kernels=recurse, rename_common=rename)
        t.apply(_routine(p, 'drv'), role='driver', targets=('kern',))
        t.apply(_routine(p, 'kern'), role='kernel')
        p.text = None
    f.__name__ = f'dup-{recurse}-{rename}'
    return f


DT = """
module dm
  implicit none
  type geo_t
    integer :: k
    real :: w(3)
  end type geo_t
  type st_t
    real :: s
    real :: v(3)
    type(geo_t) :: g
  end type st_t
contains
  subroutine kern(n, x, st, ro)
    integer, intent(in) :: n
    real, intent(inout) :: x(n)
    type(st_t), intent(inout) :: st
    type(geo_t), intent(in) :: ro
    integer :: i
{kbody}
  end subroutine kern

  subroutine drv(n, x, st, ro)
    integer, intent(in) :: n
    real, intent(inout) :: x(n)
    type(st_t), intent(inout) :: st
    type(geo_t), intent(in) :: ro
{dbody}
  end subroutine drv
end module dm
"""

SA = """
module sm
contains
  subroutine kern(m, v, w)
    integer, intent(in) :: m
    real, intent(inout) :: v(m)
    real, intent(in) :: w(m)
    integer :: i
    do i=1,m
      v(i) = v(i)*2.0 + w(i)
    end do
  end subroutine kern

  subroutine drv(n, a, b, c)
    integer, intent(in) :: n
    real, intent(inout) :: a(n), c(n, 2)
    real, intent(in) :: b(n)
{dbody}
  end subroutine drv
end module sm
"""

SH = """
module hm
contains
  subroutine kern(n, m, v, w, u)
    integer, intent(in) :: n, m
    real, intent(inout) :: v(:), w(:, :)
    real, intent(in) :: u(:)
    integer :: i, j
    do j=1,m
      do i=1,n
        w(i, j) = w(i, j) + v(i)*u(j)
      end do
    end do
    v(n) = w(1, m)
  end subroutine kern

  subroutine drv(n, m, a, c, b)
    integer, intent(in) :: n, m
    real, intent(inout) :: a(n), c(n, m)
    real, intent(in) :: b(m)
    call kern(n, m, a, c, b)
  end subroutine drv
end module hm
"""

DU = """
module um
contains
  subroutine kern(n, p, q, r, s)
    integer, intent(in) :: n
    real, intent(in) :: p(n), q(n)
    real, intent(inout) :: r(n)
    real, intent(in) :: s
    integer :: i
    do i=1,n
      r(i) = p(i) + q(n + 1 - i)*s
    end do
  end subroutine kern

  subroutine drv(n, a, b, y)
    integer, intent(in) :: n
    real, intent(in) :: a(n)
    real, intent(inout) :: b(n)
    real, intent(in) :: y
{dbody}
  end subroutine drv
end module um
"""


SH3 = """
module h3
contains
  subroutine kern2(v, f)
    real, intent(inout) :: v(:, :)
    real, intent(in) :: f
    integer :: i, j
    do j=1,size(v, 2)
      do i=1,size(v, 1)
        v(i, j) = v(i, j)*f + real(i) + 10.0*real(j)
      end do
    end do
  end subroutine kern2

  subroutine drv(n1, n2, n3, a, y)
    integer, intent(in) :: n1, n2, n3
    real, intent(inout) :: a(n1, n2, n3)
    real, intent(in) :: y
{dbody}
  end subroutine drv
end module h3
"""


def argshape3(p):
    drv, ker = _routine(p, 'drv'), _routine(p, 'kern2')
    a = ArgumentArrayShapeAnalysis()
    a.apply(drv, role='driver')
    a.apply(ker, role='kernel')
    t = ExplicitArgumentArrayShapeTransformation()
    t.apply(ker, role='kernel')
    t.apply(drv, role='driver')
    p.text = None


def cases():
    out = []
    S = [{'n': 3}, {'n': 4}]
    S3 = [{'n1': 2, 'n2': 3, 'n3': 2}, {'n1': 3, 'n2': 2, 'n3': 2}]
    for nm, body in (('last-fixed', '    call kern2(a(:, :, n3), y)'), ('first-fixed', '    call kern2(a(1, :, :), y)'),
                     ('middle-fixed', '    call kern2(a(:, 2, :), y)'), ('sub-ranges', '    call kern2(a(1:n1, 2:n2, 1), y)')):
        out.append(Case(f'argshape/section-{nm}', SH3.format(dbody=body), 'drv', S3, argshape3, 'argument-shape'))
    out.append(Case('dta/components-rw', DT.format(kbody='    do i=1,n\n      x(i) = x(i)*st%s + st%v(min(i, 3)) + ro%w(1)\n    end do\n    st%s = st%s + ro%k\n    st%v(2) = x(1)',
                                                  dbody='    call kern(n, x, st, ro)'), 'drv', S, dta, 'derived-type-args'))
    out.append(Case('dta/nested-component', DT.format(kbody='    st%g%w(1) = st%g%w(2) + x(1)\n    x(2) = st%g%k*ro%w(3)\n    st%g%k = st%g%k + 1',
                                                      dbody='    call kern(n, x, st, ro)\n    x(1) = st%g%w(1)'), 'drv', S, dta, 'derived-type-args'))
    out.append(Case('dta/two-calls-kw', DT.format(kbody='    st%v(1) = st%v(1) + ro%w(2)*x(n)\n    x(1) = st%s',
                                                  dbody='    call kern(n, x, st, ro)\n    call kern(n=n, x=x, ro=st%g, st=st)'), 'drv', S, dta, 'derived-type-args'))
    out.append(Case('seq/element-start', SA.format(dbody='    call kern(n - 1, a(2), b(1))\n    call kern(n, c(1, 2), b)'), 'drv', S, seqassoc, 'sequence-association'))
    out.append(Case('seq/2d-element', SA.format(dbody='    call kern(n, c(1, 1), b)\n    call kern(2, c(2, 2), b(2))'), 'drv', S, seqassoc, 'sequence-association'))
    out.append(Case('seq/whole-and-section', SA.format(dbody='    call kern(n, a, b)\n    call kern(n, c(:, 1), a)'), 'drv', S, seqassoc, 'sequence-association'))
    # actuals whose declared shape has no upper bound (deferred shape) or a lower bound other than 1
    out.append(Case('seq/allocatable-actual', SA.format(dbody='    real, allocatable :: wk(:, :)\n    allocate(wk(n, 2))\n    wk(:, 1) = a(:)\n    wk(:, 2) = b(:)\n    call kern(n - 1, wk(2, 1), b(1))\n    call kern(n - 2, wk(3, 2), a)\n    a(:) = wk(:, 1) - wk(:, 2)\n    deallocate(wk)'), 'drv', S, seqassoc, 'sequence-association'))
    out.append(Case('seq/allocatable-lower-bound-0', SA.format(dbody='    real, allocatable :: wh(:)\n    allocate(wh(0:n))\n    wh(:) = 0.5\n    wh(1:n) = a(:)\n    call kern(n - 1, wh(2), b(1))\n    call kern(n, wh(0), b)\n    a(:) = wh(0:n-1) + wh(n)\n    deallocate(wh)'), 'drv', S, seqassoc, 'sequence-association'))
    out.append(Case('seq/explicit-lower-bound-0', SA.format(dbody='    real :: eh(0:n)\n    eh(0) = 0.25\n    eh(1:n) = a(:)\n    call kern(n - 1, eh(2), b(1))\n    call kern(n, eh(0), b)\n    a(:) = eh(0:n-1) - eh(n)'), 'drv', S, seqassoc, 'sequence-association'))
    out.append(Case('argshape/assumed-shape', SH, 'drv', [{'n': 3, 'm': 2}, {'n': 2, 'm': 3}], argshape, 'argument-shape'))
    for rec in (False, True):
        for ren in (False, True):
            out.append(Case(f'dup/same-array-twice/{rec}-{ren}', DU.format(dbody='    call kern(n, a, a, b, y)'), 'drv', S, mk_dup(rec, ren), 'duplicate-args'))
            out.append(Case(f'dup/two-calls-mixed/{rec}-{ren}', DU.format(dbody='    call kern(n, a, a, b, y)\n    call kern(n, a, a, b, y*2.0)'), 'drv', S, mk_dup(rec, ren), 'duplicate-args'))
    return out
