"""Deterministic, typed families of loki.expression trees (the 'outer quantifier' of C06/C08/C09)."""
import itertools
import pymbolic.primitives as pmbl
from loki.expression import symbols as sym
from loki.expression import operations as ops
from loki.types import BasicType, SymbolAttributes

INT_T = SymbolAttributes(BasicType.INTEGER)
REAL_T = SymbolAttributes(BasicType.REAL)
LOG_T = SymbolAttributes(BasicType.LOGICAL)


def V(name, t):
    return sym.Variable(name=name, type=t)


def int_leaves():
    return [V('a', INT_T), V('b', INT_T), V('c', INT_T), sym.IntLiteral(2), sym.IntLiteral(3)]


def real_leaves():
    return [V('x', REAL_T), V('y', REAL_T), V('z', REAL_T), sym.FloatLiteral('2.0'), sym.IntLiteral(2)]


def neg(x):
    return sym.Product((-1, x))


# binary constructors: name -> callable(l, r)
ARITH = {
    'add': lambda l, r: sym.Sum((l, r)),
    'sub': lambda l, r: sym.Sum((l, neg(r))),
    'mul': lambda l, r: sym.Product((l, r)),
    'div': sym.Quotient,
    'pow': sym.Power,
    'padd': lambda l, r: ops.ParenthesisedAdd((l, r)),
    'pmul': lambda l, r: ops.ParenthesisedMul((l, r)),
    'pdiv': ops.ParenthesisedDiv,
    'ppow': ops.ParenthesisedPow,
}
UNARY = {
    'neg': neg,
    'pneg': lambda x: ops.ParenthesisedMul((-1, x)),
    'negl': lambda x: sym.Product((sym.IntLiteral(-1), x)),   # explicit literal -1 factor (built programmatically)
}
PLAIN = ['add', 'sub', 'mul', 'div', 'pow']


def _cls(e):
    """class name; nodes of pymbolic's own classes (what Python operators on Loki symbols build) are marked"""
    return ('py' if type(e).__module__.startswith('pymbolic') else '') + type(e).__name__


def show(e):
    """Structural rendering of a tree (independent of any Loki stringifier)."""
    if isinstance(e, (pmbl.Sum, pmbl.Product, pmbl.LogicalAnd, pmbl.LogicalOr)):
        return _cls(e) + '(' + ','.join(show(c) for c in e.children) + ')'
    if isinstance(e, pmbl.Quotient):
        return f'{_cls(e)}({show(e.numerator)},{show(e.denominator)})'
    if isinstance(e, pmbl.Power):
        return f'{_cls(e)}({show(e.base)},{show(e.exponent)})'
    if isinstance(e, pmbl.Comparison):
        return f'Cmp({show(e.left)}{e.operator}{show(e.right)})'
    if isinstance(e, pmbl.LogicalNot):
        return f'Not({show(e.child)})'
    if isinstance(e, sym.InlineCall):
        return f'Call:{e.function}(' + ','.join(show(c) for c in e.parameters) + ')'
    if isinstance(e, (int, float)):
        return repr(e)
    return str(e)


def shape(e):
    """like show() but leaves abstracted: used for known-finding signatures"""
    if isinstance(e, (pmbl.Sum, pmbl.Product, pmbl.LogicalAnd, pmbl.LogicalOr)):
        return type(e).__name__ + '(' + ','.join(shape(c) for c in e.children) + ')'
    if isinstance(e, pmbl.Quotient):
        return f'{type(e).__name__}({shape(e.numerator)},{shape(e.denominator)})'
    if isinstance(e, pmbl.Power):
        return f'{type(e).__name__}({shape(e.base)},{shape(e.exponent)})'
    if isinstance(e, pmbl.Comparison):
        return f'Cmp({shape(e.left)},{shape(e.right)})'
    if isinstance(e, pmbl.LogicalNot):
        return f'Not({shape(e.child)})'
    if isinstance(e, (int, float)) and not isinstance(e, bool):
        return 'neg1' if e == -1 else 'num'
    if isinstance(e, sym.IntLiteral):
        return 'lit-' if e.value < 0 else 'lit'
    return '_'


def subtrees(e):
    yield e
    if isinstance(e, (pmbl.Sum, pmbl.Product, pmbl.LogicalAnd, pmbl.LogicalOr)):
        for c in e.children:
            yield from subtrees(c)
    elif isinstance(e, pmbl.Quotient):
        yield from subtrees(e.numerator)
        yield from subtrees(e.denominator)
    elif isinstance(e, pmbl.Power):
        yield from subtrees(e.base)
        yield from subtrees(e.exponent)
    elif isinstance(e, pmbl.Comparison):
        yield from subtrees(e.left)
        yield from subtrees(e.right)
    elif isinstance(e, pmbl.LogicalNot):
        yield from subtrees(e.child)


def depth(e):
    ch = [c for c in subtrees(e) if c is not e]
    return 0 if not ch else 1 + max(depth(c) for c in _children(e))


def _children(e):
    if isinstance(e, (pmbl.Sum, pmbl.Product, pmbl.LogicalAnd, pmbl.LogicalOr)):
        return list(e.children)
    if isinstance(e, pmbl.Quotient):
        return [e.numerator, e.denominator]
    if isinstance(e, pmbl.Power):
        return [e.base, e.exponent]
    if isinstance(e, pmbl.Comparison):
        return [e.left, e.right]
    if isinstance(e, pmbl.LogicalNot):
        return [e.child]
    return []


def arith_trees(leaves, max_depth=2, binops=None, unops=None, exp_leaves=None):
    """All trees up to max_depth where every binary node has at most ONE compound child per level beyond depth 2
    (full product at depth<=2, single spine beyond) -- this contains every parent/child/grand-child operator
    combination in every position."""
    binops = binops or list(ARITH)
    unops = unops if unops is not None else list(UNARY)
    exp_leaves = exp_leaves or [sym.IntLiteral(2)]
    l0, l1, l2 = leaves[0], leaves[1], leaves[2]

    def level1():
        out = []
        for op in binops:
            out.append(ARITH[op](l0, l1))
            if op in ('pow', 'ppow'):
                out[-1] = ARITH[op](l0, exp_leaves[0])
        for u in unops:
            out.append(UNARY[u](l0))
        return out

    def extend(prev):
        """put each tree of prev into every child slot of every operator, other slot(s) = leaf"""
        out = []
        for t in prev:
            for op in binops:
                out.append(ARITH[op](t, l2))
                if op in ('pow', 'ppow'):
                    out[-1] = ARITH[op](t, exp_leaves[0])
                    # compound exponent only if it stays small: handled by definedness cond in the query
                    out.append(ARITH[op](l2, t))
                else:
                    out.append(ARITH[op](l2, t))
            for u in unops:
                out.append(UNARY[u](t))
        return out

    lv = level1()
    trees = list(leaves[:1]) + lv
    cur = lv
    for _ in range(max_depth - 1):
        cur = extend(cur)
        trees += cur
    # both-children-compound at depth 2
    for op in binops:
        for t1, t2 in itertools.product(lv, lv):
            if op in ('pow', 'ppow'):
                continue
            trees.append(ARITH[op](t1, t2))
    # n-ary sums and products with compound members
    for t in lv:
        trees.append(sym.Sum((l0, t, l1)))
        trees.append(sym.Product((l0, t, l1)))
        trees.append(sym.Sum((l0, neg(t), l1)))
        trees.append(sym.Product((-1, t, l1)))
    return trees


PYOPS = {
    'add': lambda l, r: l + r,
    'sub': lambda l, r: l - r,
    'mul': lambda l, r: l * r,
    'div': lambda l, r: l / r,
    'pow': lambda l, r: l ** r,
}


def pyop_trees(leaves, exp_leaf=None):
    """Trees built with Python's operators on Loki symbols (nodes of pymbolic's own classes, which the stringifier
    and the backends must print just as faithfully), pure and mixed with Loki's node classes, depth <= 2:
    every operator pair in every slot, inner node python-built / outer Loki-built and vice versa."""
    exp_leaf = exp_leaf or sym.IntLiteral(2)
    l1p, l1s = [], []
    for op in PLAIN:
        for a, b in itertools.product(leaves, leaves):
            if op == 'pow':
                b = exp_leaf
            l1p.append(PYOPS[op](a, b))
            l1s.append(ARITH[op](a, b))
    l1p += [-a for a in leaves]
    l1s += [neg(a) for a in leaves]
    out = list(l1p)
    lf = leaves[-1]
    for t in l1p + l1s:
        native = type(t).__module__.startswith('pymbolic')
        for op in PLAIN:
            r = exp_leaf if op == 'pow' else lf
            out.append(PYOPS[op](t, r))
            out.append(PYOPS[op](lf, t))
            if native:
                out.append(ARITH[op](t, r))
                out.append(ARITH[op](lf, t))
        out.append(-t)
        if native:
            out.append(neg(t))
    for t1, t2 in itertools.product(l1p[::4], l1p[1::5]):
        for op in ('add', 'sub', 'mul', 'div'):
            out.append(PYOPS[op](t1, t2))
    return out


def power_towers(leaves):
    """Powers of powers with VARIABLE exponents -- (a**b)**c and a**(b**c) agree for many literal exponents
    ((a**2)**2 == a**(2**2)), so the literal-exponent members of the family cannot tell the two groupings apart --
    for every pairing of the three ways a Power node comes into being (Loki class, ParenthesisedPow, Python ``**``)."""
    a, b, c = leaves[:3]
    mk = [sym.Power, ops.ParenthesisedPow, lambda x, y: x ** y]
    out = []
    for inner, outer in itertools.product(mk, mk):
        out.append(outer(inner(a, b), c))
        out.append(outer(a, inner(b, c)))
        out.append(outer(inner(a, b), sym.IntLiteral(2)))
        out.append(outer(inner(a, sym.IntLiteral(2)), c))
        out.append(outer(sym.IntLiteral(2), inner(b, c)))
        out.append(outer(neg(inner(a, b)), c))
        out.append(outer(-inner(a, b), c))
    return out


def logic_trees(arith):
    """comparisons over arithmetic trees and logical combinations"""
    p, q = V('p', LOG_T), V('q', LOG_T)
    a0 = arith[0] if arith else V('a', INT_T)
    cmps = []
    for op in ('==', '!=', '<', '<=', '>', '>='):
        cmps.append(sym.Comparison(a0, op, V('b', INT_T)))
    for t in arith[:40]:
        cmps.append(sym.Comparison(t, '<', V('c', INT_T)))
        cmps.append(sym.Comparison(V('c', INT_T), '>=', t))
    out = list(cmps)
    c0, c1 = cmps[0], cmps[2]
    base = [p, q, c0, c1]
    lv = []
    for x, y in itertools.product(base, base):
        if x is y:
            continue
        lv += [sym.LogicalAnd((x, y)), sym.LogicalOr((x, y))]
    lv += [sym.LogicalNot(x) for x in base]
    out += lv
    for t in lv[:60]:
        out += [sym.LogicalNot(t), sym.LogicalAnd((t, p)), sym.LogicalOr((q, t)), sym.LogicalAnd((p, t, q)),
                sym.LogicalOr((sym.LogicalNot(t), p)), sym.Comparison(t, '==', p) if False else sym.LogicalNot(sym.LogicalNot(t))]
    return out


def nary_sign_trees(leaves):
    """flat n-ary products and sums (arity 3-5) whose members carry every combination of minus signs: bare -1
    factors, negated variables, negated literals, negative literals"""
    import itertools as _it
    a, b, c = leaves[:3]
    L = sym.IntLiteral
    out = []
    members = [a, b, c, L(2), L(3)]
    for arity in (3, 4, 5):
        ms = members[:arity]
        for signs in _it.product((0, 1), repeat=arity):
            if sum(signs) < 2:
                continue
            neg_members = tuple(neg(m) if s else m for m, s in zip(ms, signs))
            out.append(sym.Product(neg_members))
            out.append(sym.Sum(neg_members))
            # bare -1 factors interleaved
            mixed = []
            for m, s in zip(ms, signs):
                if s:
                    mixed.append(-1)
                mixed.append(m)
            out.append(sym.Product(tuple(mixed)))
            lits = tuple(L(-m.value) if (s and isinstance(m, sym.IntLiteral)) else (neg(m) if s else m) for m, s in zip(ms, signs))
            out.append(sym.Product(lits))
    out.append(sym.Product((L(-1), a, L(-1), b, L(-1))))
    out.append(sym.Product((neg(L(1)), neg(L(2)), neg(L(3)))))
    out.append(sym.Sum((a, sym.Product((neg(L(2)), neg(L(1)), neg(L(1)))))))
    return out
