"""Cases for the behavioural projections of C03 (conservative output), C16 (attach/detach), C17 (clone), C18 (pickle)
over the program corpus."""
import pickle
from loki import FindNodes, ir, Transformer, Sourcefile
from loki.expression import symbols as sym
from loki.types import BasicType
from vlib.tv import Case
from vlib.fsmt.equiv import Prog
from vlib.corpus.programs import P


def sources(pragmas=False):
    out = [(n, s, e, z) for n, s, e, z in P if 'frontend-limit' not in n]
    seen = set()
    for mod in ('c28', 'c29', 'c31', 'c32'):
        m = __import__(f'vlib.corpus.{mod}', fromlist=['cases'])
        for c in m.cases():
            if c.src not in seen and len(seen) < 40:
                seen.add(c.src)
                out.append((f'{mod}-{len(seen)}', c.src, c.entry, c.sizes[:1]))
    if pragmas:
        from vlib.corpus import c16 as C16  # pylint: disable=import-outside-toplevel
        out += C16.sources()      # names start with 'prag-': pragma annotations are traced for these
    return out


def _numeric_assignments(routine):
    res = []
    for a in FindNodes(ir.Assignment).visit(routine.body):
        t = getattr(a.lhs, 'type', None)
        if t is not None and t.dtype in (BasicType.INTEGER, BasicType.REAL) and not a.ptr:
            res.append(a)
    return res


def edit_kth(routine, k):
    """semantically visible local edit through the public API: k-th numeric assignment  x = e  ->  x = e + 1"""
    asg = _numeric_assignments(routine)
    if not asg:
        return False
    a = asg[k % len(asg)]
    import pymbolic.primitives as pmbl  # pylint: disable=import-outside-toplevel
    compound = isinstance(a.rhs, (pmbl.Sum, pmbl.Product, pmbl.Quotient, pmbl.Power))
    if k % 2 == 0 or not compound:
        # replace the node by a freshly built one (no source attached)
        new = ir.Assignment(lhs=a.lhs, rhs=sym.Sum((a.rhs, sym.IntLiteral(1))))
        routine.body = Transformer({a: new}).visit(routine.body)
    else:
        # expression-level edit through SubstituteExpressions (invalidates the sources of the nodes it rebuilds)
        from loki.ir import SubstituteExpressions  # pylint: disable=import-outside-toplevel
        routine.body = SubstituteExpressions({a.rhs: sym.Sum((a.rhs, sym.IntLiteral(1)))}).visit(routine.body)
    return True


# ---------------------------------------------------------------- C03

def mk_conservative(k):
    def f(p):
        if not edit_kth(p.entry, k):
            raise RuntimeError('no numeric assignment to edit')
        # as in the repository's own conservative tests, the program units enclosing the edit are marked by hand
        # (assigning routine.body does not invalidate the unit's own source)
        from loki.frontend.source import SourceStatus  # pylint: disable=import-outside-toplevel
        u = p.entry
        while u is not None:
            if getattr(u, 'source', None) is not None:
                u.source.status = SourceStatus.INVALID_CHILDREN
            contains = getattr(u, 'contains', None)
            if contains is not None and getattr(contains, 'source', None) is not None:
                contains.source.status = SourceStatus.INVALID_CHILDREN
            u = getattr(u, 'parent', None)
        if getattr(p.sourcefile.ir, 'source', None) is not None:
            p.sourcefile.ir.source.status = SourceStatus.INVALID_CHILDREN
        text = p.sourcefile.to_fortran(conservative=True)
        q = Prog.from_source(text, p.entry.name, absent=p.absent)
        p.text = None
        return (p, q)         # modified IR  vs  re-parsed conservative text
    return f


def _invalidate_units(p):
    from loki.frontend.source import SourceStatus  # pylint: disable=import-outside-toplevel
    u = p.entry
    while u is not None:
        if getattr(u, 'source', None) is not None:
            u.source.status = SourceStatus.INVALID_CHILDREN
        contains = getattr(u, 'contains', None)
        if contains is not None and getattr(contains, 'source', None) is not None:
            contains.source.status = SourceStatus.INVALID_CHILDREN
        u = getattr(u, 'parent', None)
    if getattr(p.sourcefile.ir, 'source', None) is not None:
        p.sourcefile.ir.source.status = SourceStatus.INVALID_CHILDREN


def edit_headers(routine, which):
    """second kind of local modification: the HEADER expressions of control-flow nodes (loop bounds, IF conditions) are
    changed by an expression substitution; returns the number of nodes changed"""
    from loki.ir import SubstituteExpressions  # pylint: disable=import-outside-toplevel
    mapper = {}
    if which in ('loops', 'both'):
        for l in FindNodes(ir.Loop).visit(routine.body):
            b = l.bounds
            if b.step is None or str(b.step) in ('1',):
                mapper[b] = sym.LoopRange((b.start, sym.Sum((b.stop, sym.IntLiteral(-1))), b.step))
    if which in ('conds', 'both'):
        for c in FindNodes(ir.Conditional).visit(routine.body):
            if not c.inline:
                mapper[c.condition] = sym.LogicalNot(c.condition)
    if mapper:
        routine.body = SubstituteExpressions(mapper).visit(routine.body)
    return len(mapper)


def mk_conservative_seq(k, which, header_first):
    """two modifications in sequence (body statement, then header expressions of the enclosing constructs -- or the other
    way round): every node whose text is re-used must still describe the current IR"""
    def f(p):
        steps = [lambda: edit_kth(p.entry, k), lambda: edit_headers(p.entry, which)]
        if header_first:
            steps.reverse()
        done = [st() for st in steps]
        if not all(done):
            raise RuntimeError('no numeric assignment / no header to edit')
        _invalidate_units(p)
        text = p.sourcefile.to_fortran(conservative=True)
        q = Prog.from_source(text, p.entry.name, absent=p.absent)
        p.text = None
        return (p, q)
    return f


def conservative_unmodified(p):
    text = p.sourcefile.to_fortran(conservative=True)
    q = Prog.from_source(text, p.entry.name, absent=p.absent)
    return q


# a conservative output that cannot be produced or cannot be read back is a violation ("no numeric assignment to edit" is not)
CONS_RAISES = ('FortranSyntaxError', 'TypeError', 'AttributeError', 'AssertionError', 'KeyError', 'IndexError', 'ValueError')


def c03_cases():
    out = []
    for name, src, entry, sizes in sources(pragmas=True):
        out.append(Case(f'{name}/unmodified', src, entry, sizes[:1], conservative_unmodified, 'conservative', must_change=False, trace_pragmas=name.startswith('prag-')))
        for k in (0, 1, 3):
            out.append(Case(f'{name}/edit{k}', src, entry, sizes[:1], mk_conservative(k), 'conservative', must_change=False, trace_pragmas=name.startswith('prag-'),
                            raise_is_violation=CONS_RAISES))
        for k, which, hf in ((0, 'loops', False), (1, 'conds', False), (0, 'both', True), (2, 'both', False)):
            out.append(Case(f"{name}/edit{k}-{'then' if not hf else 'after'}-{which}-headers", src, entry, sizes[:1],
                            mk_conservative_seq(k, which, hf), 'conservative', must_change=False, trace_pragmas=name.startswith('prag-'),
                            raise_is_violation=CONS_RAISES))
    return out


# ---------------------------------------------------------------- C17

def clone_equals(p):
    c = p.sourcefile.clone()
    return Prog.from_sourcefile(c, p.entry.name, absent=p.absent)


def clone_outlives(p):
    """the clone must not depend on the lifetime of the original (weak references into the original's IR)"""
    import gc  # pylint: disable=import-outside-toplevel
    c = p.sourcefile.clone()
    name, absent = p.entry.name, p.absent
    p.sourcefile, p.routines, p.modules, p.entry = None, [], [], None
    gc.collect()
    q = Prog.from_sourcefile(c, name, absent=absent)
    q.fortran()
    return Prog.from_source(p.text_orig, name, absent=absent), q


def _scopes_of(unit):
    out = {id(unit)}
    for r in getattr(unit, 'members', ()) or ():
        out |= _scopes_of(r)
    for r in getattr(unit, 'subroutines', ()) or ():
        out |= _scopes_of(r)
    return out


def assert_scoped_through(sf, what):
    """every symbol inside the kind / shape / initial value of a declared variable of ``sf`` must be attached to a
    scope of ``sf`` itself (property C17: symbols resolve their types through the clone and its own scope chain)"""
    from loki.expression import ExpressionRetriever  # pylint: disable=import-outside-toplevel
    own = set()
    units = list(sf.modules) + list(sf.routines)
    for u in units:
        own |= _scopes_of(u)
    todo = list(units)
    while todo:
        u = todo.pop()
        todo += list(getattr(u, 'members', ()) or ()) + list(getattr(u, 'subroutines', ()) or ())
        for v in u.variables:
            t = v.type
            exprs = [t.kind, t.initial] + list(t.shape or ())
            for e in exprs:
                if e is None or isinstance(e, str) or not hasattr(e, 'mapper_method'):
                    continue
                for x in ExpressionRetriever(lambda q: hasattr(q, 'scope')).retrieve(e):
                    sc = getattr(x, 'scope', None)
                    if sc is not None and id(sc) not in own:
                        if type(sc).__name__ in ('Subroutine', 'Function', 'Module'):
                            raise AssertionError(f'{what}: symbol {x} in the declaration of {u.name}%{v.name} is attached to a scope outside the unit ({sc})')


def retype_original_then_inline(src):
    """clone; change the value of every literal-valued module parameter of the ORIGINAL; the clone -- inlined with its own
    constants by the real inline_constant_parameters -- must behave like the unmodified program"""
    def f(p):
        from loki.transformations.inline import inline_constant_parameters  # pylint: disable=import-outside-toplevel
        c = p.sourcefile.clone()
        n = 0
        for m in p.sourcefile.modules:
            for v in m.variables:
                t = v.type
                if t.parameter and isinstance(t.initial, (sym.IntLiteral, sym.FloatLiteral)):
                    new = sym.IntLiteral(t.initial.value + 1) if isinstance(t.initial, sym.IntLiteral) else sym.FloatLiteral('7.25')
                    m.symbol_attrs[v.name] = t.clone(initial=new)
                    n += 1
        if not n:
            raise RuntimeError('no literal-valued module parameter to re-type')
        q = Prog.from_sourcefile(c, p.entry.name, absent=p.absent)
        inline_constant_parameters(q.entry, external_only=True)
        q.fortran()
        return Prog.from_source(src, p.entry.name, absent=p.absent), q
    return f


def original_typedefs_untouched(src):
    """clone; the ORIGINAL must keep resolving its derived-type names to its OWN type definitions (identity), and an
    in-place edit of the clone's type definitions (an extent of every array component is enlarged) must not reach the
    original, which is interpreted afterwards and compared with the pristine program"""
    def f(p):
        from loki import FindNodes, SubstituteExpressions  # pylint: disable=import-outside-toplevel
        c = p.sourcefile.clone()
        units = list(p.sourcefile.modules) + list(p.sourcefile.routines)
        n = 0
        for u in units:
            for td in FindNodes(ir.TypeDef).visit(u.spec):
                n += 1
                attrs = u.symbol_attrs.get(td.name)
                got = getattr(getattr(attrs, 'dtype', None), 'typedef', None)
                if got is not td:
                    owner = getattr(getattr(got, 'parent', None), 'name', None)
                    raise AssertionError(f'after clone the original {u.name} resolves type {td.name} to a definition that is not its own '
                                         f'(node of {"the clone" if got is not None else "nothing"}, parent {owner})')
        if not n:
            raise RuntimeError('no type definition to re-type')
        for u in list(c.modules) + list(c.routines):
            for td in FindNodes(ir.TypeDef).visit(u.spec):
                for decl in FindNodes(ir.VariableDeclaration).visit(td.body):
                    new = tuple(v.clone(dimensions=tuple(sym.Sum((d, sym.IntLiteral(1))) for d in v.dimensions))
                                if getattr(v, 'dimensions', None) else v for v in decl.symbols)
                    decl._update(symbols=new)   # in place: the clone owns these nodes
        p.text = None
        return Prog.from_source(src, p.entry.name, absent=p.absent), p
    return f


def clone_scoped(p):
    c = p.sourcefile.clone()
    assert_scoped_through(c, 'clone')
    assert_same_types(p.sourcefile, c, 'clone')
    return Prog.from_sourcefile(c, p.entry.name, absent=p.absent)


def mk_outlives(src):
    def f(p):
        p.text_orig = src
        return clone_outlives(p)
    return f


def mk_edit_clone(k):
    def f(p):
        c = p.sourcefile.clone()
        cp = Prog.from_sourcefile(c, p.entry.name, absent=p.absent)
        if not edit_kth(cp.entry, k):
            raise RuntimeError('no numeric assignment to edit')
        p.text = None
        return p              # the original after its clone was modified
    return f


def mk_edit_original(k):
    def f(p):
        c = p.sourcefile.clone()
        cp = Prog.from_sourcefile(c, p.entry.name, absent=p.absent)
        if not edit_kth(p.entry, k):
            raise RuntimeError('no numeric assignment to edit')
        return cp             # the clone after the original was modified
    return f


def routine_clone(p):
    r = p.entry.clone()
    q = Prog(p.routines, p.modules, r, None, p.absent)
    q.sourcefile = p.sourcefile
    q.fortran = lambda: p.sourcefile.to_fortran()
    return q


def c17_cases():
    out = []
    for name, src, entry, sizes in sources(pragmas=True):
        out.append(Case(f'{name}/clone-equals-original', src, entry, sizes[:1], clone_equals, 'clone', must_change=False, raise_is_violation=True, trace_pragmas=name.startswith('prag-')))
        out.append(Case(f'{name}/routine-clone', src, entry, sizes[:1], routine_clone, 'clone', must_change=False, trace_pragmas=name.startswith('prag-')))
        out.append(Case(f'{name}/clone-outlives-original', src, entry, sizes[:1], mk_outlives(src), 'clone', must_change=False,
                        raise_is_violation=True))
        out.append(Case(f'{name}/clone-symbols-scoped-through-clone', src, entry, sizes[:1], clone_scoped, 'clone', must_change=False,
                        raise_is_violation=('AssertionError',)))
        if 'end type' in src.lower():
            out.append(Case(f'{name}/original-typedefs-untouched-by-clone-edits', src, entry, sizes[:1], original_typedefs_untouched(src),
                            'clone', must_change=False, raise_is_violation=('AssertionError',)))
        if 'parameter' in src.lower() and 'module' in src.lower():
            out.append(Case(f'{name}/retype-original-parameters-then-inline-clone', src, entry, sizes[:1], retype_original_then_inline(src),
                            'clone', must_change=False))
        for k in (0, 2):
            out.append(Case(f'{name}/edit-clone-{k}', src, entry, sizes[:1], mk_edit_clone(k), 'clone', must_change=False, trace_pragmas=name.startswith('prag-')))
            out.append(Case(f'{name}/edit-original-{k}', src, entry, sizes[:1], mk_edit_original(k), 'clone', must_change=False, trace_pragmas=name.startswith('prag-')))
    return out


# ---------------------------------------------------------------- C18

def pickled_sourcefile(p):
    sf = pickle.loads(pickle.dumps(p.sourcefile))
    return Prog.from_sourcefile(sf, p.entry.name, absent=p.absent)


def _type_fingerprint(t):
    """attribute-by-attribute description of a SymbolAttributes object that can be compared across copies"""
    out = {}
    for k, v in sorted(getattr(t, '__dict__', {}).items()):
        if v is None or v is False:
            continue
        if k == 'module':
            out[k] = f'<module {getattr(v, "name", v)}>'
        elif k == 'dtype':
            out[k] = f'{type(v).__name__}:{v}'
        elif isinstance(v, (tuple, list)):
            out[k] = tuple(str(x) for x in v)
        else:
            out[k] = str(v)
    return out


def assert_same_types(sf1, sf2, what):
    """property C18: the symbols of the copy carry the same types as the original's (every attribute, including the link to
    the defining module of imported symbols) and are attached to the copy's own scopes"""
    def units(sf):
        todo = list(sf.modules) + list(sf.routines)
        out = []
        while todo:
            u = todo.pop(0)
            out.append(u)
            todo += list(getattr(u, 'members', ()) or ()) + list(getattr(u, 'subroutines', ()) or ())
        return out
    u1, u2 = units(sf1), units(sf2)
    if [u.name for u in u1] != [u.name for u in u2]:
        raise AssertionError(f'{what}: program units differ: {[u.name for u in u1]} vs {[u.name for u in u2]}')
    own = {id(u) for u in u2}
    for a, b in zip(u1, u2):
        names1 = sorted(str(k).lower() for k in a.symbol_attrs.keys())
        names2 = sorted(str(k).lower() for k in b.symbol_attrs.keys())
        if names1 != names2:
            raise AssertionError(f'{what}: symbol table of {a.name} differs: {sorted(set(names1) ^ set(names2))[:5]}')
        for n in names1:
            f1, f2 = _type_fingerprint(a.symbol_attrs[n]), _type_fingerprint(b.symbol_attrs[n])
            if f1 != f2:
                diff = {k: (f1.get(k), f2.get(k)) for k in set(f1) | set(f2) if f1.get(k) != f2.get(k)}
                raise AssertionError(f'{what}: type of {a.name}%{n} differs after the round trip: {diff}')
        for v in b.variables:
            sc = getattr(v, 'scope', None)
            if sc is not None and type(sc).__name__ in ('Subroutine', 'Function', 'Module') and id(sc) not in own:
                raise AssertionError(f'{what}: variable {v} of {b.name} is attached to a scope outside the copy')


def pickled_types(p):
    sf = pickle.loads(pickle.dumps(p.sourcefile))
    assert_same_types(p.sourcefile, sf, 'pickle')
    return Prog.from_sourcefile(sf, p.entry.name, absent=p.absent)


def pickled_units(p):
    routines = [pickle.loads(pickle.dumps(r)) for r in p.routines]
    modules = [pickle.loads(pickle.dumps(m)) for m in p.modules]
    allr = routines + [r for m in modules for r in m.subroutines]
    e = [r for r in allr if r.name.lower() == p.entry.name.lower()][0]
    q = Prog(routines, modules, e, None, p.absent)
    q.fortran = lambda: '\n'.join(x.to_fortran() for x in modules + routines)
    return q


def c18_cases():
    out = []
    for name, src, entry, sizes in sources(pragmas=True):
        out.append(Case(f'{name}/sourcefile', src, entry, sizes[:1], pickled_sourcefile, 'pickle', must_change=False, raise_is_violation=True, trace_pragmas=name.startswith('prag-')))
        out.append(Case(f'{name}/units', src, entry, sizes[:1], pickled_units, 'pickle', must_change=False, raise_is_violation=True, trace_pragmas=name.startswith('prag-')))
        out.append(Case(f'{name}/same-types', src, entry, sizes[:1], pickled_types, 'pickle', must_change=False, raise_is_violation=True))
    return out


# ---------------------------------------------------------------- C16

def attach_detach_all(p):
    from loki.ir import pragmas_attached, pragma_regions_attached, attach_pragmas, detach_pragmas  # pylint: disable=import-outside-toplevel
    from loki.ir import attach_pragma_regions, detach_pragma_regions  # pylint: disable=import-outside-toplevel
    from loki.analyse import dataflow_analysis_attached  # pylint: disable=import-outside-toplevel
    allr = p.routines + [r for m in p.modules for r in m.subroutines]
    for r in allr:
        with pragmas_attached(r, ir.Loop):
            with pragma_regions_attached(r):
                pass
        with dataflow_analysis_attached(r):
            pass
        with pragmas_attached(r, ir.CallStatement, attach_pragma_post=True):
            with dataflow_analysis_attached(r):
                pass
        r.body = detach_pragma_regions(attach_pragma_regions(r.body))
        r.body = detach_pragmas(attach_pragmas(r.body, ir.Loop), ir.Loop)
    p.text = None
    return p


def attach_detach_raising(p):
    from loki.ir import pragmas_attached, pragma_regions_attached  # pylint: disable=import-outside-toplevel
    from loki.analyse import dataflow_analysis_attached  # pylint: disable=import-outside-toplevel
    allr = p.routines + [r for m in p.modules for r in m.subroutines]
    for r in allr:
        for ctxm in (lambda: pragmas_attached(r, ir.Loop), lambda: pragma_regions_attached(r),
                     lambda: dataflow_analysis_attached(r)):
            try:
                with ctxm():
                    raise KeyError('body raises')
            except KeyError:
                pass
    p.text = None
    return p


def attach_detach_more(p):
    """further node types / flags, nested in both orders"""
    from loki.ir import pragmas_attached, pragma_regions_attached  # pylint: disable=import-outside-toplevel
    from loki.analyse import dataflow_analysis_attached  # pylint: disable=import-outside-toplevel
    allr = p.routines + [r for m in p.modules for r in m.subroutines]
    for r in allr:
        with pragmas_attached(r, ir.CallStatement, attach_pragma_post=False):
            pass
        with pragmas_attached(r, ir.VariableDeclaration):
            pass
        with pragmas_attached(r, (ir.Loop, ir.CallStatement), attach_pragma_post=True):
            with pragma_regions_attached(r):
                with dataflow_analysis_attached(r):
                    pass
        with pragma_regions_attached(r):
            with pragmas_attached(r, ir.Loop):
                pass
        try:
            with pragmas_attached(r, ir.CallStatement, attach_pragma_post=True):
                with pragma_regions_attached(r):
                    raise KeyError('body raises')
        except KeyError:
            pass
    p.text = None
    return p


def reparsed(f):
    """the generated code after the operation, read back by the frontend (what a user of the written file sees)"""
    def g(p):
        q = f(p)
        return Prog.from_source(q.fortran(), p.entry.name, absent=p.absent)
    return g


def same_structure_after(f):
    """the statement of C16 itself, on the real objects: generated code, number of IR nodes and the identities of the
    nodes that existed before are unchanged by attach + detach (a difference is a concrete failure: AssertionError)"""
    def g(p):
        from loki import FindNodes  # pylint: disable=import-outside-toplevel
        allr = _all_routines(p)
        before = [(r.name, r.to_fortran(), [id(n) for n in FindNodes(ir.Node).visit(r.body)]) for r in allr]
        q = f(p)
        for (name, text, ids), r in zip(before, allr):
            after = r.to_fortran()
            if after != text:
                bl, al = text.splitlines(), after.splitlines()
                k = next((i for i, (x, y) in enumerate(zip(bl, al)) if x != y), min(len(bl), len(al)))
                raise AssertionError(f'generated code of {name} differs after attach+detach at line {k + 1}: '
                                     f'{bl[k] if k < len(bl) else "<end>"!r} -> {al[k] if k < len(al) else "<end>"!r} '
                                     f'({len(bl)} -> {len(al)} lines)')
            now = {id(n) for n in FindNodes(ir.Node).visit(r.body)}
            if len(now) != len(ids):
                raise AssertionError(f'{name}: {len(ids)} IR nodes before, {len(now)} after attach+detach')
        return q
    g.__name__ = getattr(f, '__name__', 'op')
    return g


def c16_cases():
    from vlib.corpus import c16 as C16  # pylint: disable=import-outside-toplevel
    out = []
    for name, src, entry, sizes in sources():
        out.append(Case(f'{name}/attach-detach', src, entry, sizes[:1], attach_detach_all, 'attach-detach', must_change=False))
        out.append(Case(f'{name}/raising-body', src, entry, sizes[:1], attach_detach_raising, 'attach-detach', must_change=False))
    ops = (('attach-detach', attach_detach_all), ('raising-body', attach_detach_raising), ('more-combinations', attach_detach_more))
    for name, src, entry, sizes in C16.sources():
        for on, f in ops:
            out.append(Case(f'{name}/{on}', src, entry, sizes[:1], same_structure_after(f), 'attach-detach', must_change=False,
                            trace_pragmas=True, raise_is_violation=('AssertionError',)))
            out.append(Case(f'{name}/{on}/reparsed', src, entry, sizes[:1], reparsed(f), 'attach-detach', must_change=False, trace_pragmas=True))
    return out


# ---------------------------------------------------------------- C14 (behavioural projection)

def _all_routines(p):
    return p.routines + [r for m in p.modules for r in m.subroutines]


def tf_identity(cls_name, **kw):
    """an empty mapping (or a node mapped to an equal copy of itself) must give back a tree with the same meaning"""
    def f(p):
        from loki.ir import Transformer, NestedTransformer  # pylint: disable=import-outside-toplevel
        cls = {'Transformer': Transformer, 'NestedTransformer': NestedTransformer}[cls_name]
        for r in _all_routines(p):
            new = cls({}, **kw).visit(r.body)
            if not kw.get('inplace'):
                r.body = new
        p.text = None
        return p
    return f


def tf_self_copies(p):
    """every assignment is mapped to a freshly built equal node"""
    from loki.ir import Transformer  # pylint: disable=import-outside-toplevel
    for r in _all_routines(p):
        mapper = {a: a.clone() for a in FindNodes(ir.Assignment).visit(r.body)}
        r.body = Transformer(mapper).visit(r.body)
    p.text = None
    return p


def tf_inject_tuples(p):
    """one-to-many mappings: every k-th leaf statement n -> (comment, n) and n -> (n, comment) (tuples containing the node itself)"""
    from loki.ir import Transformer  # pylint: disable=import-outside-toplevel
    for r in _all_routines(p):
        nodes = FindNodes((ir.Assignment, ir.CallStatement)).visit(r.body)
        mapper = {}
        for k, n in enumerate(nodes):
            c = ir.Comment(text=f'! injected {k}')
            if k % 3 == 0:
                mapper[n] = (c, n)
            elif k % 3 == 1:
                mapper[n] = (n, c)
        r.body = Transformer(mapper).visit(r.body)
    p.text = None
    return p


def tf_remove_comments(p):
    """mapping to None removes exactly the mapped nodes: dropping every comment / pragma-free comment block keeps the meaning"""
    from loki.ir import Transformer  # pylint: disable=import-outside-toplevel
    for r in _all_routines(p):
        mapper = {c: None for c in FindNodes((ir.Comment, ir.CommentBlock)).visit(r.body)}
        r.body = Transformer(mapper).visit(r.body)
    p.text = None
    return p


def tf_nested_replace(p):
    """NestedTransformer: a loop / conditional and a statement inside it are both mapped (to equal copies): the inner
    replacement must survive the outer one"""
    from loki.ir import NestedTransformer  # pylint: disable=import-outside-toplevel
    for r in _all_routines(p):
        mapper = {}
        for outer in FindNodes((ir.Loop, ir.Conditional)).visit(r.body):
            mapper[outer] = outer.clone()
        for a in FindNodes(ir.Assignment).visit(r.body):
            mapper[a] = a.clone()
        r.body = NestedTransformer(mapper).visit(r.body)
    p.text = None
    return p


def tf_original_untouched(p):
    """without in-place mode the tree that was passed in is left unchanged (entry = the ORIGINAL after a destructive mapping
    was applied to produce a second tree)"""
    from loki.ir import Transformer  # pylint: disable=import-outside-toplevel
    for r in _all_routines(p):
        mapper = {a: None for a in FindNodes(ir.Assignment).visit(r.body)}
        _ = Transformer(mapper).visit(r.body)       # result dropped on purpose
    p.text = None
    return p


def c14_cases():
    out = []
    ops = [('identity', tf_identity('Transformer')), ('identity-nested', tf_identity('NestedTransformer')),
           ('identity-rebuild-scopes', tf_identity('Transformer', rebuild_scopes=True)),
           ('identity-inplace', tf_identity('Transformer', inplace=True)),
           ('self-copies', tf_self_copies), ('inject-tuples', tf_inject_tuples), ('remove-comments', tf_remove_comments),
           ('nested-replace', tf_nested_replace), ('original-untouched', tf_original_untouched)]
    for name, src, entry, sizes in sources(pragmas=True):
        for on, f in ops:
            if on == 'original-untouched' and 'associate' in src.lower():
                on = 'original-untouched-with-scoped-node'      # ASSOCIATE blocks are ScopedNodes: updated in place by design
            out.append(Case(f'{name}/{on}', src, entry, sizes[:1], f, 'transformer', must_change=False,
                            trace_pragmas=name.startswith('prag-'), raise_is_violation=CONS_RAISES))
    return out
