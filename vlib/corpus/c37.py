"""Templates for C37 (SCC pipelines) and C38 (temporary hoisting / stack allocation): driver + kernel call trees,
entry = driver; accelerator pragmas are comments for the interpreter (the property: "compiled without directives")."""
from loki import Dimension
from loki.batch import ProcedureItem, SGraph
from loki.transformations.single_column import (
    SCCVVectorPipeline, SCCSVectorPipeline, SCCVHoistPipeline, SCCSHoistPipeline,
    SCCVStackDirectIdxPipeline, SCCSStackDirectIdxPipeline, SCCVStackFtrPtrPipeline, SCCVRawStackPipeline
)
from vlib.tv import Case

HOR = dict(name='horizontal', size='nlon', index='jl', bounds=('start', 'end'), aliases=('nproma',))
VER = dict(name='vertical', size='nz', index='jk')
BLK = dict(name='blocking', size='nb', index='b')


def mk_pipeline(factory, label, directive='openacc', **kw):
    def f(p):
        horizontal, vertical, blocking = Dimension(**HOR), Dimension(**VER), Dimension(**BLK)
        allr = {r.name.lower(): r for r in p.routines + [x for m in p.modules for x in m.subroutines]}
        drv = allr['column_driver']
        kernels = [allr[n] for n in ('compute_column', 'inner_kernel') if n in allr]
        items = {r.name.lower(): ProcedureItem(name=f'scc_mod#{r.name.lower()}', source=p.sourcefile) for r in [drv] + kernels}
        edges = {items['column_driver']: [items['compute_column']]}
        if 'inner_kernel' in allr:
            edges[items['compute_column']] = [items['inner_kernel']]
        graph = SGraph.from_dict(edges)
        args = dict(horizontal=horizontal, block_dim=blocking, directive=directive)
        kw2 = dict(kw)
        with_vertical = kw2.pop('with_vertical', False)
        if with_vertical:
            pipe = factory(**args, vertical=vertical, **kw2)
        else:
            try:
                pipe = factory(**args, **kw2)
            except TypeError:
                pipe = factory(**args, vertical=vertical, **kw2)
        for k in reversed(kernels):
            targets = ['inner_kernel'] if k.name.lower() == 'compute_column' and 'inner_kernel' in allr else []
            pipe.apply(k, role='kernel', item=items[k.name.lower()], targets=targets, sub_sgraph=graph.get_sub_sgraph(items[k.name.lower()]) if hasattr(graph, 'get_sub_sgraph') else graph)
        pipe.apply(drv, role='driver', item=items['column_driver'], targets=['compute_column'], sub_sgraph=graph)
        p.text = None
    f.__name__ = label
    return f


PARKIND = """
module parkind1
  integer, parameter :: jwim = selected_int_kind(9)
  integer, parameter :: jprb = selected_real_kind(6, 30)
end module parkind1
"""

DRV = """
subroutine column_driver(nlon, nz, q, t, nb)
  use parkind1, only: jwim, jprb
  integer, intent(in) :: nlon, nz, nb
  real, intent(inout) :: q(nlon, nz, nb)
  real, intent(inout) :: t(nlon, nz, nb)
  integer :: b, start, end
  start = 1
  end = nlon
  do b=1, nb
    call compute_column(start, end, nlon, nz, q(:, :, b), t(:, :, b))
  end do
end subroutine column_driver
"""

KHDR = """
subroutine compute_column(start, end, nlon, nz, q, t)
  use parkind1, only: jwim, jprb
  integer, intent(in) :: start, end
  integer, intent(in) :: nlon, nz
  real, intent(inout) :: q(nlon, nz)
  real, intent(inout) :: t(nlon, nz)
{decls}
  integer :: jl, jk
  real :: c
{body}
end subroutine compute_column
"""

INNER = """
subroutine inner_kernel(start, end, nlon, nz, v, f)
  use parkind1, only: jwim, jprb
  integer, intent(in) :: start, end, nlon, nz
  real, intent(inout) :: v(nlon, nz)
  real, intent(in) :: f
  integer :: jl, jk
  real :: w(nlon)
  do jk = 1, nz
    do jl = start, end
      w(jl) = v(jl, jk)*f
      v(jl, jk) = w(jl) + jk
    end do
  end do
end subroutine inner_kernel
"""

KERNELS = {
    'vertical-recurrence': ('', '  c = 5.345\n  do jk = 2, nz\n    do jl = start, end\n      t(jl, jk) = c * jk\n      q(jl, jk) = q(jl, jk-1) + t(jl, jk) * c\n    end do\n  end do\n  do jl = start, end\n    q(jl, nz) = q(jl, nz) * c\n  end do'),
    'temporaries-2d-1d': ('  real :: tmp(nlon, nz)\n  real :: s(nlon)', '  c = 2.0\n  do jk = 1, nz\n    do jl = start, end\n      tmp(jl, jk) = q(jl, jk) * c + jk\n    end do\n  end do\n  do jl = start, end\n    s(jl) = tmp(jl, 1) + tmp(jl, nz)\n  end do\n  do jk = 1, nz\n    do jl = start, end\n      t(jl, jk) = tmp(jl, jk) - s(jl)\n      q(jl, jk) = s(jl)\n    end do\n  end do'),
    'vector-sections': ('  real :: s(nlon)', '  c = 1.5\n  s(start:end) = q(start:end, nz)\n  do jk = 1, nz\n    q(start:end, jk) = q(start:end, jk)*c + s(start:end)\n  end do\n  t(start:end, 1) = s(start:end)'),
    'conditional-horizontal': ('  real :: s(nlon)', '  c = 0.5\n  do jl = start, end\n    s(jl) = 0.\n  end do\n  do jk = 1, nz\n    do jl = start, end\n      if (q(jl, jk) > c) then\n        s(jl) = s(jl) + q(jl, jk)\n        t(jl, jk) = s(jl)\n      else\n        q(jl, jk) = c\n      end if\n    end do\n  end do'),
    # vertical loops in one fusion group; a half-level temporary (nz+1 levels) read at jk and jk+1: must not be demoted
    'fused-vertical-half-levels': ('  real :: zflux(nlon, nz+1)\n  real :: zt(nlon, nz)', '  c = 0.5\n  do jl = start, end\n    zflux(jl, 1) = 0.\n  end do\n  !$loki loop-fusion group(v)\n  do jk = 1, nz\n    do jl = start, end\n      zflux(jl, jk+1) = zflux(jl, jk) + q(jl, jk)*c\n    end do\n  end do\n  !$loki loop-fusion group(v)\n  do jk = 1, nz\n    do jl = start, end\n      zt(jl, jk) = zflux(jl, jk+1) - zflux(jl, jk)\n      t(jl, jk) = zt(jl, jk) + zflux(jl, jk+1)*jk\n    end do\n  end do'),
    'fused-vertical-full-levels': ('  real :: zt(nlon, nz)\n  real :: zs(nlon, nz)', '  c = 0.25\n  !$loki loop-fusion group(v)\n  do jk = 1, nz\n    do jl = start, end\n      zt(jl, jk) = q(jl, jk)*c + jk\n    end do\n  end do\n  !$loki loop-fusion group(v)\n  do jk = 1, nz\n    do jl = start, end\n      zs(jl, jk) = zt(jl, jk)*2.0\n      t(jl, jk) = zs(jl, jk) - zt(jl, jk)\n    end do\n  end do\n  do jl = start, end\n    q(jl, nz) = zt(jl, 1) + zs(jl, nz)\n  end do'),
    'vertical-outside-horizontal-mixed': ('  real :: s(nlon)', '  c = 3.0\n  do jl = start, end\n    s(jl) = q(jl, 1)\n    do jk = 2, nz\n      s(jl) = s(jl) + q(jl, jk)*c\n      t(jl, jk) = s(jl)\n    end do\n    q(jl, 1) = s(jl)\n  end do'),
}


def sources():
    out = []
    for name, (decls, body) in KERNELS.items():
        out.append((name, PARKIND + 'module scc_mod\ncontains\n' + DRV + KHDR.format(decls=decls, body=body) + 'end module scc_mod\n'))
    nested = KHDR.format(decls='  real :: tmp(nlon, nz)', body='  c = 2.0\n  do jk = 1, nz\n    do jl = start, end\n      tmp(jl, jk) = q(jl, jk) + c\n    end do\n  end do\n  call inner_kernel(start, end, nlon, nz, tmp, c)\n  do jk = 1, nz\n    do jl = start, end\n      t(jl, jk) = tmp(jl, jk)\n    end do\n  end do')
    out.append(('nested-kernel', PARKIND + 'module scc_mod\ncontains\n' + DRV + nested + INNER + 'end module scc_mod\n'))
    across = KHDR.format(decls='  real :: zsurf(nlon)\n  real :: tmp(nlon, nz)', body='  c = 2.0\n  do jl = start, end\n    zsurf(jl) = q(jl, 1)*c\n  end do\n  do jk = 1, nz\n    do jl = start, end\n      tmp(jl, jk) = q(jl, jk) + c\n    end do\n  end do\n  call inner_kernel(start, end, nlon, nz, tmp, c)\n  do jk = 1, nz\n    do jl = start, end\n      t(jl, jk) = tmp(jl, jk) + zsurf(jl)\n    end do\n  end do')
    out.append(('temp-across-nested-call', PARKIND + 'module scc_mod\ncontains\n' + DRV + across + INNER + 'end module scc_mod\n'))
    # the kernel's level count is NOT the driver's variable of the same name (the driver passes nz + 1 for the dummy nz),
    # and the temporaries have dimensions that are expressions / ranges over that dummy: what the driver allocates
    # must be sized in the driver's terms
    drv2 = DRV.replace('call compute_column(start, end, nlon, nz, q(:, :, b), t(:, :, b))',
                       'call compute_column(start, end, nlon, nz + 1, q(:, :, b), t(:, :, b))')
    k2 = KHDR.replace('q(nlon, nz)', 'q(nlon, nz-1)').replace('t(nlon, nz)', 't(nlon, nz-1)').format(
        decls='  real :: tmp0(nlon, 0:nz)\n  real :: wk2(nlon, 2*nz)',
        body='  c = 2.0\n  do jk = 0, nz\n    do jl = start, end\n      tmp0(jl, jk) = c*jk\n      wk2(jl, 2*nz - jk) = jk + 1.0\n    end do\n  end do\n'
             '  do jk = 1, nz-1\n    do jl = start, end\n      t(jl, jk) = tmp0(jl, jk+1) - tmp0(jl, jk-1) + q(jl, jk)\n      q(jl, jk) = wk2(jl, 2*nz - jk - 1) + tmp0(jl, nz)\n    end do\n  end do')
    out.append(('temporary-dims-in-callee-terms', PARKIND + 'module scc_mod\ncontains\n' + drv2 + k2 + 'end module scc_mod\n'))
    # Fortran is case-insensitive: the same call trees in IFS-style upper-case spelling of the kernel variables
    def upcase(src):
        import re as _re
        for w in ('zsurf', 'tmp', 'jl', 'jk', 'nlon', 'nz', 'start', 'end'):
            src = _re.sub(rf'(?<![A-Za-z_%]){w}(?![A-Za-z_0-9])(?! subroutine| module| do| if| data)', w.upper(), src)
        return src
    for nm, src in list(out):
        if nm in ('temp-across-nested-call', 'temporaries-2d-1d', 'conditional-horizontal'):
            up = upcase(src).replace('END subroutine', 'end subroutine').replace('END module', 'end module').replace('END do', 'end do').replace('END if', 'end if')
            out.append((nm + '-UPPER', up))
    return out


S = [{'nlon': 2, 'nz': 2, 'nb': 2}, {'nlon': 3, 'nz': 2, 'nb': 1}, {'nlon': 2, 'nz': 3, 'nb': 2}]


def c37_cases():
    out = []
    pipes = [('vvector', SCCVVectorPipeline, {}), ('svector', SCCSVectorPipeline, {}), ('vhoist', SCCVHoistPipeline, {}),
             ('shoist', SCCSHoistPipeline, {}), ('vvector-openmp', SCCVVectorPipeline, {'_dir': 'omp-gpu'}),
             ('vvector-vertical', SCCVVectorPipeline, {'with_vertical': True}), ('svector-vertical', SCCSVectorPipeline, {'with_vertical': True})]
    for name, src in sources():
        for pn, fac, kw in pipes:
            kw = dict(kw)
            d = kw.pop('_dir', 'openacc')
            out.append(Case(f'{name}/{pn}', src, 'column_driver', S, mk_pipeline(fac, pn, directive=d, **kw), 'scc'))
    return out


def c38_cases():
    out = []
    pipes = [('vhoist', SCCVHoistPipeline, {}), ('shoist', SCCSHoistPipeline, {}),
             ('vstack-directidx', SCCVStackDirectIdxPipeline, {}), ('sstack-directidx', SCCSStackDirectIdxPipeline, {}),
             ('vstack-ftrptr', SCCVStackFtrPtrPipeline, {}), ('vrawstack', SCCVRawStackPipeline, {})]
    for name, src in sources():
        if 'tmp' not in src and 's(nlon)' not in src:
            continue
        for pn, fac, kw in pipes:
            out.append(Case(f'{name}/{pn}', src, 'column_driver', S, mk_pipeline(fac, pn, **kw), 'temporaries'))
    from vlib.corpus.c38pool import cases as pool_cases  # pylint: disable=import-outside-toplevel
    return out + pool_cases()
