"""Pragma-rich templates for C16: annotations before/after loops, calls and declarations, in THEN / ELSE IF / ELSE
branches, inside loop bodies, consecutive pragmas, matched / nested / unmatched regions.  The pragma annotations an
execution reaches are part of the observable trace (Interp.trace_pragmas)."""

CALLEE = """
subroutine sub1(n, v)
  integer, intent(in) :: n
  real, intent(inout) :: v(n)
  integer :: j
  !$loki routine seq
  do j=1,n
    v(j) = v(j) + 1.0
  end do
end subroutine sub1
"""

HEAD = """
subroutine pk(n, x, y, k, flag)
  integer, intent(in) :: n
  real, intent(inout) :: x(n)
  real, intent(in) :: y
  integer, intent(inout) :: k
  logical, intent(in) :: flag
  integer :: i, j
{spec}
{body}
end subroutine pk
"""


def src(body, spec='  real :: w(n)'):
    return CALLEE + HEAD.format(spec=spec, body=body)


B = {
    'loops-before-after': """
  !$loki loop-fusion group(a)
  do i=1,n
    w(i) = x(i) + y
  end do
  !$loki after-first
  !$acc parallel loop
  !$loki second-of-two
  do i=1,n
    x(i) = w(i)*2.0
  end do
  !$acc end parallel loop
""",
    'code-after-return': """
  do i=1,n
    w(i) = x(i) + y
  end do
  if (k > 100) then
    k = 0
    return
    k = -1
  end if
  !$loki before-second
  do i=1,n
    x(i) = w(i)*2.0
  end do
  return
  !$loki data
  !$acc parallel loop
  do i=1,n
    x(i) = -x(i)
  end do
  !$loki end data
  !$loki tail-call
  call sub1(n, x)
  k = k - 1
""",
    'branches-loops': """
  do i=1,n
    w(i) = x(i)
  end do
  if (flag) then
    !$loki then-loop
    do i=1,n
      x(i) = w(i)*2.0
    end do
  else if (k > 0) then
    !$loki elseif-loop
    do i=1,n
      x(i) = w(i) - 1.0
    end do
    !$loki elseif-post
  else
    !$loki else-loop
    do i=1,n
      x(i) = -w(i)
    end do
  end if
  !$loki after-if
""",
    'branches-calls': """
  w(1) = y
  if (k > 2) then
    !$loki then-call
    call sub1(n, x)
  else if (flag) then
    k = k + 1
    !$loki elseif-call
    call sub1(n, x)
    !$loki update host(x)
  else
    !$loki else-call
    call sub1(n, x)
    !$loki update device(x)
  end if
  x(1) = x(1) + w(1)
""",
    'nested-else-depth': """
  w(1) = 0.0
  if (flag) then
    x(1) = y
  else
    if (k > 0) then
      x(2) = y
    else
      do j=1,2
        !$loki inner-call
        call sub1(n, x)
        !$loki inner-post
      end do
    end if
    !$loki tail-of-else
  end if
""",
    'inside-loop-body': """
  do i=1,n
    !$loki in-body-before-assign
    w(i) = x(i)
    if (x(i) > y) then
      x(i) = y
    else
      !$loki in-body-else
      do j=1,1
        x(i) = x(i) + 1.0
      end do
    end if
    !$loki in-body-tail
  end do
""",
    'regions-matched-nested': """
  w(1) = 1.0
  !$acc data copy(x)
  !$loki data in(y)
  do i=1,n
    x(i) = x(i) + y
  end do
  !$loki end data
  if (flag) then
    k = k + 1
  else
    !$loki data inout(x)
    call sub1(n, x)
    !$loki end data
  end if
  !$acc end data
""",
    'regions-unmatched': """
  w(1) = 1.0
  !$loki data in(y)
  do i=1,n
    x(i) = x(i) + y
  end do
  if (.not. flag) then
    x(1) = 0.0
  else
    !$loki end data
    !$loki stray-end-in-else
    call sub1(n, x)
  end if
  !$loki end other
""",
    'early-return-skips-pragmas': """
  w(1) = 1.0
  !$loki before-return
  if (k < 0) return
  !$loki after-return
  do i=1,n
    x(i) = x(i)*w(1)
  end do
  !$loki last
""",
}

SPECS = {
    'decl-pragmas': ('  !$loki dimension(n)\n  real :: w(n)\n  !$loki after-decl\n  real :: t', """
  t = y
  !$loki first-exec
  do i=1,n
    w(i) = t
    x(i) = x(i) + w(i)
  end do
"""),
}


def sources():
    out = []
    for name, body in B.items():
        out.append((f'prag-{name}', src(body), 'pk', [{'n': 3}]))
    for name, (spec, body) in SPECS.items():
        out.append((f'prag-{name}', src(body, spec), 'pk', [{'n': 3}]))
    return out
