"""Templates for C31: loop unrolling on constant bounds (always legal) and fusion / fission / interchange / blocking on
nests whose legality holds by construction (independent iterations, equal ranges)."""
from loki import FindNodes, ir
from loki.transformations.transform_loop import do_loop_unroll, do_loop_fusion, do_loop_fission, do_loop_interchange
from loki.transformations.loop_blocking import split_loop, block_loop_arrays
from vlib.tv import Case


def unroll(p):
    do_loop_unroll(p.entry)


def fusion(p):
    do_loop_fusion(p.entry)


def fission(p):
    do_loop_fission(p.entry)


def fission_nopromote(p):
    do_loop_fission(p.entry, promote=False)


def interchange(p):
    do_loop_interchange(p.entry)


def interchange_project(p):
    do_loop_interchange(p.entry, project_bounds=True)


def mk_split(bs):
    def f(p):
        loops = FindNodes(ir.Loop).visit(p.entry.body)
        split_loop(p.entry, loops[0], bs)
    f.__name__ = f'split{bs}'
    return f


def mk_block(bs):
    def f(p):
        loops = FindNodes(ir.Loop).visit(p.entry.body)
        sv, inner, outer = split_loop(p.entry, loops[0], bs)
        block_loop_arrays(p.entry, sv, inner, outer, ('i',))
    f.__name__ = f'block{bs}'
    return f


UN = """
subroutine k(s, a)
  integer, intent(inout) :: s
  integer, intent(inout) :: a(10)
  integer :: i, j
{body}
end subroutine k
"""

LP = """
subroutine k(n, m, a, b, c)
  integer, intent(in) :: n, m
  real, intent(inout) :: a(n), c(n, m)
  real, intent(in) :: b(n)
  integer :: i, j
  real :: t
{body}
end subroutine k
"""


def cases():
    out = []
    # ---- unrolling: every sign / step / emptiness combination of literal bounds
    grid = [(1, 4, None), (1, 4, 1), (1, 5, 2), (2, 7, 3), (5, 1, -1), (5, 1, -2), (6, 1, -2), (4, 4, -1), (3, 3, 1), (3, 3, -2),
            (1, 0, 1), (0, 1, -1), (-2, 7, 2), (-2, -6, -2), (7, -2, -3), (1, 10, 4), (10, 1, -4), (0, 0, None)]
    for a, b, c in grid:
        hdr = f'{a}, {b}' + (f', {c}' if c is not None else '')
        body = f'  !$loki loop-unroll\n  do i={hdr}\n    s = s*2 + i\n  end do'
        out.append(Case(f'unroll/{a}:{b}:{c}', UN.format(body=body), 'k', [{}], unroll, 'loop-unroll'))
    out.append(Case('unroll/array-index', UN.format(body='  !$loki loop-unroll\n  do i=9, 3, -3\n    a(i) = a(i+1) + i\n  end do'), 'k', [{}], unroll, 'loop-unroll'))
    out.append(Case('unroll/nested-depth2', UN.format(body='  !$loki loop-unroll\n  do i=1, 3\n    do j=3, 1, -1\n      s = s + i*10 + j\n      a(i+j) = s\n    end do\n  end do'), 'k', [{}], unroll, 'loop-unroll'))
    out.append(Case('unroll/nested-depth1', UN.format(body='  !$loki loop-unroll 1\n  do i=4, 2, -1\n    do j=1, 2\n      s = s*3 + i - j\n    end do\n  end do'), 'k', [{}], unroll, 'loop-unroll'))
    out.append(Case('unroll/inner-only', UN.format(body='  do i=1, 3\n    !$loki loop-unroll\n    do j=2, 0, -1\n      s = s + i*j\n    end do\n  end do'), 'k', [{}], unroll, 'loop-unroll'))
    out.append(Case('unroll/loop-variable-read-after-loop', UN.format(body='  !$loki loop-unroll\n  do i=1, 3\n    s = s + i\n  end do\n  a(1) = i'), 'k', [{}], unroll, 'loop-unroll'))
    out.append(Case('unroll/uses-var-after', UN.format(body='  !$loki loop-unroll\n  do i=1, 3\n    s = s + i\n  end do\n  a(1) = s'), 'k', [{}], unroll, 'loop-unroll'))
    out.append(Case('unroll/conditional-body', UN.format(body='  !$loki loop-unroll\n  do i=3, -1, -2\n    if (a(i+2) > s) then\n      s = s + a(i+2)\n    else\n      a(i+2) = s - i\n    end if\n  end do'), 'k', [{}], unroll, 'loop-unroll'))
    # ---- fusion (same range, independent iterations)
    S = [{'n': 3, 'm': 2}, {'n': 4, 'm': 3}]
    out.append(Case('fusion/two-loops', LP.format(body='  !$loki loop-fusion\n  do i=1,n\n    a(i) = b(i) + 1.\n  end do\n  !$loki loop-fusion\n  do i=1,n\n    c(i,1) = b(i)*2.\n  end do'), 'k', S, fusion, 'loop-fusion'))
    out.append(Case('fusion/producer-consumer-same-i', LP.format(body='  !$loki loop-fusion\n  do i=1,n\n    a(i) = b(i) + 1.\n  end do\n  !$loki loop-fusion\n  do i=1,n\n    c(i,1) = a(i)*2.\n  end do'), 'k', S, fusion, 'loop-fusion'))
    out.append(Case('fusion/groups', LP.format(body='  !$loki loop-fusion group(g1)\n  do i=1,n\n    a(i) = b(i)\n  end do\n  !$loki loop-fusion group(g2)\n  do j=1,m\n    c(1,j) = 1.\n  end do\n  !$loki loop-fusion group(g1)\n  do i=1,n\n    a(i) = a(i)*2. + b(i)\n  end do\n  !$loki loop-fusion group(g2)\n  do j=1,m\n    c(2,j) = c(2,j) + 2.\n  end do'), 'k', S, fusion, 'loop-fusion'))
    out.append(Case('fusion/statement-between', LP.format(body='  !$loki loop-fusion\n  do i=1,n\n    a(i) = b(i)\n  end do\n  t = 2.\n  !$loki loop-fusion\n  do i=1,n\n    c(i,1) = b(i)*3.\n  end do\n  c(1,2) = t'), 'k', S, fusion, 'loop-fusion'))
    out.append(Case('fusion/different-var-names', LP.format(body='  !$loki loop-fusion\n  do i=1,n\n    a(i) = b(i)\n  end do\n  !$loki loop-fusion\n  do j=1,n\n    c(j,1) = b(j)\n  end do'), 'k', S, fusion, 'loop-fusion'))
    # collapse(2): nests whose loop variables are renamed to the leader's; names of the follower overlap the leader's at other levels
    LP2 = LP.replace('integer :: i, j', 'integer :: i, j, ii, jj').replace('real, intent(inout) :: a(n), c(n, m)', 'real, intent(inout) :: a(n), c(n, m), d(n, m)').replace('subroutine k(n, m, a, b, c)', 'subroutine k(n, m, a, b, c, d)')
    for nm, (o1, i1), (o2, i2) in (('same-names', ('i', 'j'), ('i', 'j')), ('new-names', ('i', 'j'), ('ii', 'jj')),
                                   ('inner-reuses-outer-name', ('i', 'j'), ('ii', 'i')), ('swapped-names', ('i', 'j'), ('j', 'i')),
                                   ('outer-reuses-inner-name', ('i', 'j'), ('j', 'jj'))):
        body = (f'  !$loki loop-fusion collapse(2)\n  do {o1}=1,n\n    do {i1}=1,m\n      c({o1}, {i1}) = b({o1}) + {i1}\n    end do\n  end do\n'
                f'  !$loki loop-fusion collapse(2)\n  do {o2}=1,n\n    do {i2}=1,m\n      d({o2}, {i2}) = 100.*{o2} + {i2} + b({o2})\n    end do\n  end do')
        out.append(Case(f'fusion/collapse2-{nm}', LP2.format(body=body), 'k', S, fusion, 'loop-fusion'))
    body3 = ('  !$loki loop-fusion collapse(2)\n  do i=1,n\n    do j=1,m\n      c(i, j) = b(i)\n    end do\n  end do\n'
             '  !$loki loop-fusion collapse(2)\n  do ii=1,n\n    do i=1,m\n      d(ii, i) = 10.*ii + i\n    end do\n  end do\n'
             '  !$loki loop-fusion collapse(2)\n  do j=1,n\n    do ii=1,m\n      d(j, ii) = d(j, ii) + c(j, ii)*ii - j\n    end do\n  end do')
    out.append(Case('fusion/collapse2-three-nests-rotating-names', LP2.format(body=body3), 'k', S, fusion, 'loop-fusion'))
    out.append(Case('fusion/range-pragma', LP.format(body='  !$loki loop-fusion range(1:n)\n  do i=1,n\n    a(i) = b(i)\n  end do\n  !$loki loop-fusion range(1:n)\n  do i=1,n-1\n    c(i,1) = b(i)\n  end do'), 'k', S, fusion, 'loop-fusion'))
    # ---- fission (no dependence across the fission point other than promoted scalars)
    out.append(Case('fission/independent', LP.format(body='  do i=1,n\n    a(i) = b(i) + 1.\n    !$loki loop-fission\n    c(i,1) = b(i)*2.\n  end do'), 'k', S, fission, 'loop-fission'))
    out.append(Case('fission/scalar-carried-promote', LP.format(body='  do i=1,n\n    t = b(i)*2.\n    a(i) = t\n    !$loki loop-fission promote(t)\n    c(i,1) = t + 1.\n  end do'), 'k', S, fission, 'loop-fission'))
    out.append(Case('fission/auto-promote', LP.format(body='  do i=1,n\n    t = b(i)*2.\n    a(i) = t\n    !$loki loop-fission\n    c(i,1) = t + 1.\n  end do'), 'k', S, fission, 'loop-fission'))
    out.append(Case('fission/two-points', LP.format(body='  do i=1,n\n    a(i) = b(i)\n    !$loki loop-fission\n    c(i,1) = a(i)\n    !$loki loop-fission\n    c(i,2) = c(i,1) + b(i)\n  end do'), 'k', S, fission, 'loop-fission'))
    out.append(Case('fission/collapse2', LP.format(body='  do j=1,m\n    do i=1,n\n      c(i,j) = b(i)\n      !$loki loop-fission collapse(2)\n      a(i) = a(i) + 1.\n    end do\n  end do'), 'k', S, fission, 'loop-fission'))
    # ---- interchange (rectangular, independent)
    out.append(Case('interchange/rect', LP.format(body='  !$loki loop-interchange\n  do i=1,n\n    do j=1,m\n      c(i,j) = b(i)*j\n    end do\n  end do'), 'k', S, interchange, 'loop-interchange'))
    out.append(Case('interchange/explicit-order', LP.format(body='  !$loki loop-interchange (j, i)\n  do i=1,n\n    do j=1,m\n      c(i,j) = c(i,j) + b(i)\n    end do\n  end do'), 'k', S, interchange, 'loop-interchange'))
    out.append(Case('interchange/rect-project', LP.format(body='  !$loki loop-interchange\n  do i=1,n\n    do j=1,m\n      c(i,j) = b(i)*j\n    end do\n  end do'), 'k', S, interchange_project, 'loop-interchange'))
    out.append(Case('interchange/triangular-project', LP.format(body='  !$loki loop-interchange\n  do i=1,n\n    do j=1,i\n      c(i,min(j,m)) = c(i,min(j,m)) + 1.\n    end do\n  end do'), 'k', [{'n': 3, 'm': 3}], interchange_project, 'loop-interchange'))
    TRI = """
subroutine k(c)
  integer, intent(inout) :: c(8, 8)
  integer :: i, j
{body}
end subroutine k
"""
    tri = {'lit-outer-start-above': '  do i=3,8\n    do j=1,i\n      c(i,j) = c(i,j) + i*10 + j\n    end do\n  end do',
           'lit-outer-stop-below': '  do i=1,4\n    do j=i,8\n      c(i,j) = c(i,j) + i - j\n    end do\n  end do',
           'lit-implied': '  do i=1,6\n    do j=1,i\n      c(i,j) = c(i,j)*2 + 1\n    end do\n  end do',
           'lit-offset-inner': '  do i=2,7\n    do j=i-1,i+1\n      c(i,j) = c(i,j) + 1\n    end do\n  end do',
           'lit-rect': '  do i=2,5\n    do j=3,7\n      c(i,j) = i*j\n    end do\n  end do'}
    for tn, body in tri.items():
        out.append(Case(f'interchange/tri-{tn}/project', TRI.format(body='  !$loki loop-interchange\n' + body), 'k', [{}], interchange_project, 'loop-interchange'))
    out.append(Case('interchange/tri-lit-rect/plain', TRI.format(body='  !$loki loop-interchange\n' + tri['lit-rect']), 'k', [{}], interchange, 'loop-interchange'))
    # ---- blocking
    SB = [{'n': 5, 'm': 1}, {'n': 4, 'm': 1}, {'n': 7, 'm': 1}]
    for bs in (2, 3, 4):
        out.append(Case(f'split/bs{bs}', LP.format(body='  do i=1,n\n    a(i) = b(i)*2. + i\n  end do'), 'k', SB, mk_split(bs), 'loop-blocking'))
    out.append(Case('split/offset-start', LP.format(body='  do i=2,n\n    a(i) = b(i-1)\n  end do'), 'k', SB, mk_split(2), 'loop-blocking'))
    out.append(Case('block-arrays/bs2', LP.format(body='  do i=1,n\n    a(i) = b(i) + 1.\n  end do'), 'k', SB, mk_block(2), 'loop-blocking'))
    return out
