"""Templates for C36: Fortran kernels in the subset FortranPythonTransformation/pygen handle (scalars, arrays, DO and
DO WHILE loops, IF chains, the mapped intrinsics, casts), one feature family per group."""
from vlib.tv import Case
from vlib.pyequiv import check_py, replay_py

DECL = {
    'n': 'integer, intent(in) :: n', 'i1': 'integer, intent(in) :: i1', 'i2': 'integer, intent(in) :: i2',
    'x': 'real(kind=real64), intent(in) :: x', 'y': 'real(kind=real64), intent(in) :: y',
    'flag': 'logical, intent(in) :: flag', 'flag2': 'logical, intent(in) :: flag2',
    's': 'real(kind=real64), intent(out) :: s', 'k2': 'integer, intent(out) :: k2', 'lres': 'logical, intent(out) :: lres',
    'q': 'real(kind=real64), intent(inout) :: q', 'm': 'integer, intent(inout) :: m',
    'a': 'integer, intent(inout) :: a(n)', 'b': 'real(kind=real64), intent(inout) :: b(n, 2)',
    'c': 'real(kind=real64), intent(inout) :: c(n)', 'd': 'real(kind=real64), intent(out) :: d(n)',
    'a0': 'integer, intent(inout) :: a0(0:n)', 'e': 'integer, intent(in) :: e(n)',
    'r32': 'real(kind=real32), intent(out) :: r32',
    # index arrays: their VALUES are fixed per size instance (section bounds / subscripts have to be concrete)
    'lo': 'integer, intent(in) :: lo(2)', 'hi': 'integer, intent(in) :: hi(2)', 'idx': 'integer, intent(in) :: idx(n)',
}
INIT = {'s': 's = 0.0', 'k2': 'k2 = 0', 'lres': 'lres = .false.', 'd': 'do i0 = 1, n\n    d(i0) = 0.0\n  end do', 'r32': 'r32 = 0.0'}


def kern(args, body, local=''):
    args = args.split()
    lines = [f"subroutine kern({', '.join(args)})", '  use iso_fortran_env, only: real64, real32', '  implicit none']
    lines += [f'  {DECL[a]}' for a in args]
    lines += ['  integer :: i, j, k, i0', '  real(kind=real64) :: r, t']
    if local:
        lines += [f'  {l}' for l in local.split('\n')]
    lines += [f'  {INIT[a]}' for a in args if a in INIT]
    lines += ['  ' + l for l in body.strip('\n').split('\n')]
    lines.append('end subroutine kern')
    return '\n'.join(lines) + '\n'


def _custom(case, sizes):
    try:
        r = check_py(case.src, 'kern', sizes, unwind=case.unwind)
    except Exception as ex:  # pylint: disable=broad-except
        if type(ex).__name__ == 'TransformationError':
            return {'verdict': 'transform-raises', 'why': f'{type(ex).__name__}: {str(ex)[-160:]}'}
        raise
    r['changed'] = True
    if r['verdict'] == 'sat':
        try:
            rep, msg = replay_py(case.src, 'kern', sizes, r.get('model'), r['python'], 'kern_py')
        except Exception as ex:  # pylint: disable=broad-except
            rep, msg = None, f'replay crashed: {type(ex).__name__}: {ex}'
        r['replayed'], r['replay_msg'] = rep, msg
        r['transformed'] = r['python'][-1500:]
    r.pop('python', None)
    return r


T = [
    # ---------------------------------------------------------------- integer / real arithmetic, literals, conversions
    ('arith', 'int-add-mul-neg', 'i1 i2 k2', 'k2 = i1*i2 - (i1 - i2)*3 + (-i1) - (-(i2 + 1))'),
    ('arith', 'int-power-sign', 'i1 i2 k2', 'k2 = -i1**2 + (-i1)**2 + i2**3 - 2**i1'),
    ('arith', 'int-nested-parens', 'i1 i2 k2', 'k2 = i1 - (i2 - (i1 - (i2 + 1))) - (i1 + i2)*(i1 - i2)'),
    ('arith', 'real-arith', 'x y s', 's = x*y - (x - y)/2.0 + x/y - (-x)*(y + 1.0)'),
    ('arith', 'mixed-arith', 'x i1 i2 s', 's = x*i1 + i2 - x/2 + 1./2 + (i1 - i2)*x'),
    ('arith', 'real-literals', 'x s', 's = 1.5 + 2.0e0 + 1._real64 + 0.25e1 + 1.e-1*x'),
    ('arith', 'double-literals', 'x s', 's = 2.d0 + x*1.5d0 - 1.0d-1'),
    ('arith', 'real-power', 'x i2 s', 's = x**2 + x**i2 - (x + 1.0)**3'),
    ('arith', 'int-to-real-assign', 'i1 i2 s', 's = i1\ns = s + i2*2'),
    ('arith', 'real-to-int-array-store', 'n x a', 'a(1) = x*2\na(n) = -x'),
    ('arith', 'cast-real-kind', 'i1 i2 s', 's = real(i1, kind=real64)/2 + real(i2, kind=real64)*real(i1, kind=real64)'),
    ('arith', 'cast-of-int-quotient', 'i1 i2 s', 's = real(i1/2, kind=real64) + real(i1*i2/3, kind=real64) - real(7/i2, kind=real64)'),
    ('arith', 'cast-of-int-expressions', 'i1 i2 s', 's = real(i1*i2, kind=real64)/4 + real(i1 - i2, kind=real64)/2 + real(-i1, kind=real64)/8 + real(i1**2, kind=real64)/16'),
    ('arith', 'cast-of-array-element-quotient', 'n a c', 'do i = 1, n\n  c(i) = real(a(i)/2, kind=real64) + real(a(i), kind=real64)/2\nend do'),
    ('arith', 'cast-real-default', 'i1 s', 's = real(i1)/4'),
    ('arith', 'parameter-constants', 'i1 x k2 s', 'k2 = p*i1 + p\ns = w*x', 'integer, parameter :: p = 3\nreal(kind=real64), parameter :: w = 2.5_real64'),
    ('arith', 'inout-scalars', 'x i1 q m s k2', 'q = q + x\nm = m*2 + i1\ns = q*2\nk2 = m - 1'),
    ('intdiv', 'int-division-vars', 'i1 i2 k2', 'k2 = i1/i2'),
    ('intdiv', 'int-division-const', 'i1 k2', 'k2 = (i1 + 7)/2'),
    ('intdiv', 'int-division-in-real-expr', 'x i1 s', 's = x + i1/2'),
    ('intdiv', 'int-division-literals', 's', 's = 1/2'),
    ('intdiv', 'int-division-exact-only', 'i1 k2', 'k2 = (2*i1)/2 + (i1*4)/4'),
    ('intdiv', 'int-division-as-index', 'n i1 a k2', 'if (i1 >= 1 .and. i1 <= n) then\n  k2 = a((i1 + 1)/2)\nend if'),
    ('intdiv', 'int-division-into-int-array', 'n i1 a', 'a(1) = i1/2\na(2) = -i1/2'),
    ('conv', 'real-to-int-scalar', 'x k2', 'k2 = x'),
    ('conv', 'real-to-int-local', 'x i1 k2', 'k = x*2\nk2 = k + i1'),
    ('conv', 'real-expr-to-int-compare', 'x y lres', 'k = x + y\nlres = k > 1'),
    # ---------------------------------------------------------------------------------------------------- logicals
    ('logic', 'and-or-not', 'flag flag2 i1 i2 lres', 'lres = flag .and. .not. flag2 .or. i1 > i2 .and. (flag2 .or. i1 == 2)'),
    ('logic', 'eqv-neqv', 'flag flag2 i1 lres', 'lres = (flag .eqv. i1 < 2) .neqv. (flag2 .eqv. flag)'),
    ('logic', 'neqv-of-compare', 'flag i1 i2 lres', 'lres = flag .or. (i1 >= i2 .neqv. i1 /= 2)'),
    ('logic', 'not-of-compound', 'flag flag2 i1 lres', 'lres = .not. (flag .and. flag2) .and. .not. (i1 <= 0 .or. flag)'),
    ('logic', 'literals', 'flag lres', 'lres = .true.\nif (flag) lres = .false. .or. flag'),
    ('logic', 'real-compare', 'x y lres', 'lres = x < y .or. x >= 2.0*y .and. x /= 0.0'),
    ('logic', 'compare-of-arith', 'i1 i2 lres', 'lres = i1 + 1 > i2*2 .eqv. -i1 < i2 - 1'),
    # ------------------------------------------------------------------------------------------------ control flow
    ('control', 'if-elseif-else', 'i1 x s', 'if (i1 > 2) then\n  s = x\nelse if (i1 == 0) then\n  s = -x\nelse if (i1 < -2) then\n  s = 2*x\nelse\n  s = 1.0\nend if'),
    ('control', 'nested-if', 'i1 i2 flag k2', 'if (flag) then\n  if (i1 > i2) then\n    k2 = 1\n  else\n    k2 = 2\n  end if\n  k2 = k2 + 10\nelse\n  if (i1 == i2) k2 = 3\nend if'),
    ('control', 'single-line-if', 'i1 k2', 'k2 = 5\nif (i1 > 0) k2 = k2 + i1\nif (i1 < 0) k2 = k2 - i1'),
    ('control', 'loop-unit-step', 'n a', 'do i = 1, n\n  a(i) = a(i) + i\nend do'),
    ('control', 'loop-step-2', 'n a i1', 'do i = 1, n, 2\n  a(i) = a(i) + i1 - (-i1)\nend do'),
    ('control', 'loop-negative-step', 'n a', 'k = 0\ndo i = n, 1, -1\n  k = k + 1\n  a(i) = a(i)*2 + k\nend do'),
    ('control', 'loop-negative-step-2', 'n a', 'do i = n, 1, -2\n  a(i) = i\nend do'),
    ('control', 'loop-inner-bounds', 'n a', 'do i = 2, n - 1\n  a(i) = a(i - 1) + a(i + 1)\nend do'),
    ('control', 'loop-zero-trip', 'n a k2', 'k2 = 7\ndo i = n, 1\n  k2 = 0\n  a(i) = 0\nend do\ndo i = 3, 2\n  k2 = k2 + 1\nend do'),
    ('control', 'loop-nest-2d', 'n b', 'do j = 1, 2\n  do i = 1, n\n    b(i, j) = 10.*j + i\n  end do\nend do'),
    ('control', 'loop-triangular', 'n a', 'do i = 1, n\n  do j = i, n\n    a(j) = a(j) + i\n  end do\nend do'),
    ('control', 'loop-with-branches', 'n a x flag s', 'do i = n, 1, -1\n  if (a(i) > 0 .and. .not. flag) then\n    s = s + a(i)*x\n  else if (a(i) == 0) then\n    s = s - 1\n  else\n    s = s + 2\n  end if\nend do'),
    ('control', 'loop-accumulate', 'n c s', 'do i = 1, n\n  s = s + c(i)*c(i)\nend do\ns = s/n'),
    ('control', 'while-loop', 'n k2', 'i = 0\nk2 = 0\ndo while (i < n)\n  i = i + 1\n  k2 = k2 + i\nend do'),
    ('control', 'while-input-dependent', 'i1 k2', 'k = i1\ndo while (k > 0)\n  k = k - 2\n  k2 = k2 + 1\nend do'),
    ('control', 'loop-variable-after-loop', 'n k2', 'do i = 1, n\n  k2 = k2 + 1\nend do\nk2 = k2 + i'),
    ('control', 'cycle-in-loop', 'n a', 'do i = 1, n\n  if (a(i) < 0) cycle\n  a(i) = 0\nend do'),
    ('control', 'exit-in-loop', 'n a k2', 'do i = 1, n\n  if (a(i) > 3) exit\n  k2 = k2 + a(i)\nend do'),
    ('control', 'cycle-in-nested-loop', 'n b', 'do j = 1, 2\n  do i = 1, n\n    if (b(i, j) < 0.0) cycle\n    b(i, j) = b(i, j)*2.0\n  end do\n  b(1, j) = b(1, j) + 1.0\nend do'),
    ('control', 'return-in-loop', 'n a k2', 'do i = 1, n\n  if (a(i) == 0) return\n  k2 = k2 + 1\nend do\nk2 = -k2'),
    ('control', 'early-return', 'i1 i2 flag k2', 'k2 = i1\nif (flag) return\nk2 = i2'),
    # -------------------------------------------------------------------------------------------------- intrinsics
    ('intrinsic', 'min-max-int', 'i1 i2 k2', 'k2 = max(i1, i2, 3) - min(i1, i2) + min(max(i1, 0), 4)'),
    ('intrinsic', 'min-max-real', 'x y s', 's = max(x, y) + min(x, 2.0_real64) - max(min(x, y), 0.0_real64)'),
    ('intrinsic', 'abs', 'x i1 s k2', 's = abs(x) + abs(x - 1.0)\nk2 = abs(i1) - abs(-i1 + 2)'),
    ('intrinsic', 'sqrt-exp', 'x s', 's = sqrt(x) + exp(x)*2.0 + sqrt(exp(x))'),
    ('intrinsic', 'upper-case-names', 'x y i1 s k2', 's = MAX(x, y) + ABS(x) + SQRT(y)\nk2 = MIN(i1, 2)'),
    ('intrinsic', 'sign-positive-magnitude', 'x y s', 's = sign(2.0_real64, y) + x'),
    ('intrinsic', 'sign-int', 'i1 k2', 'k2 = sign(2, i1)'),
    ('intrinsic', 'sign-negative-magnitude', 'x y s', 's = sign(x, y)'),
    ('intrinsic', 'mod', 'i1 k2', 'k2 = mod(i1, 3)'),
    ('intrinsic', 'merge', 'i1 flag k2', 'k2 = merge(i1, 2, flag)'),
    # ------------------------------------------------------------------------------------------------------ arrays
    ('array', 'element-offsets', 'n a', 'do i = 1, n - 1\n  a(i) = a(i + 1) + a(n - i + 1)\nend do'),
    ('array', 'index-from-array', 'n a e', 'do i = 1, n\n  if (e(i) >= 1 .and. e(i) <= n) a(e(i)) = i\nend do'),
    ('array', 'two-d-elements', 'n a b', 'do i = 1, n\n  b(i, 1) = b(i, 2) + a(i)\n  b(i, 2) = b(n - i + 1, 1)\nend do'),
    ('array', 'intent-out-array', 'n c d', 'do i = 1, n\n  d(i) = c(i)*2.0\nend do'),
    ('array', 'local-real-array', 'n c', 'do i = 1, n\n  tmp(i) = c(i) + 1.0\nend do\ndo i = 1, n\n  c(i) = tmp(n - i + 1)\nend do', 'real(kind=real64) :: tmp(n)'),
    ('array', 'local-int-array', 'n a', 'do i = 1, n\n  it(i) = a(i)*2\nend do\ndo i = 1, n\n  a(i) = it(i) - 1\nend do', 'integer :: it(n)'),
    ('array', 'local-2d-array', 'n b', 'do j = 1, 2\n  do i = 1, n\n    t2(i, j) = b(i, j)\n  end do\nend do\ndo i = 1, n\n  b(i, 1) = t2(i, 2)\n  b(i, 2) = t2(i, 1)\nend do', 'real(kind=real64) :: t2(n, 2)'),
    ('array', 'local-fixed-array', 'n c', 'f(1) = c(1)\nf(2) = c(2)\nf(3) = f(1) + f(2)\nc(1) = f(3)', 'real(kind=real64) :: f(3)'),
    ('array', 'section-fill', 'n b', 'b(:, 1) = 0.0\nb(2:n, 2) = 1.5'),
    ('array', 'section-copy', 'n b', 'b(1:2, 2) = b(2:3, 1)'),
    ('array', 'section-overlap', 'n c', 'c(2:n) = c(1:n - 1)'),
    ('array', 'section-arith', 'n b c', 'c(:) = c(:) + b(:, 1)*2.0'),
    ('array', 'section-stride', 'n c', 'c(1:n:2) = 0.0'),
    ('array', 'section-in-loop', 'n b', 'do j = 1, 2\n  b(:, j) = b(:, j) + j\nend do'),
    ('array', 'whole-array-assign', 'n a', 'a = 1'),
    ('array', 'whole-array-arith', 'n c', 'c = c + 1.0'),
    ('array', 'lower-bound-zero', 'n a0', 'a0(0) = 5\ndo i = 1, n\n  a0(i) = a0(i - 1) + 1\nend do'),
    ('array', 'section-bounds-from-index-arrays', 'n c lo hi', 'do j = 1, 2\n  c(lo(j):hi(j)) = c(lo(j):hi(j)) + 10*j\nend do', '',
     [{'n': 5, 'lo': [1, 4], 'hi': [2, 5]}, {'n': 4, 'lo': [2, 1], 'hi': [4, 1]}]),
    ('array', 'section-stride-from-index-array', 'n c lo hi', 'c(lo(1):hi(2):lo(2)) = 0.0', '',
     [{'n': 5, 'lo': [1, 2], 'hi': [3, 5]}, {'n': 5, 'lo': [2, 3], 'hi': [1, 5]}]),
    ('array', 'section-rhs-bounds-from-index-arrays', 'n c d lo hi', 'd(1:2) = c(lo(2):hi(2))', '',
     [{'n': 4, 'lo': [1, 3], 'hi': [2, 4]}, {'n': 5, 'lo': [1, 2], 'hi': [5, 3]}]),
    ('array', 'gather-concrete-index', 'n c d idx', 'do i = 1, n\n  d(i) = c(idx(i))\nend do', '',
     [{'n': 3, 'idx': [2, 3, 1]}, {'n': 4, 'idx': [4, 4, 1, 2]}]),
    ('array', 'scatter-concrete-index', 'n c idx', 'do i = 1, n\n  c(idx(i)) = c(idx(i)) + i\nend do', '',
     [{'n': 3, 'idx': [3, 1, 3]}, {'n': 4, 'idx': [2, 1, 4, 3]}]),
    ('array', 'two-level-index', 'n a idx', 'do i = 1, n\n  a(idx(idx(i))) = a(idx(i)) + i\nend do', '',
     [{'n': 3, 'idx': [2, 3, 1]}, {'n': 4, 'idx': [2, 1, 4, 3]}]),
    ('array', 'index-arithmetic-on-index-array', 'n c idx', 'do i = 1, n - 1\n  c(idx(i + 1) - 1 + 1) = c(idx(i)) * 2.0\nend do', '',
     [{'n': 3, 'idx': [2, 3, 1]}]),
    ('array', 'int-array-as-real-operand', 'n a c', 'do i = 1, n\n  c(i) = c(i)*a(i) + a(i)\nend do'),
]


def cases():
    out = []
    for t in T:
        group, name, args, body = t[:4]
        local = t[4] if len(t) > 4 else ''
        sizes = [{'n': 4}, {'n': 3}, {'n': 5}] if ' n ' in f' {args} ' else [{}]
        if len(t) > 5:
            sizes = t[5]
        out.append(Case(f'{group}/{name}', kern(args, body, local), 'kern', sizes, None, 'transpile', must_change=False,
                        unwind=5, custom=_custom))
    return out
