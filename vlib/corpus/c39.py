"""Cases for C39: ParametriseTransformation driven by the real Scheduler on a scratch project."""
import shutil
import tempfile
from pathlib import Path

from loki import Scheduler, SchedulerConfig, Frontend
from loki.transformations.parametrise import ParametriseTransformation
from vlib.tv import Case
from vlib.fsmt.equiv import Prog

CONFIG = {
    'default': {'mode': 'idem', 'role': 'kernel', 'expand': True, 'strict': True},
    'routines': {'driver': {'role': 'driver', 'expand': True}},
}


def mk_param(dic2p, **kw):
    def f(p):
        d = tempfile.mkdtemp(prefix='verif-param-')
        try:
            (Path(d) / 'proj.f90').write_text(f.src)
            sched = Scheduler(paths=[d], config=SchedulerConfig.from_dict(CONFIG), seed_routines=['driver'],
                              frontend=Frontend.FP, xmods=[d])
            sched.process(transformation=ParametriseTransformation(dic2p=dic2p, **kw))
            item = [i for i in sched.items if i.name.endswith('#driver')][0]
            sf = item.source
            q = Prog.from_sourcefile(sf, 'driver')
            q.text = sf.to_fortran()
            # a symbol that survives under its name keeps its declared kind: the values it can hold (and the kind in
            # which expressions over it are evaluated) lie outside the value bounds of the solver obligation
            before = {r.name.lower(): {v.name.lower(): str(v.type.kind).lower() for v in r.variables}
                      for m in p.sourcefile.modules for r in m.subroutines}
            for m in sf.modules:
                for r in m.subroutines:
                    for v in r.variables:
                        old = before.get(r.name.lower(), {}).get(v.name.lower())
                        if old is not None and old != str(v.type.kind).lower():
                            raise AssertionError(f'{r.name}: kind of {v.name} changed from {old} to {v.type.kind} '
                                                 f'({"named constant" if v.type.parameter else "variable"})')
            return q
        finally:
            shutil.rmtree(d, ignore_errors=True)
    return f


SRC = """
module pm
  implicit none
contains
  subroutine driver(n, m, flag, a, b)
    integer, intent(in) :: n, m, flag
    real, intent(inout) :: a(n, m)
    real, intent(inout) :: b(m)
    call kernel1(n, m, a)
    if (flag > 0) then
      call kernel2(n, m, flag, a, b)
    end if
  end subroutine driver

  subroutine kernel1(n, m, a)
    integer, intent(in) :: n, m
    real, intent(inout) :: a(n, m)
    real :: t(n)
    integer :: i, j
    do j=1,m
      do i=1,n
        t(i) = a(i, j)*real(n) + real(i)
      end do
      do i=1,n
        a(i, j) = t(n + 1 - i)
      end do
    end do
  end subroutine kernel1

  subroutine kernel2(n_new, m, flag, a, b)
    integer, intent(in) :: n_new, m, flag
    real, intent(inout) :: a(n_new, m)
    real, intent(inout) :: b(m)
    integer :: j
    do j=1,m
      b(j) = b(j) + sum(a(1:n_new, j))*flag + real(mod(n_new, 2))
    end do
    call device(m, b, flag)
  end subroutine kernel2

  subroutine device(m, b, flag)
    integer, intent(in) :: m, flag
    real, intent(inout) :: b(m)
    if (flag == 2) b(m) = -b(m)
  end subroutine device
end module pm
"""


# the parametrised dimension has a non-default integer kind
SRC8 = SRC.replace('''  subroutine driver(n, m, flag, a, b)
    integer, intent(in) :: n, m, flag''', '''  subroutine driver(n, m, flag, a, b)
    integer(kind=8), intent(in) :: n
    integer, intent(in) :: m, flag''').replace('''  subroutine kernel1(n, m, a)
    integer, intent(in) :: n, m''', '''  subroutine kernel1(n, m, a)
    integer(kind=8), intent(in) :: n
    integer, intent(in) :: m''').replace('''    integer, intent(in) :: n_new, m, flag''', '''    integer(kind=8), intent(in) :: n_new
    integer, intent(in) :: m, flag''').replace('mod(n_new, 2)', 'mod(n_new, 2_8)')
assert SRC8.count('kind=8') == 3


def cases():
    out = []
    variants = [('n3', {'n': 3}, {}), ('n2-m2', {'n': 2, 'm': 2}, {}), ('n3-by-value', {'n': 3}, {'replace_by_value': True}),
                ('flag2', {'flag': 2}, {}), ('n2-flag1-by-value', {'n': 2, 'flag': 1}, {'replace_by_value': True}),
                # the order of the dictionary differs from the order in which the calls pass the variables
                ('m2-n3-reversed-dict', {'m': 2, 'n': 3}, {}), ('flag1-m3-n2', {'flag': 1, 'm': 3, 'n': 2}, {}),
                ('flag2-n2-m3-by-value', {'flag': 2, 'n': 2, 'm': 3}, {'replace_by_value': True}),
                ('m3-flag2', {'m': 3, 'flag': 2}, {})]
    for name, dic, kw in variants:
        fn = mk_param(dic, **kw)
        fn.src = SRC
        sizes = {'n': 3, 'm': 2}
        sizes.update(dic)
        sizes.update({f'parametrised_{k}': v for k, v in dic.items()})
        out.append(Case(f'matching/{name}', SRC, 'driver', [sizes], fn, 'parametrise', raise_is_violation=('AssertionError',)))
    for name, dic, kw in [('kind8-n3', {'n': 3}, {}), ('kind8-m2-n3', {'m': 2, 'n': 3}, {})]:
        fn = mk_param(dic, **kw)
        fn.src = SRC8
        sizes = {'n': 3, 'm': 2}
        sizes.update(dic)
        sizes.update({f'parametrised_{k}': v for k, v in dic.items()})
        out.append(Case(f'matching/{name}', SRC8, 'driver', [sizes], fn, 'parametrise', raise_is_violation=('AssertionError',)))
    return out
