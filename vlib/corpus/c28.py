"""Templates for C28: inlining of internal procedures, marked subroutines, statement / elemental / other functions and
constant parameters."""
from loki.transformations.inline import (
    inline_internal_procedures, inline_marked_subroutines, inline_statement_functions, inline_elemental_functions,
    inline_functions, inline_constant_parameters, InlineTransformation
)
from vlib.tv import Case


def internal(p):
    inline_internal_procedures(p.entry)


def marked(p):
    inline_marked_subroutines(p.entry)


def stmtfunc(p):
    inline_statement_functions(p.entry)


def elemental(p):
    inline_elemental_functions(p.entry)


def functions(p):
    inline_functions(p.entry)


def constants(p):
    inline_constant_parameters(p.entry, external_only=True)


def constants_all(p):
    inline_constant_parameters(p.entry, external_only=False)


def trafo_all(p):
    InlineTransformation(inline_constants=True, inline_elementals=True, inline_stmt_funcs=True, inline_internals=True,
                         inline_marked=True, remove_dead_code=True, allowed_aliases=None, resolve_sequence_association=True
                         ).apply(p.entry)


INT = """
subroutine outer(n, x, y, z, k)
  integer, intent(in) :: n
  real, intent(inout) :: x(n), z(n, 2)
  real, intent(in) :: y
  integer, intent(inout) :: k
  integer :: i, j
  real :: t, w(n)
{body}
contains
{members}
end subroutine outer
"""

MOD = """
module km
  implicit none
  integer, parameter :: nconst = 3
  real, parameter :: rc = 2.5
  real :: gscale = 2.0
contains
{routines}
end module km
"""


def cases():
    out = []
    S = [{'n': 3}, {'n': 4}]

    def internal_case(name, body, members, applies=(('internal', internal), ('trafo', trafo_all))):
        for an, fn in applies:
            out.append(Case(f'internal/{name}/{an}', INT.format(body=body, members=members), 'outer', S, fn, 'inline-internal'))

    internal_case('scalar-elem-expr',
                  '  t = 1.0\n  do i=1,n\n    call add(x(i), y*i)\n  end do\n  call add(t, x(1) + 2.0)\n  x(n) = t',
                  '  subroutine add(a, b)\n    real, intent(inout) :: a\n    real, intent(in) :: b\n    real :: t\n    t = b + 1.0\n    a = a + t\n  end subroutine add')
    internal_case('local-name-clash',
                  '  t = 3.0\n  i = 2\n  call f(x)\n  x(i) = x(i) + t',
                  '  subroutine f(v)\n    real, intent(inout) :: v(n)\n    integer :: i\n    real :: t\n    t = 0.5\n    do i=1,n\n      v(i) = v(i)*t\n    end do\n  end subroutine f')
    internal_case('host-association',
                  '  t = y + 1.0\n  call g(x)\n  k = k + 1\n  call g(w)\n  x(1) = x(1) + w(n)',
                  '  subroutine g(v)\n    real, intent(inout) :: v(n)\n    integer :: jj\n    do jj=1,n\n      v(jj) = t*jj + k\n    end do\n    k = k + 2\n  end subroutine g')
    internal_case('array-section-actual',
                  '  call col(z(:, 1), 1.0)\n  call col(z(:, 2), y)',
                  '  subroutine col(v, s)\n    real, intent(inout) :: v(n)\n    real, intent(in) :: s\n    integer :: ii\n    do ii=1,n\n      v(ii) = v(ii) + s*ii\n    end do\n  end subroutine col')
    internal_case('same-array-twice-readonly',
                  '  call comb(x, x, w)\n  x(1:n) = w(1:n)',
                  '  subroutine comb(p, q, r)\n    real, intent(in) :: p(n), q(n)\n    real, intent(out) :: r(n)\n    integer :: ii\n    do ii=1,n\n      r(ii) = p(ii) + q(n + 1 - ii)\n    end do\n  end subroutine comb')
    internal_case('nested-calls',
                  '  call a1(x(1))\n  call a2(x(2))',
                  '  subroutine a1(v)\n    real, intent(inout) :: v\n    v = v + 1.0\n    call a2(v)\n  end subroutine a1\n  subroutine a2(v)\n    real, intent(inout) :: v\n    v = v*2.0 + y\n  end subroutine a2')
    internal_case('keyword-and-optional',
                  '  call opt(x(1), scale=2.0)\n  call opt(v=x(2))\n  call opt(x(3), 3.0, k)',
                  '  subroutine opt(v, scale, cnt)\n    real, intent(inout) :: v\n    real, intent(in), optional :: scale\n    integer, intent(inout), optional :: cnt\n    if (present(scale)) then\n      v = v*scale\n    else\n      v = v + 1.0\n    end if\n    if (present(cnt)) cnt = cnt + 1\n  end subroutine opt')
    internal_case('optional-present-other-case',
                  '  call opt(x(1), pscale=2.0)\n  call opt(x(2))\n  call opt(x(3), 3.0, k)\n  call opt(V=x(1), CNT=k)',
                  '  subroutine opt(v, pscale, cnt)\n    real, intent(inout) :: v\n    real, intent(in), optional :: pscale\n    integer, intent(inout), optional :: cnt\n    if (PRESENT(PSCALE)) then\n      v = v*PScale\n    else\n      v = v + 1.0\n    end if\n    if (present(Cnt)) CNT = cnt + 1\n  end subroutine opt')
    internal_case('mixed-case-dummies-and-locals',
                  '  T = 1.5\n  call Shift(X, n, T)\n  x(1) = x(1) + t',
                  '  subroutine shift(ARR, M, Delta)\n    real, intent(inout) :: arr(m)\n    integer, intent(in) :: m\n    real, intent(in) :: DELTA\n    integer :: II\n    do ii=1,M\n      Arr(II) = arr(ii) + delta*Ii\n    end do\n  end subroutine shift')
    internal_case('early-return-free-conditional',
                  '  do i=1,n\n    call clip(x(i))\n  end do',
                  '  subroutine clip(v)\n    real, intent(inout) :: v\n    if (v > y) then\n      v = y\n    else if (v < -y) then\n      v = -y\n    end if\n  end subroutine clip')
    internal_case('loop-bound-argument',
                  '  call fill(x, n - 1)\n  call fill(w, 2)\n  x(n) = w(1)',
                  '  subroutine fill(v, m)\n    real, intent(inout) :: v(n)\n    integer, intent(in) :: m\n    integer :: ii\n    do ii=1,m\n      v(ii) = real(ii) + y\n    end do\n  end subroutine fill')
    internal_case('intent-in-expression-reused',
                  '  call twice(x(1), x(2) + y)\n',
                  '  subroutine twice(v, e)\n    real, intent(inout) :: v\n    real, intent(in) :: e\n    v = e\n    v = v + e\n  end subroutine twice')
    # ---- statement functions
    SF = """
subroutine sfk(n, x, y, k)
  integer, intent(in) :: n
  real, intent(inout) :: x(n)
  real, intent(in) :: y
  integer, intent(inout) :: k
  integer :: i
  real :: a, b, plus, scal, nested
  plus(a, b) = a + b
  scal(a) = a*y - 1.0
  nested(a, b) = plus(a, scal(b))*2.0
{body}
end subroutine sfk
"""
    out.append(Case('stmtfunc/basic', SF.format(body='  do i=1,n\n    x(i) = plus(x(i), y) * scal(x(i))\n  end do'), 'sfk', S, stmtfunc, 'inline-stmtfunc'))
    out.append(Case('stmtfunc/precedence', SF.format(body='  x(1) = 2.0*plus(x(1), y)\n  x(2) = x(2) - plus(x(1), y)\n  x(3) = x(3)/plus(x(1), 2.0)\n  x(1) = -plus(x(2), y)**2'), 'sfk', S, stmtfunc, 'inline-stmtfunc'))
    out.append(Case('stmtfunc/nested', SF.format(body='  x(1) = nested(x(1), x(2))\n  x(2) = nested(plus(x(1), y), scal(x(3)))'), 'sfk', S, stmtfunc, 'inline-stmtfunc'))
    out.append(Case('stmtfunc/arg-expression', SF.format(body='  x(1) = scal(x(1) - y)\n  x(2) = scal(-x(2))*scal(x(1) + 1.0)'), 'sfk', S, stmtfunc, 'inline-stmtfunc'))
    out.append(Case('stmtfunc/trafo', SF.format(body='  x(1) = 2.0*plus(x(1), y) - scal(x(2) - 1.0)'), 'sfk', S, trafo_all, 'inline-stmtfunc'))
    # ---- module: elemental / other functions, marked subroutines, constants
    R = """
  elemental function sq(a) result(r)
    real, intent(in) :: a
    real :: r
    r = a*a + 1.0
  end function sq

  function lin(a, b) result(r)
    real, intent(in) :: a, b
    real :: r
    real :: tmp
    tmp = a*gscale
    r = tmp + b
  end function lin

  subroutine helper(m, v, s)
    integer, intent(in) :: m
    real, intent(inout) :: v(m)
    real, intent(in) :: s
    integer :: i
    do i=1,m
      v(i) = v(i)*s + nconst
    end do
  end subroutine helper

  subroutine hopt(m, v, pfac, kcount)
    integer, intent(in) :: m
    real, intent(inout) :: v(m)
    real, intent(in), optional :: pfac
    integer, intent(inout), optional :: kcount
    integer :: i
    if (PRESENT(PFAC)) then
      do i=1,m
        v(i) = v(i)*PFac
      end do
    end if
    if (Present(KCount)) kcount = KCOUNT + m
  end subroutine hopt

  subroutine seqk(m, v)
    integer, intent(in) :: m
    real, intent(inout) :: v(m)
    integer :: i
    do i=1,m
      v(i) = v(i) + i
    end do
  end subroutine seqk

  subroutine drv(n, x, y, z)
    integer, intent(in) :: n
    real, intent(inout) :: x(n), z(n, 2)
    real, intent(in) :: y
    integer :: i
    real :: t
{body}
  end subroutine drv
"""
    def mod_case(name, body, fn, group):
        out.append(Case(name, MOD.format(routines=R.format(body=body)), 'drv', S, fn, group))
    mod_case('elemental/in-expression', '    do i=1,n\n      x(i) = 2.0*sq(x(i) - y) - sq(y)\n    end do', elemental, 'inline-elemental')
    mod_case('elemental/nested-arg', '    x(1) = sq(sq(x(1)) + y)\n    x(2) = sq(x(2))/sq(y)', elemental, 'inline-elemental')
    mod_case('functions/in-expression', '    do i=1,n\n      x(i) = 2.0*lin(x(i), y) - 1.0\n    end do', functions, 'inline-functions')
    mod_case('functions/in-condition', '    if (lin(x(1), y) > 0.) then\n      x(1) = lin(y, x(2))\n    end if', functions, 'inline-functions')
    mod_case('functions/both-kinds', '    x(1) = lin(sq(x(1)), y) + sq(lin(y, x(2)))', functions, 'inline-functions')
    mod_case('functions/same-call-in-two-statements', '    do i=1,n\n      x(i) = 2.0*lin(x(i), 3.0) + lin(y, 2.0)\n      z(i, 1) = lin(x(i), 3.0) - 1.0\n    end do', functions, 'inline-functions')
    mod_case('functions/repeated-identical-calls', '    x(1) = lin(y, 2.0) + lin(y, 2.0)*lin(x(2), y)\n    x(2) = lin(y, 2.0)\n    x(3) = lin(x(2), y) - lin(y, 2.0)', functions, 'inline-functions')
    mod_case('elemental/same-call-in-two-statements', '    do i=1,n\n      x(i) = sq(x(i)) + sq(y)\n      z(i, 2) = sq(y)*sq(x(i))\n    end do', elemental, 'inline-elemental')
    mod_case('marked/whole-array', '    !$loki inline\n    call helper(n, x, y)\n    x(1) = x(1) + 1.0', marked, 'inline-marked')
    mod_case('marked/section', '    !$loki inline\n    call helper(n, z(:, 2), y)\n    !$loki inline\n    call helper(n, z(:, 1), 2.0)', marked, 'inline-marked')
    mod_case('marked/in-loop', '    do i=1,2\n      !$loki inline\n      call helper(n, z(:, i), y*i)\n    end do', marked, 'inline-marked')
    mod_case('marked/sequence-association', '    !$loki inline\n    call seqk(n, z(1, 2))\n    !$loki inline\n    call seqk(n - 1, x(2))', trafo_all, 'inline-marked')
    mod_case('marked/optional-present-other-case', '    i = 1\n    !$loki inline\n    call hopt(n, x, pfac=y, kcount=i)\n    !$loki inline\n    call hopt(n, z(:, 1))\n    !$loki inline\n    call hopt(n, z(:, 2), 2.0)\n    x(1) = x(1) + i', marked, 'inline-marked')
    mod_case('marked/trafo', '    t = y\n    !$loki inline\n    call helper(n, x, t)\n    x(n) = sq(x(n))', trafo_all, 'inline-marked')
    mod_case('constants/module-parameters', '    do i=1,n\n      x(i) = x(i)*rc + nconst\n    end do\n    x(nconst - 2) = rc', constants_all, 'inline-constants')
    # constants imported from another module
    two = """
module cm
  implicit none
  integer, parameter :: nk = 2
  real, parameter :: fac = 1.5, off = fac*2.0
end module cm

subroutine usec(n, x)
  use cm, only: nk, fac, off
  integer, intent(in) :: n
  real, intent(inout) :: x(n)
  integer :: i
  real :: loc(nk)
  loc(1) = fac
  loc(nk) = off
  do i=1,n
    x(i) = x(i)*fac - off + loc(min(i, nk))
  end do
end subroutine usec
"""
    out.append(Case('constants/imported', two, 'usec', S, constants, 'inline-constants'))
    out.append(Case('constants/imported-all', two, 'usec', S, constants_all, 'inline-constants'))
    return out
