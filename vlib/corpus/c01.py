"""Cases for C01 (parse -> regenerate -> parse) over the program corpus, the transformation templates' sources and
expression-slot programs generated from the C07 string family."""
from loki import Sourcefile, Frontend
from vlib.tv import Case
from vlib.fsmt.equiv import Prog
from vlib.corpus.programs import P


def roundtrip(p):
    text = p.sourcefile.to_fortran()
    q = Prog.from_source(text, p.entry.name, absent=p.absent)
    return q


def expr_programs():
    from checks.C07 import build_family, DECLS  # pylint: disable=import-outside-toplevel
    fam = [(k, s) for k, s in build_family('quick') if '.eqv.' not in s.lower() and '.neqv.' not in s.lower()]
    progs = []
    chunk = 10
    for ci in range(0, len(fam), chunk):
        part = fam[ci:ci + chunk]
        ni = sum(1 for k, _ in part if k == 'i')
        nr = sum(1 for k, _ in part if k == 'r')
        nl = sum(1 for k, _ in part if k == 'l')
        lines, ci_, cr, cl = [], 0, 0, 0
        for k, s in part:
            if k == 'i':
                ci_ += 1
                lines.append(f'  oi({ci_}) = {s}')
            elif k == 'r':
                cr += 1
                lines.append(f'  orr({cr}) = {s}')
            else:
                cl += 1
                lines.append(f'  ol({cl}) = {s}')
        decls = DECLS.replace('  integer :: a, b, c, d, e, f, arr(-20:20), ri', '').replace('  real :: x, y, z, rr', '') \
            .replace('  logical :: p, q, rl', '').replace('  type(tt) :: t1', '')
        src = f"""
module em
{decls}
contains
subroutine k(a, b, c, d, e, f, arr, x, y, z, p, q, t1, oi, orr, ol)
  integer, intent(in) :: a, b, c, d, e, f, arr(-2:2)
  real, intent(in) :: x, y, z
  logical, intent(in) :: p, q
  type(tt), intent(in) :: t1
  integer, intent(out) :: oi({max(ni, 1)})
  real, intent(out) :: orr({max(nr, 1)})
  logical, intent(out) :: ol({max(nl, 1)})
  oi = 0
  orr = 0.
  ol = .false.
""" + '\n'.join(lines) + "\nend subroutine k\nend module em\n"
        src = src.replace('integer :: v(-20:20)', 'integer :: v(-2:2)')
        progs.append((f'expr-slots-{ci // chunk}', src, 'k', [{}]))
    return progs


def cases(tier='quick'):
    out = []
    for name, src, entry, sizes in P:
        out.append(Case(f'prog/{name}', src, entry, sizes, roundtrip, 'roundtrip', must_change=False))
    # sources of the transformation templates (one per distinct source)
    seen = set()
    for mod in ('c28', 'c29', 'c30', 'c31', 'c32'):
        m = __import__(f'vlib.corpus.{mod}', fromlist=['cases'])
        for c in m.cases():
            if c.src not in seen:
                seen.add(c.src)
                out.append(Case(f'tmpl/{mod}/{c.name.split("/")[0]}-{len(seen)}', c.src, c.entry, c.sizes[:1], roundtrip, 'roundtrip', must_change=False))
    for name, src, entry, sizes in expr_programs():
        out.append(Case(f'{name}', src, entry, sizes, roundtrip, 'roundtrip-expr', must_change=False))
    return out
