"""Cases for C43: Linter.check + Linter.fix for the fixable rules on generated files; behaviour must be preserved."""
import os
import shutil
import tempfile
from pathlib import Path

from loki import Sourcefile, Frontend
from loki.lint import Reporter, Linter
from vlib.tv import Case
from vlib.fsmt.equiv import Prog


def lint_fix(rule_names, src):
    def f(p):
        import lint_rules  # pylint: disable=import-outside-toplevel
        from lint_rules import ifs_coding_standards_2011 as r1, debug_rules as r2  # pylint: disable=import-outside-toplevel
        rules = [getattr(r1, n, None) or getattr(r2, n) for n in rule_names]
        d = tempfile.mkdtemp(prefix='verif-lint-')
        try:
            path = Path(d) / 'unit.F90'
            path.write_text(src)
            sf = Sourcefile.from_file(path, frontend=Frontend.FP)
            linter = Linter(Reporter([]), rules=rules, config={'fix': True})
            report = linter.check(sf)
            n_before = len(report.fixable_reports)
            linter.fix(sf, report)
            fixed_text = path.read_text()
            sf2 = Sourcefile.from_file(path, frontend=Frontend.FP)
            report2 = Linter(Reporter([]), rules=rules, config={}).check(sf2)
            q = Prog.from_source(fixed_text, p.entry.name, absent=p.absent)
            q.lint = {'fixable_before': n_before, 'fixable_after': len(report2.fixable_reports), 'changed': fixed_text != src}
            f.last = q.lint
            return q
        finally:
            shutil.rmtree(d, ignore_errors=True)
    return f


OPS = """
subroutine k(a, b, c, x, y, r, l)
  integer, intent(in) :: a, b, c
  real, intent(in) :: x, y
  integer, intent(inout) :: r
  logical, intent(out) :: l
  character(len=20) :: msg
  ! a comment with .lt. and .ge. inside
  msg = 'keep .eq. in strings'
  l = a .lt. b .and. x .ge. y
  if (a .eq. b .or. c .ne. a) r = r + 1
  if (x .gt. y) then
    r = r - 1   ! trailing .le. comment
  else if (a + b .le. c*2 .and. .not. (a .ne. c)) then
    r = r*2
  end if
  do while (r .lt. 10 .and. r .gt. -10 .and. r /= 0)
    r = r*2
  end do
  l = l .or. (a.lt.b) .eqv. (b.gt.a)
end subroutine k
"""

MIXED = """
subroutine k(n, a, s)
  integer, intent(in) :: n
  real, intent(inout) :: a(n)
  real, intent(inout) :: s
  integer :: i
  do i=1,n
    if (a(i) .LT. 0. .OR. a(i) .Gt. s) then
      a(i) = s
    else if (a(i) == s) then
      a(i) = -s
    end if
    if (i .eq. n) s = s + &
      &  1.0
  end do
end subroutine k
"""

UBOUND = """
module um
contains
  subroutine kern(n, m, v, w)
    integer, intent(in) :: n, m
    real, intent(inout) :: v(:), w(:, :)
    integer :: i, j
    if (ubound(v, 1) < n) then
      call abor1('v too small')
    end if
    if (ubound(w, 1) < n .or. ubound(w, 2) < m) then
      call abor1('w too small')
    end if
    do j=1,m
      do i=1,n
        w(i, j) = w(i, j) + v(i)
      end do
    end do
  end subroutine kern

  subroutine k(n, m, a, c)
    integer, intent(in) :: n, m
    real, intent(inout) :: a(n), c(n, m)
    call kern(n, m, a, c)
  end subroutine k
end module um
"""


FREE = """
subroutine kern(n, m, v, w, r)
  integer, intent(in) :: n, m
  real, intent(inout) :: v(:)
  real, intent(inout) :: w({wdecl})
  real, intent(out) :: r(3)
  if (ubound(v, 1) < n) then
    call abor1('v too small')
  end if
  if (ubound(w, 1) < n .or. ubound(w, 2) < m) then
    call abor1('w too small')
  end if
  r(1) = v(n)
  r(2) = w(1, 1)
  r(3) = w(n, m)
  w(1, m) = v(1)
end subroutine kern

subroutine k(n, m, a, c, r)
  integer, intent(in) :: n, m
  real, intent(inout) :: a(n)
  real, intent(inout) :: c({cdecl})
  real, intent(out) :: r(3)
  interface
    subroutine kern(n, m, v, w, r)
      integer, intent(in) :: n, m
      real, intent(inout) :: v(:)
      real, intent(inout) :: w({wdecl})
      real, intent(out) :: r(3)
    end subroutine kern
  end interface
  call kern(n, m, a, c, r)
end subroutine k

subroutine abor1(msg)
  character(len=*), intent(in) :: msg
  print *, msg
  stop 1
end subroutine abor1
"""


# a joint IF that tests the same dimension of two DIFFERENT assumed-shape dummies against different bounds
FREE2 = """
subroutine kern(n, m, pa, pb, r)
  integer, intent(in) :: n, m
  real, intent(inout) :: pa(:, :)
  real, intent(inout) :: pb(:, :)
  real, intent(out) :: r(3)
  if (ubound(pa, 1) < n .or. ubound(pb, 1) < m) then
    call abor1('first dimension too small')
  end if
  if (ubound(pb, 2) < n .or. ubound(pa, 2) < m) then
    call abor1('second dimension too small')
  end if
  r(1) = pa(n, m)
  r(2) = pb(m, n)
  r(3) = pb(1, n) + pa(n, 1)
  pb(m, 1) = pa(1, m)
  pa(n, 1) = pb(1, n)*2.0
end subroutine kern

subroutine k(n, m, c, d, r)
  integer, intent(in) :: n, m
  real, intent(inout) :: c(n, m)
  real, intent(inout) :: d(m, n)
  real, intent(out) :: r(3)
  interface
    subroutine kern(n, m, pa, pb, r)
      integer, intent(in) :: n, m
      real, intent(inout) :: pa(:, :)
      real, intent(inout) :: pb(:, :)
      real, intent(out) :: r(3)
    end subroutine kern
  end interface
  call kern(n, m, c, d, r)
end subroutine k

subroutine abor1(msg)
  character(len=*), intent(in) :: msg
  print *, msg
  stop 1
end subroutine abor1
"""


def cases():
    out = []
    out.append(Case('ubound/free-subroutine-joint-if-two-arrays', FREE2, 'k', [{'n': 3, 'm': 2}, {'n': 2, 'm': 3}],
                    lint_fix(['DynamicUboundCheckRule'], FREE2), 'lint-fix', must_change=False))
    for nm, wdecl, cdecl in (('plain', ':, :', 'n, m'), ('lower-bound-zero', '0:, :', '0:n, m'), ('lower-bound-second-dim', ':, -1:', 'n, -1:m')):
        src = FREE.format(wdecl=wdecl, cdecl=cdecl)
        out.append(Case(f'ubound/free-subroutine-{nm}', src, 'k', [{'n': 2, 'm': 2}, {'n': 3, 'm': 2}],
                        lint_fix(['DynamicUboundCheckRule'], src), 'lint-fix', must_change=False))
    out.append(Case('operators/all-forms', OPS, 'k', [{}], lint_fix(['Fortran90OperatorsRule'], OPS), 'lint-fix', must_change=False))
    out.append(Case('operators/mixed-case-continuation', MIXED, 'k', [{'n': 3}, {'n': 4}], lint_fix(['Fortran90OperatorsRule'], MIXED), 'lint-fix', must_change=False))
    out.append(Case('ubound/assumed-shape-checks', UBOUND, 'k', [{'n': 2, 'm': 2}, {'n': 3, 'm': 2}], lint_fix(['DynamicUboundCheckRule'], UBOUND), 'lint-fix', must_change=False))
    both = UBOUND.replace('ubound(v, 1) < n', 'ubound(v, 1) .lt. n').replace('w(i, j) = w(i, j) + v(i)', 'if (v(i) .gt. 0.) w(i, j) = w(i, j) + v(i)')
    out.append(Case('both-rules', both, 'k', [{'n': 2, 'm': 2}],
                    lint_fix(['Fortran90OperatorsRule', 'DynamicUboundCheckRule'], both), 'lint-fix', must_change=False))
    return out
