"""Templates for C29: associate resolution (full / partial depth) and merging."""
from loki.transformations.sanitise import do_resolve_associates, do_merge_associates
from vlib.tv import Case


def resolve(p):
    do_resolve_associates(p.entry)


def resolve_d1(p):
    do_resolve_associates(p.entry, start_depth=1)


def merge(p):
    do_merge_associates(p.entry)


def merge1(p):
    do_merge_associates(p.entry, max_parents=1)


def merge_then_resolve(p):
    do_merge_associates(p.entry)
    do_resolve_associates(p.entry)


SRC = """
module tm
  implicit none
  type inner_t
    real :: w
    real :: v(3)
  end type inner_t
  type outer_t
    integer :: k
    real :: s
    type(inner_t) :: inn
  end type outer_t
contains
  subroutine helper(m, v, s)
    integer, intent(in) :: m
    real, intent(inout) :: v(m)
    real, intent(in) :: s
    integer :: i
    do i=1,m
      v(i) = v(i) + s
    end do
  end subroutine helper

  subroutine k(n, a, b, o, r, y3)
    integer, intent(in) :: n
    real, intent(inout) :: a(n), b(n, 2)
    real, intent(inout) :: y3(2, n, 2)
    type(outer_t), intent(inout) :: o
    real, intent(inout) :: r
    integer :: i, j, kk
    real :: x
{body}
  end subroutine k
end module tm
"""


def cases():
    out = []
    S = [{'n': 3}, {'n': 4}]
    A = (('resolve', resolve), ('resolve-depth1', resolve_d1), ('merge', merge), ('merge-max1', merge1), ('merge+resolve', merge_then_resolve))

    def one(name, body, applies=A):
        for an, fn in applies:
            out.append(Case(f'{name}/{an}', SRC.format(body=body), 'k', S, fn, 'associates'))
    one('scalar-component', '    associate(s => o%s, kk => o%k)\n      s = s*2.0 + kk\n      kk = kk + 1\n      r = s\n    end associate')
    one('array', '    associate(v => a)\n      do i=1,n\n        v(i) = v(i) + r\n      end do\n      r = v(1)\n    end associate')
    one('array-section', '    associate(col => b(:, 2))\n      do i=1,n\n        col(i) = a(i) - col(i)\n      end do\n    end associate')
    one('array-section-bounds', '    associate(tail => a(2:n))\n      do i=1,n-1\n        tail(i) = tail(i) + i\n      end do\n      r = tail(1)\n    end associate')
    one('nested-component', '    associate(inn => o%inn)\n      associate(w => inn%w, vv => inn%v)\n        w = w + vv(2)\n        vv(1) = w*r\n      end associate\n      r = inn%w\n    end associate')
    one('nested-chain', '    associate(p => o)\n      associate(q => p%inn)\n        associate(z => q%v)\n          z(3) = z(1) + z(2) + p%s\n        end associate\n      end associate\n    end associate')
    one('shadowing', '    x = 1.0\n    associate(x => a(1))\n      x = x + 2.0\n      associate(x => a(2))\n        x = x*3.0\n      end associate\n      r = x\n    end associate\n    r = r + x')
    one('call-argument', '    associate(v => a, col => b(:, 1), s => o%s)\n      call helper(n, v, s)\n      call helper(n, col, r)\n    end associate')
    one('own-subscripts-on-component-array', '    associate(vv => o%inn%v)\n      do i=1,3\n        vv(i) = vv(i)*i + o%k\n      end do\n      r = vv(2)\n    end associate')
    one('two-blocks', '    associate(s => o%s)\n      s = s + 1.0\n    end associate\n    associate(s => o%inn%w)\n      s = s + 2.0\n      r = s\n    end associate')
    one('inside-loop-and-if', '    do i=1,n\n      associate(ai => a(i))\n        if (ai > r) then\n          ai = r\n        else\n          b(i, 1) = ai\n        end if\n      end associate\n    end do')
    one('fixed-before-range', '    associate(row => b(2, :))\n      do i=1,2\n        row(i) = row(i) + a(i)*i\n      end do\n      r = row(1)\n    end associate')
    one('fixed-before-range-var', '    do j=1,n\n      associate(row => b(j, :))\n        row(1) = a(j)\n        row(2) = row(1) - r\n      end associate\n    end do')
    one('3d-middle-fixed', '    kk = 2\n    associate(pl => y3(:, kk, :))\n      do i=1,2\n        do j=1,2\n          pl(i, j) = pl(i, j) + i*10 + j\n        end do\n      end do\n    end associate')
    one('nested-sections', '    kk = 1\n    associate(slab => y3(:, :, kk))\n      do j=1,2\n        associate(line => slab(j, :))\n          do i=1,n\n            line(i) = line(i)*2.0 + i + j*10\n          end do\n        end associate\n      end do\n    end associate')
    one('3d-first-fixed', '    associate(pl => y3(2, :, :))\n      do i=1,n\n        pl(i, 1) = a(i)\n        pl(i, 2) = pl(i, 1) + 1.0\n      end do\n    end associate')
    # associate names used as SUBSCRIPTS of arrays that are not themselves replaced by a selector (components reached through
    # an associate name, arrays of a kept outer block), with and without shadowing of a routine-level name
    one('associate-name-as-subscript-of-component', '    o%k = 2\n    associate(p => o)\n      associate(idx => p%k)\n        p%inn%v(idx) = p%inn%v(idx) + r\n        r = p%inn%v(idx)*2.0\n      end associate\n    end associate')
    one('associate-name-as-subscript-shadowing-local', '    kk = 3\n    o%k = 1\n    associate(p => o%inn)\n      associate(kk => o%k)\n        p%v(kk) = p%v(kk) + 10.0\n        a(kk) = p%v(kk)\n      end associate\n      p%v(kk) = -1.0\n    end associate')
    one('associate-name-as-subscript-in-kept-outer-block', '    o%k = 2\n    kk = 1\n    associate(w => o%inn%v, kk => o%k)\n      associate(kk => o%k, q => o%inn)\n        w(kk) = w(kk) + q%w\n        q%v(kk) = q%v(kk)*2.0\n      end associate\n      r = w(kk)\n    end associate')
    one('associate-name-in-subscript-expression', '    o%k = 1\n    associate(p => o)\n      associate(lo => p%k, arr => a)\n        p%inn%v(lo + 1) = arr(lo) + arr(lo + 1)\n        b(lo, lo + 1) = p%inn%v(lo + 1)\n      end associate\n    end associate')
    return out
