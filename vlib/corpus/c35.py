"""Templates for C35: the C36 kernels (same transpilable subset) plus C-specific ones (multi-dimensional index
arithmetic, 3-D arrays, integer MOD / division signs, SELECT CASE, logical arguments, nested intrinsics)."""
from vlib.tv import Case
from vlib.cequiv import check_c, replay_c
from vlib.corpus import c36 as C36

C36.DECL.update({
    'b3': 'real(kind=real64), intent(inout) :: b3(n, 2, 3)',
    'ai': 'integer, intent(inout) :: ai(n, 2)',
    'lo1': 'integer, intent(inout) :: lo1(-1:n)',
})

EXTRA = [
    ('cindex', 'three-d-flattening', 'n b3', 'do k = 1, 3\n  do j = 1, 2\n    do i = 1, n\n      b3(i, j, k) = b3(i, j, k) + 100*k + 10*j + i\n    end do\n  end do\nend do'),
    ('cindex', 'three-d-permuted-loops', 'n b3', 'do i = 1, n\n  do k = 3, 1, -1\n    do j = 1, 2\n      b3(i, j, k) = b3(n - i + 1, 3 - j, k) + 1.0\n    end do\n  end do\nend do'),
    ('cindex', 'two-d-int-transpose-like', 'n ai', 'do i = 1, n\n  ai(i, 1) = ai(i, 2) + i\n  ai(i, 2) = ai(n - i + 1, 1)\nend do'),
    ('cindex', 'negative-lower-bound', 'n lo1', 'lo1(-1) = 7\ndo i = 0, n\n  lo1(i) = lo1(i - 1) + i\nend do'),
    ('cindex', 'lower-bound-zero', 'n a0', 'a0(0) = 5\ndo i = 1, n\n  a0(i) = a0(i - 1) + 1\nend do'),
    ('cint', 'mod-signs', 'i1 i2 k2', 'if (i2 /= 0) then\n  k2 = mod(i1, i2) + mod(-i1, 3) - mod(i1, -3)\nend if'),
    ('cint', 'division-signs', 'i1 i2 k2', 'if (i2 /= 0) then\n  k2 = i1/i2 + (-i1)/2 - i1/(-2) + (i1 - 7)/3\nend if'),
    ('cint', 'int-power', 'i1 k2', 'k2 = i1**2 - i1**3 + 2**3 - (-i1)**2'),
    ('cint', 'int-real-mixing', 'i1 x k2 s', 'k2 = i1*x\ns = i1/2 + x/2 + i1/2.0'),
    ('cint', 'cast-of-mod', 'i1 s', 's = real(mod(i1, 3), kind=real64)/2 + real(mod(i1, 4)*2, kind=real64)'),
    ('cint', 'nint-int', 'x k2', 'k2 = int(x) + nint(x)'),
    ('ccontrol', 'select-case', 'i1 k2', 'select case (i1)\ncase (1)\n  k2 = 10\ncase (2, 3)\n  k2 = 20\ncase (4:6)\n  k2 = 30\ncase default\n  k2 = -1\nend select'),
    ('ccontrol', 'select-case-open-lower', 'i1 k2', 'select case (i1)\ncase (:2)\n  k2 = 1\ncase (5)\n  k2 = 2\ncase default\n  k2 = 3\nend select'),
    ('ccontrol', 'select-case-in-loop-with-cycle', 'n a', 'do i = 1, n\n  select case (a(i))\n  case (0)\n    cycle\n  case (1, 2)\n    a(i) = a(i)*10\n  case default\n    a(i) = -1\n  end select\n  a(i) = a(i) + 1\nend do'),
    ('clogic', 'logical-out-from-arith', 'i1 i2 x lres', 'lres = (i1 + i2 > 3 .and. x < 1.0) .or. .not. (i1 == i2)'),
    ('clogic', 'logical-local', 'i1 flag k2', 'l1 = flag .neqv. (i1 > 0)\nif (l1) then\n  k2 = 1\nelse\n  k2 = 2\nend if', 'logical :: l1'),
    ('cintrinsic', 'nested-min-max-abs', 'x y i1 s', 's = max(min(x, y), abs(x - y), real(i1, kind=real64)) + sign(abs(x), y)*min(1.0_real64, max(y, 0.0_real64))'),
    ('cintrinsic', 'sqrt-exp-compose', 'x s', 's = sqrt(exp(x) + 1.0) * exp(-x)'),
    ('cintrinsic', 'int-min-max-mod', 'i1 i2 k2', 'k2 = min(i1, i2, 2) + max(i1, -i2) + mod(max(i1, 1), 2)'),
]


def _custom(case, sizes):
    try:
        r = check_c(case.src, 'kern', sizes, unwind=case.unwind)
    except Exception as ex:  # pylint: disable=broad-except
        if type(ex).__name__ == 'TransformationError':
            return {'verdict': 'transform-raises', 'why': f'{type(ex).__name__}: {str(ex)[-160:]}'}
        raise
    r['changed'] = True
    files = r.pop('files', {})
    if r['verdict'] == 'sat':
        try:
            rep, msg = replay_c(case.src, 'kern', sizes, r.get('model'), files)
        except Exception as ex:  # pylint: disable=broad-except
            rep, msg = None, f'replay crashed: {type(ex).__name__}: {ex}'
        r['replayed'], r['replay_msg'] = rep, msg
        r['transformed'] = files.get('kern_c.c', '')[-1500:]
    return r


def smoke(case, sizes):
    """end-to-end validation of the harness itself on default inputs: wrapper + kernel must build and agree"""
    from vlib.cequiv import transpile_c  # pylint: disable=import-outside-toplevel
    files = transpile_c(case.src, 'kern')
    return replay_c(case.src, 'kern', sizes, {}, files)


TMOD = """
module tmod
  use iso_fortran_env, only: real64
  implicit none
  type pt
    integer :: k
    real(kind=real64) :: w
    real(kind=real64) :: v(3)
  end type pt
end module tmod
"""

DT_KERNELS = [
    ('struct-inout-and-out', """
subroutine kern(n, a, pio, pout, s)
  use iso_fortran_env, only: real64
  use tmod, only: pt
  integer, intent(in) :: n
  real(kind=real64), intent(inout) :: a(n)
  type(pt), intent(inout) :: pio
  type(pt), intent(out) :: pout
  real(kind=real64), intent(out) :: s
  integer :: i
  do i=1,n
    a(i) = a(i) + pio%w
  end do
  pio%k = pio%k + 1
  pout%k = n
  pout%w = pio%w*2.0
  pout%v(1) = pio%v(3)
  pout%v(2) = pio%v(1)
  pout%v(3) = 0.5
  s = pio%v(3)
end subroutine kern
"""),
    ('struct-out-only', """
subroutine kern(i1, x, pout)
  use iso_fortran_env, only: real64
  use tmod, only: pt
  integer, intent(in) :: i1
  real(kind=real64), intent(in) :: x
  type(pt), intent(out) :: pout
  pout%k = i1 + 1
  pout%w = x*2.0
  pout%v(1) = x
  pout%v(2) = 1.5
  pout%v(3) = -x
end subroutine kern
"""),
    ('struct-intent-in', """
subroutine kern(pin, pio, s)
  use iso_fortran_env, only: real64
  use tmod, only: pt
  type(pt), intent(in) :: pin
  type(pt), intent(inout) :: pio
  real(kind=real64), intent(out) :: s
  pio%k = pio%k + pin%k
  pio%w = pin%w
  s = pin%v(3) + pio%v(1)
end subroutine kern
"""),
]


def _custom_wrapper(case, sizes):
    """the marshalling of the generated ISO-C wrapper, with the kernel abstracted by a nondeterministic stub"""
    from vlib.cwrap import check_wrapper  # pylint: disable=import-outside-toplevel
    r = check_wrapper(case.src, 'kern', sizes)
    r['changed'] = True
    files = r.pop('files', {})
    wrapper = r.pop('wrapper', '')
    if r['verdict'] == 'sat':
        try:
            rep, msg = replay_c(case.src, 'kern', sizes, {}, files)
        except Exception as ex:  # pylint: disable=broad-except
            rep, msg = None, f'replay crashed: {type(ex).__name__}: {ex}'
        r['replayed'], r['replay_msg'] = rep, msg
        r['transformed'] = wrapper[-1500:]
    return r


def cases():
    out = []
    for name, ksrc in DT_KERNELS:
        out.append(Case(f'wrapper-dtype/{name}', TMOD + ksrc, 'kern', [{'n': 3}], None, 'iso-c-wrapper', must_change=False,
                        custom=_custom_wrapper))
    for t in C36.T + EXTRA:
        group, name, args, body = t[:4]
        local = t[4] if len(t) > 4 else ''
        sizes = [{'n': 4}, {'n': 3}, {'n': 5}] if ' n ' in f' {args} ' else [{}]
        if len(t) > 5:
            sizes = t[5]
        out.append(Case(f'{group}/{name}', C36.kern(args, body, local), 'kern', sizes, None, 'transpile-c', must_change=False,
                        unwind=5, custom=_custom))
        # the same kernel: marshalling of its arguments by the generated wrapper (kernel = nondeterministic stub)
        out.append(Case(f'wrapper/{group}/{name}', C36.kern(args, body, local), 'kern', sizes[:1], None, 'iso-c-wrapper',
                        must_change=False, custom=_custom_wrapper))
    return out
