"""Templates for C32: constant propagation (with / without unrolling), dead code removal, unused variable / argument
removal."""
from loki import FindNodes, ir
from loki.transformations.constant_propagation import do_constant_propagation
from loki.transformations.remove_code import (
    do_remove_dead_code, do_remove_unused_vars, do_remove_unused_dummy_args, do_remove_unused_call_args,
    find_unused_dummy_args_and_vars
)
from vlib.tv import Case


def constprop(p):
    do_constant_propagation(p.entry)


def constprop_unroll(p):
    do_constant_propagation(p.entry, unroll_loops=True)


def deadcode(p):
    do_remove_dead_code(p.entry)


def deadcode_nosimplify(p):
    do_remove_dead_code(p.entry, use_simplify=False)


def constprop_then_dead(p):
    do_constant_propagation(p.entry)
    do_remove_dead_code(p.entry)


def unused_vars(p):
    do_remove_unused_vars(p.entry, remove_only_arrays=False)


def unused_arrays(p):
    do_remove_unused_vars(p.entry)


SRC = """
subroutine k(n, a, b, s, flag)
  integer, intent(in) :: n
  real, intent(inout) :: a(n)
  integer, intent(inout) :: b(n)
  integer, intent(inout) :: s
  logical, intent(in) :: flag
  integer :: i, j, c, d
  integer, parameter :: p = 3
  real :: t, unused1
  real :: tmp(n), unused2(n)
  logical :: l
{body}
end subroutine k
"""


def cases():
    out = []
    S = [{'n': 4}, {'n': 3}]
    CP = (('constprop', constprop), ('constprop-unroll', constprop_unroll), ('constprop+dead', constprop_then_dead))
    DC = (('dead', deadcode), ('dead-nosimplify', deadcode_nosimplify), ('constprop+dead', constprop_then_dead))

    def one(name, body, applies, group):
        for an, fn in applies:
            out.append(Case(f'{name}/{an}', SRC.format(body=body), 'k', S, fn, group))
    one('const-chain', '  c = 2\n  d = c*3 + p\n  s = s + d - c\n  b(1) = d/c', CP, 'constprop')
    one('const-killed-by-input', '  c = 2\n  s = s + c\n  c = s\n  b(1) = c + 1\n  c = 5\n  b(2) = c', CP, 'constprop')
    one('const-in-branch', '  c = 1\n  if (flag) then\n    c = 2\n  end if\n  s = s + c', CP, 'constprop')
    one('const-both-branches-same', '  if (flag) then\n    c = 2\n  else\n    c = 2\n  end if\n  s = s*c', CP, 'constprop')
    one('const-decidable-condition', '  c = 4\n  if (c > p) then\n    s = s + 1\n  else\n    s = s - 1\n  end if\n  if (c == p .or. flag) s = s*2', CP + DC, 'constprop')
    one('loop-kills-const', '  c = 0\n  do i=1,n\n    c = c + i\n  end do\n  s = c', CP, 'constprop')
    one('loop-var-after', '  do i=1,3\n    b(i) = i*2\n  end do\n  s = s + i', CP, 'constprop')
    one('const-loop-bounds', '  c = 2\n  d = 4\n  do i=c,d\n    b(i) = b(i) + c\n  end do\n  s = d - c', CP, 'constprop')
    one('negative-step-loop', '  c = 1\n  do i=4,c,-2\n    b(i) = i + c\n    s = s*2 + i\n  end do', CP, 'constprop')
    one('array-element-consts', '  b(1) = 5\n  b(2) = b(1) + 1\n  s = b(2)*2\n  i = 1\n  b(i + 1) = s', CP, 'constprop')
    one('index-const-before-loop', '  i = 3\n  b(i) = 1\n  do i=1,n\n    b(i) = b(i) + i + 2\n    if (i > 2) s = s + i\n  end do', CP, 'constprop')
    one('index-const-before-literal-loop', '  j = 2\n  c = j\n  do j=1,3\n    s = s*2 + j\n    b(j) = j - c\n  end do\n  b(4) = c', CP, 'constprop')
    one('index-reused-nested', '  i = 1\n  do j=1,2\n    do i=j,n\n      b(i) = b(i) + i*j\n    end do\n  end do', CP, 'constprop')
    one('const-used-as-bound-and-index', '  c = 2\n  i = c\n  do i=i,n\n    b(i) = c + i\n  end do\n  s = s + c', CP, 'constprop')
    one('int-division-and-mod', '  c = 7\n  d = -2\n  s = s + c/d + mod(c, d) + (c + 1)/(d - 1)', CP, 'constprop')
    one('real-consts', '  t = 1.5\n  a(1) = a(1)*t + 2.0*t\n  t = a(2)\n  a(3) = t + 0.5', CP, 'constprop')
    one('logical-consts', '  l = .true.\n  if (l .and. flag) s = s + 1\n  l = .not. l\n  if (l .or. s > 3) s = s - 2', CP + DC, 'constprop')
    one('dead-literal-conditions', '  if (.false.) then\n    s = 99\n  else\n    s = s + 1\n  end if\n  if (.true.) b(1) = 7\n  if (1 > 2) b(2) = 8', DC, 'deadcode')
    one('dead-elseif', '  if (flag) then\n    s = 1\n  else if (.false.) then\n    s = 2\n  else if (s > 3) then\n    s = 3\n  else\n    s = 4\n  end if', DC, 'deadcode')
    one('dead-symbolic-tautology', '  if (s + 1 > s) then\n    b(1) = 1\n  else\n    b(1) = 2\n  end if\n  if (n == n) b(2) = 3\n  if (s /= s) b(3) = 4', DC, 'deadcode')
    one('dead-undecidable', '  if (s > n) then\n    b(1) = 1\n  end if\n  if (s == n) then\n    b(2) = 2\n  else\n    b(2) = 3\n  end if\n  if (b(1) /= s) b(3) = 5', DC, 'deadcode')
    # SELECT CASE with constant / run-time selectors: literal lists, ranges (closed, open), named constants, no match, no default
    one('dead-select-const-literal-list', '  select case (2)\n  case (1)\n    s = 10\n  case (5, 2)\n    s = 20\n  case default\n    s = 30\n  end select', DC, 'deadcode')
    one('dead-select-const-in-range', '  select case (4)\n  case (1)\n    s = 10\n  case (3:6)\n    s = 20\n  case default\n    s = 30\n  end select\n  select case (7)\n  case (:2)\n    b(1) = 1\n  case (5:)\n    b(1) = 2\n  case default\n    b(1) = 3\n  end select', DC, 'deadcode')
    one('dead-select-const-named-constant', '  select case (3)\n  case (1)\n    s = 10\n  case (p)\n    s = 20\n  case default\n    s = 30\n  end select\n  select case (p)\n  case (2:4)\n    b(2) = 1\n  end select', DC, 'deadcode')
    one('dead-select-const-no-match', '  select case (9)\n  case (1)\n    s = 10\n  case (2:3)\n    s = 20\n  case default\n    s = 30\n  end select\n  select case (9)\n  case (1, 2)\n    b(1) = 5\n  end select', DC, 'deadcode')
    one('dead-select-runtime-selector', '  select case (s)\n  case (:0)\n    b(1) = 1\n  case (1, 3)\n    b(1) = 2\n  case (4:6)\n    b(1) = 3\n  case default\n    b(1) = 4\n  end select', DC, 'deadcode')
    one('dead-select-after-constprop', '  c = 4\n  d = c + 1\n  select case (d)\n  case (1:3)\n    s = 10\n  case (5:8)\n    s = 20\n  case default\n    s = 30\n  end select', CP + DC, 'deadcode')
    one('dead-nested', '  if (flag) then\n    if (.false.) then\n      s = 1\n    end if\n    s = s + 2\n  else\n    if (.true.) then\n      s = s*3\n    else\n      s = 0\n    end if\n  end if', DC, 'deadcode')
    one('unused-vars', '  t = 2.0\n  tmp(1) = t\n  a(1) = tmp(1) + a(2)', (('unused-all', unused_vars), ('unused-arrays', unused_arrays)), 'unused')
    # unused dummy arguments with matching call arguments
    CALL = """
module um
contains
  subroutine callee(m, v, w, u, z)
    integer, intent(in) :: m
    real, intent(inout) :: v(m)
    real, intent(in) :: w, u
    real, intent(in) :: z(m)
    integer :: i
    do i=1,m
      v(i) = v(i)*w + z(i)
    end do
  end subroutine callee

  subroutine drv(n, a, b, y)
    integer, intent(in) :: n
    real, intent(inout) :: a(n)
    real, intent(in) :: b(n), y
    call callee(n, a, y, y*2.0, b)
    call callee(m=n, v=a, u=1.0, w=2.0, z=b)
  end subroutine drv
end module um
"""

    def rm_args(p):
        callee = [r for m in p.modules for r in m.subroutines if r.name == 'callee'][0]
        unused, _ = find_unused_dummy_args_and_vars(callee)
        do_remove_unused_call_args(p.entry, {callee: unused})
        do_remove_unused_dummy_args(callee, unused)
    out.append(Case('unused-dummy-and-call-args', CALL, 'drv', S, rm_args, 'unused'))
    return out
