"""Templates for C26 / C27: routines whose dataflow sets are compared with the feasible reads/writes of a symbolic
execution."""

KERNELS = """
subroutine k_noint(x, y, z)
  integer :: x
  integer, intent(in) :: y
  integer, intent(out) :: z
  x = y
  z = y
end subroutine k_noint

subroutine k_rw(m, v, w, f)
  integer, intent(in) :: m
  real, intent(inout) :: v(m)
  real, intent(out) :: w(m)
  real, intent(in) :: f
  integer :: i
  do i=1,m
    w(i) = v(i)*f
    v(i) = w(i) + 1.0
  end do
end subroutine k_rw

subroutine k_noint_arr(m, v, g)
  integer, intent(in) :: m
  real :: v(m)
  real :: g
  integer :: i
  do i=1,m
    v(i) = v(i) + g
  end do
  g = v(1)
end subroutine k_noint_arr

subroutine k_slot(e, pos)
  real, intent(in) :: e
  integer, intent(inout) :: pos
  if (e > 0.) pos = pos + 1
end subroutine k_slot

subroutine k_slot3(e, f, pos)
  real, intent(in) :: e
  real, intent(out) :: f
  integer :: pos
  f = e + real(pos)
  pos = 1
end subroutine k_slot3
"""

SRC = """
subroutine k(n, a, b, c, s, t, flag, ia, ib, ic)
  integer, intent(in) :: n
  real, intent(inout) :: a(n), b(n), c(n, 2)
  real, intent(inout) :: s, t
  logical, intent(in) :: flag
  integer, intent(inout) :: ia, ib, ic
  integer :: i, j, k1
  real :: x, y, w(n)
{body}
end subroutine k
"""

BODIES = {
    'straight': '  x = s + 1.0\n  y = x*t\n  s = y\n  a(1) = x + a(2)',
    'conditional': '  if (flag) then\n    x = s\n    t = x + 1.0\n  else\n    y = t\n    s = y\n  end if\n  a(1) = s + t',
    'conditional-partial-def': '  x = 1.0\n  if (s > 0.) then\n    x = s\n  end if\n  t = x',
    'loop-accumulate': '  x = 0.\n  do i=1,n\n    x = x + a(i)\n    b(i) = x\n  end do\n  s = x',
    'loop-carried-array': '  do i=2,n\n    a(i) = a(i-1) + b(i)\n  end do',
    'loop-independent': '  do i=1,n\n    w(i) = a(i)*2.0\n    b(i) = w(i) + s\n  end do',
    'loop-scalar-temp': '  do i=1,n\n    x = a(i)\n    b(i) = x*x\n  end do\n  t = x',
    'nested-loops': '  do j=1,2\n    do i=1,n\n      c(i, j) = a(i)*j + s\n    end do\n    s = c(1, j)\n  end do',
    'select-case': '  select case (ia)\n  case (1)\n    x = s\n    t = x\n  case (2:3)\n    y = t\n    s = y + b(1)\n  case default\n    a(1) = s\n  end select\n  ib = ic',
    'where': '  where (a > 0.)\n    b = a*s\n  elsewhere\n    b = t\n    c(:, 1) = a\n  end where\n  s = b(1)',
    'where-self': '  where (b > a)\n    b = b - a\n  end where',
    'associate': '  associate(p => a, q => c(:, 2), r => s)\n    do i=1,n\n      q(i) = p(i) + r\n    end do\n    r = q(1)\n  end associate\n  t = s',
    'section-assign': '  a(2:n) = b(1:n-1) + s\n  c(:, 1) = a(:)\n  t = c(1, 1)',
    'call-intents': '  call k_rw(n, a, w, s)\n  t = w(1) + a(n)',
    'call-no-intent': '  call k_noint(ia, ib, ic)\n  s = real(ia + ic)',
    'call-no-intent-array': '  call k_noint_arr(n, a, s)\n  t = a(1) + s',
    'call-in-loop': '  do j=1,2\n    call k_rw(n, c(:, j), w, t)\n    a(j) = w(j)\n  end do',
    'call-element-args': '  do i=1,n\n    call k_noint(ia, i, ib)\n    a(i) = real(ia + ib)\n  end do',
    'while-loop': '  i = 1\n  x = s\n  do while (i < n .and. x < 10.)\n    x = x + a(i)\n    i = i + 1\n  end do\n  t = x',
    'loop-if-writes-else-reads': '  do i=1,n\n    if (mod(i, 2) == 0) then\n      x = 10.*i\n    else\n      b(i) = x\n    end if\n  end do',
    'loop-elseif-reads-earlier-branch': '  y = s\n  do i=1,n\n    if (a(i) > 0.) then\n      y = a(i)\n    else if (a(i) < 0.) then\n      b(i) = y\n    else\n      t = y + t\n    end if\n  end do',
    'loop-nested-if-carried': '  x = 0.\n  do i=1,n\n    if (flag) then\n      if (i > 1) then\n        a(i) = x\n      else\n        x = a(i)\n      end if\n    end if\n  end do',
    'loop-where-carried': '  do j=1,2\n    where (c(:, j) > 0.)\n      w = c(:, j)\n    elsewhere\n      c(:, j) = w\n    end where\n  end do',
    'select-case-in-loop-carried': '  do i=1,n\n    select case (mod(i, 3))\n    case (0)\n      x = a(i)\n    case (1)\n      b(i) = x\n    case default\n      y = x\n    end select\n  end do',
    'call-index-also-written': '  ia = 1\n  do i=1,n\n    if (flag) then\n      call k_slot(a(ia), ia)\n    end if\n  end do\n  s = real(ia)',
    'call-index-of-in-and-out-elements-also-written': '  ic = 2\n  call k_slot3(b(ic), c(ic, 1), ic)\n  t = c(2, 1) + real(ic)',
    'call-section-index-only-read': '  ib = 2\n  call k_rw(n, c(:, ib), w, t)\n  call k_slot(w(ib), ia)',
    'loop-variable-stride-written-in-outer': '  k1 = 1\n  do i=1,n\n    do j=1,n,k1\n      a(j) = a(j) + 1.0\n    end do\n    k1 = i + 1\n  end do',
    'early-exit': '  x = 0.\n  do i=1,n\n    if (a(i) < 0.) exit\n    x = x + a(i)\n  end do\n  s = x + real(i)',
}


def sources(enrich=True, case_variants=True):
    out = [(name, SRC.format(body=body) + KERNELS) for name, body in BODIES.items()]
    if case_variants:
        from vlib.casevar import permute_case  # pylint: disable=import-outside-toplevel
        # the same routines with the occurrences of every identifier re-spelled in another letter case (same program)
        out += [(name + '~case', permute_case(src)) for name, src in list(out)[::2]]
    return out
