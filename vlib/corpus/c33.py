"""Templates for C33: outlining of pragma regions and extraction of internal procedures."""
from loki.transformations.extract import outline_pragma_regions, extract_internal_procedures
from vlib.tv import Case


def _attach_new(p, new):
    p.routines += list(new)
    base = p.sourcefile
    p.fortran = lambda: base.to_fortran() + '\n' + '\n'.join(r.to_fortran() for r in new) + '\n'
    p.text = None
    allr = p.routines + [r for m in p.modules for r in m.subroutines]
    for r in allr:
        try:
            r.enrich(allr)
        except Exception:  # pylint: disable=broad-except
            pass


def outline(p):
    new = outline_pragma_regions(p.entry)
    _attach_new(p, new)


def extract(p):
    new = extract_internal_procedures(p.entry)
    _attach_new(p, new)


OUT = """
subroutine k(n, a, b, s, t)
  integer, intent(in) :: n
  real, intent(inout) :: a(n)
  real, intent(in) :: b(n)
  real, intent(inout) :: s
  real, intent(out) :: t
  integer :: i, j
  real :: tmp, w(n)
{body}
end subroutine k
"""

HELP = """
subroutine helper(m, v, x)
  integer, intent(in) :: m
  real, intent(inout) :: v(m)
  real, intent(in) :: x
  integer :: i
  do i=1,m
    v(i) = v(i) + x
  end do
end subroutine helper
"""


def cases():
    out = []
    S = [{'n': 3}, {'n': 4}]

    def o(name, body, extra=''):
        out.append(Case(f'outline/{name}', OUT.format(body=body) + extra, 'k', S, outline, 'outline'))
    o('read-only', '  t = 0.\n  !$loki outline\n  do i=1,n\n    t = t + b(i)\n  end do\n  !$loki end outline\n  s = s + t')
    o('write-then-read-after', '  !$loki outline\n  tmp = b(1)*2.0\n  do i=1,n\n    a(i) = a(i) + tmp\n  end do\n  !$loki end outline\n  t = tmp + a(n)')
    o('read-write-scalar', '  t = 1.0\n  !$loki outline\n  s = s*2.0 + b(1)\n  t = t + s\n  !$loki end outline\n  a(1) = s - t')
    o('local-array-written-read-after', '  !$loki outline\n  do i=1,n\n    w(i) = b(i) - a(i)\n  end do\n  !$loki end outline\n  t = w(1) + w(n)\n  a(1) = w(2)')
    o('local-array-partially-written', '  w(1) = s\n  w(n) = -s\n  !$loki outline\n  do i=2,n-1\n    w(i) = b(i)\n  end do\n  !$loki end outline\n  t = w(1) + w(n)\n  a(2) = w(2)')
    o('loop-var-inside', '  t = 0.\n  j = 2\n  !$loki outline\n  do i=j,n\n    a(i) = b(i-1)\n  end do\n  !$loki end outline\n  t = a(j)')
    o('named-with-intents', '  t = 0.\n  !$loki outline name(myreg) in(b) inout(a,s) out(t)\n  do i=1,n\n    a(i) = a(i)*s + b(i)\n  end do\n  t = a(1)\n  s = s + 1.0\n  !$loki end outline')
    o('two-regions', '  !$loki outline\n  tmp = s + 1.0\n  !$loki end outline\n  a(1) = tmp\n  !$loki outline\n  t = tmp*2.0 + a(1)\n  !$loki end outline\n  s = t')
    o('call-inside', '  t = 0.\n  !$loki outline\n  call helper(n, a, s)\n  t = a(1)\n  !$loki end outline\n  s = t + a(n)', extra=HELP)
    COMB = """
subroutine combine(p, q, r)
  real, intent(in) :: p, q
  real, intent(inout) :: r
  r = p*q + 1.0
end subroutine combine
"""
    o('pragma-narrows-inout-to-out', '  tmp = b(1)\n  !$loki outline name(reg1) in(tmp,s) out(t)\n  call combine(tmp, s, t)\n  w(1) = 2.0*t + tmp\n  !$loki end outline\n  a(1) = t + w(1)', extra=COMB)
    o('pragma-out-plus-derived-out', '  tmp = b(2)\n  !$loki outline in(tmp) out(s)\n  call combine(tmp, tmp, s)\n  t = 2.0*s + tmp\n  !$loki end outline\n  a(1) = s\n  a(2) = t', extra=COMB)
    o('pragma-in-for-derived-inout', '  t = 1.0\n  !$loki outline in(s) inout(t)\n  t = t + s\n  tmp = t*2.0\n  !$loki end outline\n  a(1) = tmp + t')
    o('conditional-write', '  t = 5.0\n  !$loki outline\n  if (s > 0.) then\n    t = s\n  end if\n  !$loki end outline\n  a(1) = t')
    o('region-in-loop', '  t = 0.\n  do j=1,2\n    !$loki outline\n    do i=1,n\n      a(i) = a(i) + j*b(i)\n    end do\n    t = t + a(j)\n    !$loki end outline\n  end do')
    EXT = """
subroutine k(n, a, b, s)
  integer, intent(in) :: n
  real, intent(inout) :: a(n)
  real, intent(in) :: b(n)
  real, intent(inout) :: s
  integer :: i, cnt
  real :: acc, loc(n)
{decl}
{body}
contains
{members}
end subroutine k
"""

    def e(name, body, members, decl=''):
        out.append(Case(f'extract/{name}', EXT.format(body=body, members=members, decl=decl), 'k', S, extract,
                        'extract-internal'))
    e('host-scalars', '  acc = 0.\n  cnt = 0\n  do i=1,n\n    call bump(a(i))\n  end do\n  s = acc + cnt',
      '  subroutine bump(v)\n    real, intent(inout) :: v\n    v = v + s\n    acc = acc + v\n    cnt = cnt + 1\n  end subroutine bump')
    e('host-arrays-and-size', '  loc(:) = b(:)\n  call fill(2)\n  s = loc(1)',
      '  subroutine fill(k0)\n    integer, intent(in) :: k0\n    integer :: j\n    do j=k0,n\n      a(j) = loc(j) + b(j-1)\n    end do\n    loc(1) = a(n)\n  end subroutine fill')
    e('function-member', '  do i=1,n\n    a(i) = scaled(b(i)) + scaled(a(i))\n  end do\n  s = scaled(s)',
      '  function scaled(v) result(w)\n    real, intent(in) :: v\n    real :: w\n    w = v*s + n\n  end function scaled')
    e('member-calls-member', '  acc = 1.0\n  call outer1(a(1))\n  s = acc',
      '  subroutine outer1(v)\n    real, intent(inout) :: v\n    call inner1(v)\n    v = v + acc\n  end subroutine outer1\n  subroutine inner1(v)\n    real, intent(inout) :: v\n    v = v*2.0 + b(1)\n    acc = acc + 1.0\n  end subroutine inner1')
    e('shadowing-local', '  acc = 2.0\n  call sh(a(2))\n  s = acc',
      '  subroutine sh(v)\n    real, intent(inout) :: v\n    real :: acc\n    acc = 10.0\n    v = v + acc + s\n  end subroutine sh')
    # attributes of host-associated variables that decide what a subscript addresses must survive the move to a dummy
    e('host-allocatable-lower-bound-0', '  allocate(ph(0:n))\n  ph(:) = 0.5\n  call fill()\n  s = ph(0) + 2.0*ph(n)\n  a(1) = ph(1)\n  deallocate(ph)',
      '  subroutine fill()\n    integer :: j\n    do j=1,n\n      ph(j) = b(j)*real(j)\n    end do\n  end subroutine fill',
      decl='  real, allocatable :: ph(:)')
    e('host-allocatable-lower-bound-2-2d', '  allocate(pg(2:n+1, -1:0))\n  pg(:, :) = s\n  call fill2(2)\n  s = pg(2, -1) - pg(n+1, 0)\n  a(2) = pg(3, 0)\n  deallocate(pg)',
      '  subroutine fill2(k0)\n    integer, intent(in) :: k0\n    integer :: j\n    do j=k0,n\n      pg(j, 0) = b(j)\n      pg(j+1, -1) = a(j) + pg(j, 0)\n    end do\n  end subroutine fill2',
      decl='  real, allocatable :: pg(:, :)')
    e('host-explicit-lower-bound', '  hl(:) = 1.5\n  call lev()\n  s = hl(0) + hl(n)\n  a(1) = hl(1)',
      '  subroutine lev()\n    integer :: j\n    do j=1,n\n      hl(j) = hl(j-1) + b(j)\n    end do\n  end subroutine lev',
      decl='  real :: hl(0:n)')
    e('host-allocatable-allocated-inside', '  call mk(n)\n  s = pw(0) + pw(n-1)\n  a(1) = pw(1)',
      '  subroutine mk(m)\n    integer, intent(in) :: m\n    integer :: j\n    allocate(pw(0:m-1))\n    do j=0,m-1\n      pw(j) = b(j+1) + s\n    end do\n  end subroutine mk',
      decl='  real, allocatable :: pw(:)')
    return out
