"""Templates for C30: array-section assignments (overlapping / strided / shifted lower bounds / multi-dimensional /
masked) and index-normalising transformations that keep the declared index space."""
from loki.transformations.array_indexing import (
    resolve_vector_notation, add_explicit_array_dimensions, remove_explicit_array_dimensions,
    normalize_range_indexing, normalize_array_shape_and_access
)
from loki import Dimension
from loki.transformations.array_indexing import resolve_vector_dimension
from vlib.tv import Case


def rvn(p):
    resolve_vector_notation(p.entry)


def rvn_noimplicit(p):
    resolve_vector_notation(p.entry, resolve_implicit_rhs_ranges=False)


def add_rm(p):
    add_explicit_array_dimensions(p.entry)
    remove_explicit_array_dimensions(p.entry)


def add_then_rvn(p):
    add_explicit_array_dimensions(p.entry)
    resolve_vector_notation(p.entry)


def on_kernel(fn):
    def f(p):
        k = [r for m in p.modules for r in m.subroutines if r.name.lower() == 'kern'][0]
        fn(k)
    f.__name__ = fn.__name__
    return f


def rvd_second(r):
    resolve_vector_dimension(r, dimension=Dimension(name='d2', size='m', index='jm', bounds=('ms', 'me')))


def rvd_first(r):
    resolve_vector_dimension(r, dimension=Dimension(name='d1', size='n', index='jn', bounds=('ns', 'ne')))


def rvn_r(r):
    resolve_vector_notation(r)


def rvn_noimpl_r(r):
    resolve_vector_notation(r, resolve_implicit_rhs_ranges=False)


ASSUMED = """
module am
contains
  subroutine kern(n, m, ns, ne, ms, me, a, b, s)
    integer, intent(in) :: n, m, ns, ne, ms, me
    real, intent(inout) :: a({ad})
    real, intent(in) :: b({bd})
    real, intent(in) :: s
    integer :: jn, jm
{body}
  end subroutine kern

  subroutine k(n, m, a, b, s)
    integer, intent(in) :: n, m
    real, intent(inout) :: a(n, m)
    real, intent(in) :: b(n, m)
    real, intent(in) :: s
    call kern(n, m, 1, n, 1, m, a, b, s)
  end subroutine k
end module am
"""


def nri(p):
    normalize_range_indexing(p.entry)


def nasa(p):
    normalize_array_shape_and_access(p.entry)


HDR1 = """
subroutine k(n, a, b, c)
  integer, intent(in) :: n
  real, intent(inout) :: a({ad})
  real, intent(in) :: b({bd})
  real, intent(inout) :: c({cd})
  integer :: i
{body}
end subroutine k
"""

HDR2 = """
subroutine k(n, m, a, b, s)
  integer, intent(in) :: n, m
  real, intent(inout) :: a({ad})
  real, intent(in) :: b({bd})
  real, intent(in) :: s
  integer :: i, j
{body}
end subroutine k
"""


def cases():
    out = []
    S1 = [{'n': 4}, {'n': 3}, {'n': 5}]
    S2 = [{'n': 3, 'm': 2}, {'n': 2, 'm': 3}]

    def one(name, body, ad='n', bd='n', cd='n', applies=(('rvn', rvn),), sizes=S1, hdr=HDR1):
        for an, fn in applies:
            out.append(Case(f'{name}/{an}', hdr.format(ad=ad, bd=bd, cd=cd, body=body), 'k', sizes, fn, 'array-notation'))

    R = (('rvn', rvn), ('add+rvn', add_then_rvn))
    one('plain', '  a(1:n) = b(1:n) + c(1:n)', applies=R + (('add-rm', add_rm),))
    one('whole', '  a = b*2.0 + c', applies=R + (('add-rm', add_rm), ('rvn-noimpl', rvn_noimplicit)))
    one('shift-right-overlap', '  a(2:n) = a(1:n-1) + b(2:n)', applies=R)
    one('shift-left-overlap', '  a(1:n-1) = a(2:n) + b(1:n-1)', applies=R)
    one('reverse-overlap', '  a(1:n) = a(n:1:-1)', applies=R)
    one('strided', '  a(1:n:2) = b(1:n:2) * 3.0', applies=R)
    one('strided-offset', '  a(2:n:2) = b(1:n-1:2) + c(2:n:2)', applies=R)
    one('negative-stride-rhs', '  a(1:n) = b(n:1:-1) + c(1:n)', applies=R)
    one('lower-bound-0', '  a(0:n-1) = b(0:n-1) + 1.0', ad='0:n-1', bd='0:n-1', applies=R + (('nasa', nasa),))
    one('lower-bound-0-whole', '  a = b\n  c(1:n) = a(0:n-1)', ad='0:n-1', bd='0:n-1', applies=R + (('nasa', nasa),))
    one('lower-bound-neg', '  a(-1:n-2) = b(2:n+1) - a(-1:n-2)', ad='-1:n-2', bd='2:n+1', applies=R + (('nasa', nasa),))
    one('range-1-decl', '  a(1:n) = b(1:n)\n  c(2) = a(1)', ad='1:n', bd='1:n', cd='1:n', applies=R + (('nri', nri), ('nasa', nasa)))
    one('scalar-broadcast', '  a(2:n-1) = c(1)', applies=R)
    one('elementwise-intrinsic', '  a(1:n) = max(b(1:n), c(1:n)) + abs(b(1:n))', applies=R)
    one('two-statements-chain', '  a(1:n) = b(1:n)\n  c(1:n-1) = a(2:n)', applies=R)
    one('inside-loop', '  do i=1,2\n    a(i:n) = a(i:n) + b(i:n)\n  end do', applies=R)
    one('inside-if', '  if (b(1) > 0.) then\n    a(1:n) = b(1:n)\n  else\n    a(1:n) = -c(1:n)\n  end if', applies=R)
    one('where-mask', '  where (b(1:n) > 0.)\n    a(1:n) = b(1:n)\n  elsewhere\n    a(1:n) = c(1:n)\n  end where', applies=R)
    one('where-overlap', '  where (a(1:n-1) > 0.)\n    a(2:n) = a(1:n-1)\n  end where', applies=R)
    one('sum-of-section', '  c(1) = sum(a(1:n)) + sum(b(2:n))\n  a(1:n) = b(1:n)', applies=R)
    one('index-in-bounds-expr', '  i = 2\n  a(i:n) = b(i-1:n-1)', applies=R)
    # 2D
    D2 = dict(hdr=HDR2, sizes=S2)
    one('2d-plain', '  a(1:n, 1:m) = b(1:n, 1:m) * s', ad='n, m', bd='n, m', applies=R + (('add-rm', add_rm),), **D2)
    one('2d-whole', '  a = b + s', ad='n, m', bd='n, m', applies=R + (('add-rm', add_rm), ('rvn-noimpl', rvn_noimplicit)), **D2)
    one('2d-colon', '  a(:, :) = b(:, :) * s', ad='n, m', bd='n, m', applies=R + (('add-rm', add_rm),), **D2)
    one('2d-row', '  do j=1,m\n    a(:, j) = b(:, j) + s*j\n  end do', ad='n, m', bd='n, m', applies=R, **D2)
    one('2d-col-fixed', '  a(1, 1:m) = b(n, 1:m)', ad='n, m', bd='n, m', applies=R, **D2)
    one('2d-transposed-ranges', '  a(1:n, 1) = b(1, 1:n)', ad='n, n', bd='n, n', applies=R, sizes=[{'n': 3, 'm': 1}], hdr=HDR2)
    one('2d-overlap-shift-dim2', '  a(1:n, 2:m) = a(1:n, 1:m-1)', ad='n, m', bd='n, m', applies=R, **D2)
    one('2d-lower-bounds', '  a(0:n-1, 2:m+1) = b(0:n-1, 2:m+1) + s', ad='0:n-1, 2:m+1', bd='0:n-1, 2:m+1',
        applies=R + (('nasa', nasa),), **D2)
    one('2d-partial-ranges', '  a(2:n, 1:m-1) = b(1:n-1, 2:m)', ad='n, m', bd='n, m', applies=R, **D2)
    one('2d-mixed-rank', '  do j=1,m\n    a(1:n, j) = b(1:n, 1)\n  end do', ad='n, m', bd='n, m', applies=R, **D2)
    # partial resolution: assumed-shape arrays (a bare ':' cannot be qualified), single-dimension resolution, no implicit ranges
    SQ = [{'n': 3, 'm': 3}, {'n': 2, 'm': 3}]
    PART = (('rvn', on_kernel(rvn_r)), ('rvn-noimpl', on_kernel(rvn_noimpl_r)), ('rvd-dim2', on_kernel(rvd_second)), ('rvd-dim1', on_kernel(rvd_first)))
    bodies = {
        'assumed-second-range': '    a(:, 2:m) = 3.0*b(:, 1:m-1)',
        'assumed-first-range': '    a(2:n, :) = b(1:n-1, :) + s',
        'explicit-bounds-vars': '    a(1:n, ms:me) = 2.0*b(1:n, ms:me)',
        'explicit-bounds-vars-dim1': '    a(ns:ne, 1:m) = b(ns:ne, 1:m) - s',
        'both-bounds-vars': '    a(ns:ne, ms:me) = b(ns:ne, ms:me)*s',
        'fixed-then-range': '    a(1, ms:me) = b(n, ms:me)',
        'shifted-second': '    a(1:n, 2:m) = b(1:n, 1:m-1)',
    }
    for bn, body in bodies.items():
        for shape, ad in (('assumed', ':, :'), ('explicit', 'n, m')):
            if bn.startswith('assumed') and shape == 'explicit':
                continue
            for an, fn in PART:
                out.append(Case(f'partial/{bn}/{shape}/{an}', ASSUMED.format(ad=ad, bd=ad, body=body), 'k', SQ, fn, 'array-notation'))
    return out
