"""A corpus of small complete Fortran programs (module + routines) covering the constructs named by C01, used by the
round-trip / conservative / clone / pickle / attach-detach checks.  Each entry: (name, source, entry, sizes)."""

P = []


def add(name, src, entry, sizes=({'n': 3},)):
    P.append((name, src, entry, list(sizes)))


add('scalars-arith', """
subroutine k(a, b, c, x, y, r, s)
  integer, intent(in) :: a, b, c
  real, intent(in) :: x, y
  integer, intent(out) :: r
  real, intent(out) :: s
  r = a - (b - c) + a/b*c - a/(b*c) + (-a)**2 - a**2 + mod(a, b) - (a + b)/(c - 7)
  r = r*2 - (-b)*(a - c) + max(a, b, c) - min(a, -b) + abs(c - a) + sign(a, -b)
  s = x - (y - x) + x/y*x - x/(y*x) + (-x)**2 - x**2*y + real(a)*x - 2.5e-1*y + 3.d0/x
  s = s + merge(x, y, a > b) + x**a
end subroutine k
""", 'k', [{}])

add('logic-and-compare', """
subroutine k(a, b, p, q, r, l)
  integer, intent(in) :: a, b
  logical, intent(in) :: p, q
  integer, intent(out) :: r
  logical, intent(out) :: l
  r = 0
  l = .not. p .and. q .or. a < b .and. .not. (a == b .or. q)
  if (a .lt. b .and. .not. p) r = r + 1
  if (a >= b .or. p .eqv. q) r = r + 2
  if (p .neqv. q) r = r + 4
  if (.not. (p .and. q) .or. a /= b) r = r + 8
  if (a + b > 2*a - b .and. (p .or. .not. q)) r = r + 16
end subroutine k
""", 'k', [{}])

add('if-elseif-select', """
subroutine k(n, a, s)
  integer, intent(in) :: n
  integer, intent(inout) :: a(n)
  integer, intent(inout) :: s
  integer :: i
  do i=1,n
    if (a(i) > 3) then
      a(i) = a(i) - 3
    else if (a(i) > 0) then
      a(i) = -a(i)
    else if (a(i) == 0) then
      a(i) = s
    else
      a(i) = a(i) + s
    end if
    select case (a(i))
    case (:-4)
      s = s - 1
    case (-3:-1)
      s = s + 1
    case (0)
      s = s*2
    case (1, 3, 5:6)
      s = s + a(i)
    case default
      s = 0
    end select
  end do
end subroutine k
""", 'k')

add('loops-while-exit-cycle-named', """
subroutine k(n, a, s, t)
  integer, intent(in) :: n
  integer, intent(inout) :: a(n)
  integer, intent(inout) :: s, t
  integer :: i, j
  i = 0
  do while (i < n .and. s < 10)
    i = i + 1
    if (a(i) < 0) cycle
    s = s + a(i)
    if (s > 7) exit
  end do
  outer: do i=1,n
    inner: do j=n,1,-1
      if (a(j) == i) cycle
      if (a(j) > 5) exit
      t = t + i*j
    end do inner
    t = t - 1
  end do outer
  do i=n,1,-2
    a(i) = a(i) + i
  end do
end subroutine k
""", 'k')

add('labelled-do-continue', """
subroutine k(n, a, s)
  integer, intent(in) :: n
  integer, intent(inout) :: a(n)
  integer, intent(inout) :: s
  integer :: i
  do 10 i=1,n
    a(i) = a(i)*2
    s = s + a(i)
10 continue
  do 20 i=2,n
    a(i) = a(i) - a(i-1)
20 continue
end subroutine k
""", 'k')

add('where-elsewhere-sections', """
subroutine k(n, a, b, c)
  integer, intent(in) :: n
  real, intent(inout) :: a(n), c(n, 2)
  real, intent(in) :: b(n)
  where (b > 0.)
    a = b*2.0
  elsewhere (b < -1.)
    a = -b
  elsewhere
    a = 0.5
  end where
  c(:, 1) = a(:) + b
  c(2:n, 2) = a(1:n-1) - c(2:n, 1)
  where (c(:, 1) > a) c(:, 2) = 1.0
  a(1) = sum(c(:, 2)) + maxval(b) - minval(a(2:n))
end subroutine k
""", 'k')

add('derived-types-module', """
module tm
  implicit none
  integer, parameter :: np = 2
  type geo_t
    integer :: k
    real :: w(np)
  end type geo_t
  type state_t
    real :: s
    type(geo_t) :: g
  end type state_t
  real :: gscale = 1.5
contains
  subroutine upd(st, x)
    type(state_t), intent(inout) :: st
    real, intent(in) :: x
    st%s = st%s*gscale + x
    st%g%w(st%g%k) = st%s
    gscale = gscale + 1.0
  end subroutine upd

  subroutine k(n, a, st)
    integer, intent(in) :: n
    real, intent(inout) :: a(n)
    type(state_t), intent(inout) :: st
    integer :: i
    st%g%k = 1
    do i=1,n
      call upd(st, a(i))
      a(i) = st%g%w(1) - st%g%w(np)
      st%g%k = np + 1 - st%g%k
    end do
  end subroutine k
end module tm
""", 'k')

add('internal-procedure-and-function', """
subroutine k(n, a, r)
  integer, intent(in) :: n
  real, intent(inout) :: a(n)
  real, intent(out) :: r
  integer :: i
  real :: acc
  acc = 0.
  do i=1,n
    call bump(a(i), i)
  end do
  r = twice(acc) - twice(a(1))
contains
  subroutine bump(v, k)
    real, intent(inout) :: v
    integer, intent(in) :: k
    v = v + real(k)
    acc = acc + v
  end subroutine bump
  function twice(v) result(w)
    real, intent(in) :: v
    real :: w
    w = 2.0*v
  end function twice
end subroutine k
""", 'k')

add('print-and-stop', """
subroutine k(n, a, s)
  integer, intent(in) :: n
  integer, intent(inout) :: a(n)
  integer, intent(inout) :: s
  integer :: i
  print *, 'start', s
  do i=1,n
    if (a(i) < 0) then
      print *, 'negative', i, a(i)
      s = -1
      return
    end if
    s = s + a(i)
  end do
  print *, a(1) + s, a(n)*2
  if (s > 20) stop
  s = s + 1
end subroutine k
""", 'k')

add('optional-keyword-args', """
module om
contains
  subroutine callee(v, scale, off, cnt)
    real, intent(inout) :: v
    real, intent(in), optional :: scale, off
    integer, intent(inout), optional :: cnt
    if (present(scale)) v = v*scale
    if (present(off)) then
      v = v + off
    else
      v = v - 1.0
    end if
    if (present(cnt)) cnt = cnt + 1
  end subroutine callee

  subroutine k(n, a, c)
    integer, intent(in) :: n
    real, intent(inout) :: a(n)
    integer, intent(inout) :: c
    call callee(a(1))
    call callee(a(2), 2.0)
    call callee(a(3), off=0.5, cnt=c)
    call callee(v=a(1), cnt=c, scale=a(2))
  end subroutine k
end module om
""", 'k')

add('allocatable-and-2d', """
subroutine k(n, m, a, s)
  integer, intent(in) :: n, m
  real, intent(inout) :: a(n, m)
  real, intent(out) :: s
  real, allocatable :: t(:, :)
  integer :: i, j
  allocate(t(m, n))
  do j=1,m
    do i=1,n
      t(j, i) = a(i, j)*real(i - j)
    end do
  end do
  s = 0.
  do i=1,n
    do j=1,m
      a(i, j) = t(j, i) + s
      s = s + t(j, i)
    end do
  end do
  deallocate(t)
end subroutine k
""", 'k', [{'n': 2, 'm': 3}, {'n': 3, 'm': 2}])

add('pragmas-comments-continuation', """
subroutine k(n, a, b, s)
  ! leading comment
  integer, intent(in) :: n
  real, intent(inout) :: a(n)   ! trailing comment
  real, intent(in) :: b(n)
  real, intent(inout) :: s
  integer :: i
  !$loki data
  !$omp parallel do private(i) &
  !$omp&  reduction(+:s)
  do i=1,n
    a(i) = a(i) + &
      &    b(i)*2.0 &
      &    - s
    !$loki some-pragma
    s = s + a(i)   ! accumulate
  end do
  !$omp end parallel do
  !$loki end data
  if (s > 0.) s = s - 1.0; a(1) = s
end subroutine k
""", 'k')

add('intrinsics-and-kinds', """
module pk
  integer, parameter :: jprb = selected_real_kind(13, 300)
  integer, parameter :: jpim = selected_int_kind(9)
end module pk
subroutine k(n, a, i1, r)
  use pk, only: jprb, jpim
  integer(kind=jpim), intent(in) :: n
  real(kind=jprb), intent(inout) :: a(n)
  integer(kind=jpim), intent(inout) :: i1
  real(kind=jprb), intent(out) :: r
  integer(kind=jpim) :: i
  r = 0._jprb
  do i=1_jpim,n
    a(i) = max(a(i), 0.5_jprb) + min(real(i, kind=jprb), 2.0_jprb) - abs(a(i))
    i1 = i1 + int(a(i)) + nint(a(i)) + mod(i1, 3_jpim)
    r = r + sign(a(i), -1.0_jprb)*1.0e-2_jprb
    r = r + real(i, jprb)/3 + real(i1)/7 + real(i, kind=jprb)/9._jprb
  end do
end subroutine k
""", 'k')

add('select-case-empty-body', """
subroutine k(n, i1, s)
  integer, intent(in) :: n, i1
  real, intent(inout) :: s
  select case (i1)
  case (1)
  case (2)
    s = 2.0
  case (3, 4)
  case (5:6)
    s = 3.0
  case (7)
    ! nothing to do for 7 (a body that consists of a comment only)
  case (8)
    s = 8.0
  case default
    s = -1.0
  end select
end subroutine k
""", 'k')

add('cycle-named-outer', """
subroutine k(n, a, t)
  integer, intent(in) :: n
  integer, intent(inout) :: a(n)
  integer, intent(inout) :: t
  integer :: i, j
  outer: do i=1,n
    inner: do j=1,n
      if (a(j) == i) cycle outer
      t = t + i*j
    end do inner
    t = t - 1
  end do outer
end subroutine k
""", 'k')

add('per-entity-dimension', """
subroutine k(n, s)
  integer, intent(in) :: n
  real, intent(inout) :: s
  real, dimension(2) :: a, b(4)
  integer :: i
  do i=1,4
    b(i) = s + i
  end do
  a(1) = b(4)
  a(2) = b(3)
  s = a(1) - a(2) + b(1)
end subroutine k
""", 'k')

add('string-quotes-and-char-length', """
subroutine k(n, s)
  integer, intent(in) :: n
  real, intent(inout) :: s
  character(len=3) :: c1, c2*8
  c2 = 'abcdefgh'
  c1 = 'xyz'
  print *, @Qsay @Q@Qhi@Q@Q@Q, 'it''s', c1, c2
  s = s + 1.0
end subroutine k
""".replace('@Q', chr(34)), 'k')

add('select-case-default-not-last', """
subroutine k(n, i1, s)
  integer, intent(in) :: n, i1
  real, intent(inout) :: s
  select case (i1)
  case (1)
    s = 1.0
  case default
    s = -1.0
  case (2:3)
    s = 2.0
  case (4)
    s = s + 4.0
  end select
  select case (i1 + n)
  case default
    s = s*2.0
  case (:0)
    s = s - 0.5
  case (5)
    s = s + 0.25
  end select
end subroutine k
""", 'k')

add('else-branch-with-nested-else-if-chain', """
subroutine k(n, a, s)
  integer, intent(in) :: n
  integer, intent(inout) :: a(n)
  integer, intent(inout) :: s
  integer :: i
  if (s > 3) then
    s = 0
  else   ! keep small values
    if (s < 0) then
      s = -s
    else if (s == 1) then
      s = 5
    else if (s == 2) then
      s = 7
    end if
  endif
  do i=1,n
    if (a(i) > 2) then
      a(i) = 1
    else
      if (a(i) > 0) then
        a(i) = 2
      else if (a(i) < -1) then
        a(i) = 3
      else
        a(i) = s
      end if
      s = s + 1
    end if
  end do
  if (a(1) > 1) then
    a(1) = 0
  else
    if (a(n) == 3) then
      a(n) = s
    elseif (a(n) == 2) then
      a(n) = 1
    end if
  endif
end subroutine k
""", 'k')

add('falsy-initial-values', """
module fz
  implicit none
  integer, parameter :: izero = 0
  logical, parameter :: ldebug = .false.
  real, parameter :: rzero = 0.0
  integer :: calls = 0
  type cnt_t
    integer :: hits = 0
    logical :: seen = .false.
    real :: w = 1.5
  end type cnt_t
contains
  subroutine k(n, a, s)
    integer, intent(in) :: n
    real, intent(inout) :: a(n)
    real, intent(inout) :: s
    type(cnt_t) :: c
    integer :: i
    do i=1,n
      if (ldebug) then
        a(i) = -1.0
      else
        a(i) = a(i) + real(izero + c%hits) + rzero
      end if
      c%hits = c%hits + 1
      if (.not. c%seen) s = s + c%w
      c%seen = .true.
    end do
    calls = calls + 1
    associate(first => a(1))
      first = first + real(calls)
    end associate
  end subroutine k
end module fz
""", 'k')

add('named-exit-cycle(frontend-limit)', """
subroutine k(n, a, t)
  integer, intent(in) :: n
  integer, intent(inout) :: a(n)
  integer, intent(inout) :: t
  integer :: i, j
  outer: do i=1,n
    inner: do j=n,1,-1
      if (a(j) == i) cycle outer
      if (a(j) > 5) exit outer
      t = t + i*j
    end do inner
    t = t - 1
  end do outer
end subroutine k
""", 'k')
