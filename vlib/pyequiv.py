"""C36 machinery: the real FortranPythonTransformation is run on a Fortran routine; the ORIGINAL is interpreted with
Fortran semantics (vlib.fsmt.interp), the GENERATED Python with Python/numpy semantics (vlib.fsmt.pysem) on the same
symbolic inputs; z3 decides whether any input within the bounds makes an observable differ (or makes the Python
function raise).  A model is replayed: gfortran build of the original vs CPython run of the generated module."""
import json
import os
import shutil
import subprocess
import sys
import tempfile
import time
from fractions import Fraction
from pathlib import Path

import z3

from loki import Sourcefile, Frontend
from loki.expression import symbols as sym
from loki.types import BasicType

from vlib.fsmt.sem import Sem, NeedIntMode
from vlib.fsmt.expr import NotEncoded
from vlib.fsmt.interp import Arr, Cell
from vlib.fsmt.equiv import Prog, _interpret, driver_source
from vlib.fsmt.pysem import PyInterp, PyArr
from vlib.fsmt.solve import check, model_value2
from vlib import replay as RP


def transpile(src, entry, **opts):
    """real code under test: FortranPythonTransformation + pygen on a fresh parse; returns (python source, function name)"""
    from loki.transformations.transpile import FortranPythonTransformation  # pylint: disable=import-outside-toplevel
    sf = Sourcefile.from_source(src, frontend=Frontend.FP)
    routine = [r for r in sf.routines if r.name.lower() == entry.lower()][0]
    d = tempfile.mkdtemp(prefix='verif-c36-')
    try:
        f2p = FortranPythonTransformation(suffix='_py', **opts)
        f2p.apply(source=routine, path=Path(d))
        return Path(f2p.py_path).read_text(), f2p.mod_name
    finally:
        shutil.rmtree(d, ignore_errors=True)


def _py_args(sem, it1, fr1, entry, sizes):
    """the call a user makes (as in the repository's own tests): every argument except scalar intent(out) ones, in
    order; scalars as Python numbers, arrays as numpy arrays of the declared type"""
    args, shadow = {}, {}
    sz = {k.lower(): v for k, v in sizes.items()}
    for a in entry.arguments:
        n = a.name.lower()
        obj = fr1.vars[n]
        intent = (a.type.intent or '').lower()
        if isinstance(obj, Arr):
            elems = {}
            fixed = sz.get(n) if isinstance(sz.get(n), (list, tuple)) else None
            for k, idx in enumerate(obj.index_list()):
                zero = tuple(i - lo for i, (lo, _) in zip(idx, obj.bounds))
                elems[zero] = sem.int_lit(fixed[k]) if fixed is not None else it1.inputs[f'in_{n}_p{k + 1}']
            args[n] = PyArr(n, [hi - lo + 1 for lo, hi in obj.bounds], elems, obj.sort)
            shadow[n] = args[n]
        elif isinstance(obj, Cell):
            if intent == 'out':
                continue
            args[n] = sem.int_lit(sz[n]) if n in sz and obj.sort == sem.isort else it1.inputs[f'in_{n}']
        else:
            raise NotEncoded(f'argument kind of {n}')
    return args, shadow


def check_py(src, entry, sizes, unwind=5, int_bound=6, timeout_ms=20000, opts=None):
    t0 = time.time()
    res = {'seconds': 0.0}
    p1 = Prog.from_source(src, entry)
    pysrc, fname = transpile(src, entry, **(opts or {}))
    res['python'] = pysrc
    last = None
    for real_mode in ('uf', 'real'):
        try:
            sem = Sem(real_mode)
            it1, fr1, obs1 = _interpret(sem, p1, sizes, (), unwind, int_bound)
            n1 = len(sem.defined)
            sem.lang = 'python'
            local_sorts = {}
            for v in p1.entry.variables:
                try:
                    local_sorts[v.name.lower()] = it1.sort_of_type(v.type)
                except NotEncoded:
                    pass
            try:
                py = PyInterp(sem, pysrc, fname, local_sorts=local_sorts, unwind=unwind)
            except SyntaxError as ex:
                return {'verdict': 'sat', 'model': {}, 'mode': 'structural', 'python': pysrc, 'seconds': time.time() - t0,
                        'differences': [('generated module', 'importable', f'SyntaxError: {ex.msg} (line {ex.lineno})')]}
            args, shadow = _py_args(sem, it1, fr1, p1.entry, sizes)
            ret = py.run(args)
        except NotEncoded as ex:
            if real_mode == 'uf' and 'uninterpreted-real abstraction' in str(ex):
                continue          # needs the exact-real encoding
            return {'verdict': 'notenc', 'why': str(ex), 'seconds': time.time() - t0, 'python': pysrc}
        except (TypeError, NeedIntMode, NotImplementedError, z3.Z3Exception) as ex:
            return {'verdict': 'notenc', 'why': f'{type(ex).__name__}: {ex}', 'seconds': time.time() - t0, 'python': pysrc}
        # pair the observables: scalars come back in the returned tuple (inout + out, argument order), arrays in place
        ret_names = [a.name.lower() for a in p1.entry.arguments
                     if isinstance(fr1.vars[a.name.lower()], Cell) and (a.type.intent or '').lower() in ('inout', 'out')]
        if len(ret) != len(ret_names):
            return {'verdict': 'notenc', 'why': f'returned tuple has {len(ret)} values for {ret_names}', 'seconds': time.time() - t0,
                    'python': pysrc}
        pyval = dict(zip(ret_names, ret))
        diffs, pairs = [], []
        for label, a in obs1:
            base = label.split('[#')[0]
            if '[#' in label:
                k = int(label.split('[#')[1].rstrip(']')) - 1
                obj = fr1.vars[base]
                idx = obj.index_list()[k]
                b = shadow[base].elems[tuple(i - lo for i, (lo, _) in zip(idx, obj.bounds))]
            elif base in pyval:
                b = pyval[base]
            else:
                continue        # scalar without intent: not returned, not observable for a Python caller
            if sem.is_bool(a) != sem.is_bool(b):
                b = py.truth(b) if sem.is_bool(a) else b
                if sem.is_bool(a) != sem.is_bool(b):
                    return {'verdict': 'notenc', 'why': f'kind of {label} differs', 'seconds': time.time() - t0, 'python': pysrc}
            if a.sort() != b.sort():
                a, b = sem.to_real(a), sem.to_real(b)      # value comparison: 2 == 2.0 for the caller
            pairs.append((label, a, b))
            if not a.eq(b):
                diffs.append(a != b)
        d1, d2 = list(sem.defined[:n1]), list(sem.defined[n1:])
        assume = list(sem.ranges) + d1 + [z3.Not(it1.trap), z3.Not(it1.unwind_violation), z3.Not(it1.aborted),
                                          z3.Not(py.undef_read), z3.Not(py.unwind_violation)]
        viol = z3.Or(py.raises, z3.Not(z3.And(*d2)) if d2 else z3.BoolVal(False), z3.Or(*diffs) if diffs else z3.BoolVal(False))
        res['observables'] = len(pairs)
        rv, _, _ = check(assume, timeout_ms)
        if rv == 'unsat':
            return {'verdict': 'vacuous', 'why': 'no admissible input', 'trap_reasons': it1.trap_reasons[:5], 'seconds': time.time() - t0}
        ru, _, _ = check(list(sem.ranges) + [z3.Not(it1.trap), z3.Or(it1.unwind_violation, py.unwind_violation)], timeout_ms)
        res['unwinding_complete'] = (ru == 'unsat')
        r, m, _ = check(assume + [viol], timeout_ms)
        res['mode'] = f'{real_mode}:int/real'
        if r == 'unsat':
            res['verdict'] = 'unsat' if (real_mode == 'uf' or not sem.used_real) else 'unsat-real-only'
            res['seconds'] = time.time() - t0
            return res
        last = (r, m if r == 'sat' else None, sem, it1, py, pairs)
        if not sem.used_real:
            break
    r, m, sem, it1, py, pairs = last
    res['verdict'] = r
    if r == 'sat':
        res['model'] = {n: model_value2(m, v) for n, v in sorted(it1.inputs.items())}
        res['differences'] = [(l, model_value2(m, a), model_value2(m, b)) for l, a, b in pairs
                              if model_value2(m, a) != model_value2(m, b)][:8]
        res['trap2'] = bool(z3.is_true(m.eval(py.raises, model_completion=True)))
        res['trap2_reasons'] = py.raise_reasons[:5] if res['trap2'] else []
    res['seconds'] = time.time() - t0
    return res


# ------------------------------------------------------------------------------------------------------- replay

_PYDRV = r'''
import importlib.util, json, sys, warnings
import numpy as np
warnings.simplefilter('ignore')
spec = json.load(open(sys.argv[1]))
try:
    s = importlib.util.spec_from_file_location(spec['fname'], spec['path'])
    mod = importlib.util.module_from_spec(s)
    s.loader.exec_module(mod)
    func = getattr(mod, spec['fname'])
except BaseException as ex:
    print('@@RAISED', type(ex).__name__, str(ex)[:200]); sys.exit(0)
DT = {'i': np.int32, 'r': np.float64, 'l': np.bool_}
call, arrays = [], {}
for a in spec['args']:
    if a['shape'] is not None:
        arr = np.zeros(shape=tuple(a['shape']), order='F', dtype=DT[a['kind']])
        flat = a['value']
        for k, idx in enumerate(np.ndindex(*reversed(a['shape']))):
            arr[tuple(reversed(idx))] = flat[k]           # column-major element order
        arrays[a['name']] = arr
        call.append(arr)
    elif a['passed']:
        v = a['value']
        call.append(bool(v) if a['kind'] == 'l' else (float(v) if a['kind'] == 'r' else int(v)))
try:
    ret = func(*call)
except BaseException as ex:
    print('@@RAISED', type(ex).__name__, str(ex)[:200]); sys.exit(0)
if not isinstance(ret, tuple):
    ret = (ret,)
ret = list(ret)
def show(v):
    if isinstance(v, (bool, np.bool_)):
        return 'T' if v else 'F'
    return repr(float(v))
for a in spec['args']:
    if a['shape'] is not None:
        print('@' + a['name'], *[show(x) for x in arrays[a['name']].flatten(order='F')])
    elif a['returned']:
        print('@' + a['name'], show(ret.pop(0)))
'''


def _val(v, kind):
    if kind == 'l':
        return bool(v)
    if isinstance(v, tuple):
        return float(Fraction(v[0], v[1]))
    if isinstance(v, (int, float)) and not isinstance(v, bool):
        return v
    return 1


def replay_py(src, entry, sizes, model, pysrc, fname, timeout=120, rtol=1e-6):
    """(differs: bool|None, message): gfortran run of the ORIGINAL vs CPython run of the generated function"""
    model = model or {}
    p1 = Prog.from_source(src, entry)
    try:
        decl, init, args, out = driver_source(p1.entry, sizes, model, 'orig')
    except NotEncoded as ex:
        return None, f'no replay driver: {ex}'
    lines = ['program rp', '  use iso_fortran_env', '  implicit none'] + decl + [f'  external :: {p1.entry.name}'] + init
    lines.append(f"  call {p1.entry.name}({', '.join(a.split('=')[0] for a in args)})")
    for o in out:
        lines.append(f"  print *, '@{o}', {o}")
    lines.append('end program rp')
    ok, so, se = RP.run_fortran([('prog.F90', src + '\n'), ('drv.F90', '\n'.join(lines) + '\n')], timeout=timeout,
                                flags=('-fcheck=bounds', '-ffpe-trap=zero,invalid'))
    if not ok:
        return None, f'original does not build/run: {se[-300:]}'
    want = {}
    for line in so.splitlines():
        t = line.split()
        if t and t[0].startswith('@'):
            want[t[0][1:].lower()] = t[1:]
    # the Python call
    from vlib.fsmt.interp import Interp  # pylint: disable=import-outside-toplevel
    sem = Sem('real')
    it = Interp(sem, p1.routines, p1.modules, sizes)
    it.int_bound = 6
    fr = it.run_entry(p1.entry)
    sz = {k.lower(): v for k, v in sizes.items()}
    spec = {'fname': fname, 'args': []}
    for a in p1.entry.arguments:
        n = a.name.lower()
        kind = {BasicType.INTEGER: 'i', BasicType.REAL: 'r', BasicType.LOGICAL: 'l'}[a.type.dtype]
        intent = (a.type.intent or '').lower()
        obj = fr.vars[n]
        if isinstance(obj, Arr):
            if isinstance(sz.get(n), (list, tuple)):
                vals = list(sz[n])
            else:
                vals = [_val(model.get(f'in_{n}_p{k + 1}', 1 if kind != 'l' else False), kind) for k in range(len(obj.index_list()))]
            spec['args'].append({'name': n, 'kind': kind, 'shape': [hi - lo + 1 for lo, hi in obj.bounds], 'value': vals})
        else:
            v = sz.get(n, model.get(f'in_{n}', 1 if kind != 'l' else False))
            spec['args'].append({'name': n, 'kind': kind, 'shape': None, 'value': _val(v, kind), 'passed': intent != 'out',
                                 'returned': intent in ('inout', 'out')})
    d = RP.scratch()
    try:
        spec['path'] = os.path.join(d, fname + '.py')
        Path(spec['path']).write_text(pysrc)
        Path(d, 'spec.json').write_text(json.dumps(spec))
        Path(d, 'drv.py').write_text(_PYDRV)
        env = dict(os.environ)
        env.pop('PYTHONPATH', None)
        p = subprocess.run([sys.executable, 'drv.py', 'spec.json'], cwd=d, capture_output=True, text=True, timeout=timeout, env=env)
    except subprocess.TimeoutExpired:
        return None, 'python replay timed out'
    finally:
        shutil.rmtree(d, ignore_errors=True)
    if p.returncode != 0:
        return None, f'python replay driver failed: {p.stderr[-300:]}'
    got = {}
    for line in p.stdout.splitlines():
        t = line.split()
        if t and t[0] == '@@RAISED':
            return True, f'generated Python raises {" ".join(t[1:])} (gfortran build of the original runs: {so.split()[:12]})'
        if t and t[0].startswith('@'):
            got[t[0][1:]] = t[1:]
    for a in spec['args']:
        n = a['name']
        if n not in got:
            continue
        w, g = want.get(n), got[n]
        if w is None or len(w) != len(g):
            return None, f'replay outputs of {n} not comparable: {w} vs {g}'
        for k, (x, y) in enumerate(zip(w, g)):
            if x in ('T', 'F') or y in ('T', 'F'):
                if x != y:
                    return True, f'{n}#{k + 1}: gfortran {x} vs python {y} (inputs {model})'
                continue
            fx, fy = float(x), float(y)
            if fx != fx or fy != fy or abs(fx - fy) > rtol * max(1.0, abs(fx), abs(fy)):
                return True, f'{n}#{k + 1}: gfortran {x} vs python {y} (inputs {model})'
    return False, f'gfortran and CPython outputs agree: {got}'
