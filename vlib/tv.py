"""Generic translation-validation runner: template case x size instance -> real Loki transformation -> solver
equivalence (vlib.fsmt.equiv) -> gfortran replay of any model."""
import json
import traceback

from vlib.common import Ctx, pmap, rotate
from vlib.fsmt.equiv import Prog, check_equiv, replay_equiv


class Case:
    def __init__(self, name, src, entry, sizes, apply, group, absent=(), include_locals=(), unwind=5, must_change=True,
                 note='', raise_is_violation=False, custom=None, trace_pragmas=False):
        self.name, self.src, self.entry, self.sizes, self.apply, self.group = name, src, entry, sizes, apply, group
        self.absent, self.include_locals, self.unwind, self.must_change, self.note = absent, include_locals, unwind, must_change, note
        self.raise_is_violation = raise_is_violation
        self.trace_pragmas = trace_pragmas
        self.custom = custom      # optional callable(case, sizes) -> record; replaces the Fortran-vs-Fortran obligation


CASES = []
CASES_BY_NAME = {}


def _work(item):
    ci, si = item
    c = CASES[ci]
    sizes = c.sizes[si]
    rec = {'case': c.name, 'group': c.group, 'sizes': sizes}
    if c.custom is not None:
        try:
            rec.update(c.custom(c, sizes))
        except Exception as ex:  # pylint: disable=broad-except
            rec.update(verdict='harness-exception', why=f'{type(ex).__name__}: {str(ex)[:300]}', tb=traceback.format_exc()[-800:])
        return rec
    try:
        p1 = Prog.from_source(c.src, c.entry, absent=c.absent)
        p2 = Prog.from_source(c.src, c.entry, absent=c.absent)
    except Exception as ex:  # pylint: disable=broad-except
        rec.update(verdict='frontend-error', why=f'{type(ex).__name__}: {str(ex)[:200]}')
        return rec
    p2.text = None
    before = p2.fortran()
    try:
        ret = c.apply(p2)
        if isinstance(ret, Prog):
            p2 = ret
        elif isinstance(ret, tuple):
            p1, p2 = ret          # the case defines both sides of the obligation itself
    except Exception as ex:  # pylint: disable=broad-except
        rec.update(verdict='transform-raises', why=f'{type(ex).__name__}: {str(ex)[:300]}', exc=type(ex).__name__,
                   tb=traceback.format_exc()[-600:])
        return rec
    try:
        after = p2.fortran()
    except Exception as ex:  # pylint: disable=broad-except
        rec.update(verdict='transform-raises', why=f'fgen of result: {type(ex).__name__}: {str(ex)[:300]}')
        return rec
    rec['changed'] = after != before
    try:
        r = check_equiv(p1, p2, sizes, include_locals=c.include_locals, unwind=c.unwind, trace_pragmas=c.trace_pragmas)
    except Exception as ex:  # pylint: disable=broad-except
        rec.update(verdict='harness-exception', why=f'{type(ex).__name__}: {str(ex)[:300]}', tb=traceback.format_exc()[-800:])
        return rec
    rec.update(r)
    if r['verdict'] == 'sat':
        try:
            rep, msg = replay_equiv(p1, p2, sizes, r.get('model'), trace_pragmas=c.trace_pragmas)
        except Exception as ex:  # pylint: disable=broad-except
            rep, msg = None, f'replay crashed: {type(ex).__name__}: {ex}'
        rec['replayed'], rec['replay_msg'] = rep, msg
        rec['transformed'] = after[-1500:]
    return rec


def with_case_variants(cases, tier, seed, every=3):
    """add, for every case (thorough) or every third case (quick, rotated by the seed), a sibling whose source re-spells the
    occurrences of all user identifiers in another letter case (same program in Fortran): the property must hold for it too"""
    from vlib.casevar import permute_case  # pylint: disable=import-outside-toplevel
    out = list(cases)
    for k, c in enumerate(cases):
        if tier == 'quick' and (k + seed) % every:
            continue
        if 'frontend-limit' in c.name:
            continue
        new_src = permute_case(c.src)
        if new_src == c.src:
            continue
        v = Case(c.name + '~case', new_src, c.entry, c.sizes, c.apply, c.group, c.absent, c.include_locals, c.unwind, c.must_change,
                 c.note, c.raise_is_violation, c.custom, c.trace_pragmas)
        if c.apply is not None and hasattr(c.apply, 'src'):
            def wrapped(p, f=c.apply, text=new_src):        # transformations that write their own copy of the source to disk
                old, f.src = f.src, text
                try:
                    return f(p)
                finally:
                    f.src = old
            v.apply = wrapped
        out.append(v)
    return out


def run_tv(prop, tier, seed, cases, rule, functions, bounds, assumptions, quick_max=None, quick_filter=None, post=None,
           case_variants=True):
    global CASES  # pylint: disable=global-statement
    ctx = Ctx(prop, tier, seed, 'translation_validation')
    ctx.rule, ctx.functions, ctx.bounds, ctx.assumptions = rule, functions, bounds, assumptions
    if case_variants:
        n0 = len(cases)
        cases = with_case_variants(cases, tier, seed)
        ctx.extra['letter_case_variants'] = len(cases) - n0
    CASES = cases
    CASES_BY_NAME.update({c.name: c for c in cases})
    items = []
    for ci, c in enumerate(cases):
        ks = range(len(c.sizes)) if tier == 'thorough' else range(min(1, len(c.sizes)))
        items += [(ci, si) for si in ks]
    if tier == 'quick' and quick_filter:
        keep = [it for it in items if not quick_filter(cases[it[0]])]
        rest = [it for it in items if quick_filter(cases[it[0]])]
        items = keep + rotate(rest, seed, quick_max or len(rest))
    modes = {}
    for rec in pmap(_work, items):
        v = rec['verdict']
        key = f"{rec['case']}@{json.dumps(rec['sizes'], sort_keys=True)}"
        ctx.solver_s += rec.get('seconds', 0)
        if v == 'frontend-error' and 'frontend-limit' in rec['case']:
            ctx.not_encoded.append(f'{key}: frontend rejects the source (documented limitation): {rec["why"][:120]}')
            continue
        if v in ('frontend-error', 'harness-exception'):
            raise RuntimeError(f'{key}: {v}: {rec.get("why")}\n{rec.get("tb", "")}')
        riv = CASES_BY_NAME[rec['case']].raise_is_violation
        if v == 'transform-raises' and (riv is True or (isinstance(riv, (tuple, list)) and rec.get('exc') in riv)):
            # the operation under test must at least produce a result (e.g. pickling): concrete failure, replay = re-run
            ctx.verdict('raises')
            ctx.obligation(key)
            ctx.candidate(f"{rec['group']}:raises:{rec['case'].replace('~case', '')}", f"{key}: {rec['why']}", {'case': rec['case'], 'sizes': rec['sizes'], 'raises': True})
            continue
        if v == 'transform-raises':
            if 'to edit' in rec['why'] or 'to re-type' in rec['why']:
                ctx.extra['variant_not_applicable_to_template'] = ctx.extra.get('variant_not_applicable_to_template', 0) + 1
                continue          # the edit variant does not exist for this template (e.g. fewer than k assignments)
            ctx.not_encoded.append(f'{key}: transformation raised {rec["why"]}')
            continue
        if v == 'notenc':
            ctx.not_encoded.append(f'{key}: {rec["why"]}')
            continue
        if v == 'vacuous':
            ctx.inconcl(f'{key}: vacuous ({rec.get("why")}; {rec.get("trap_reasons")})')
            continue
        ctx.programs += 1
        ctx.verdict(v)
        modes[rec.get('mode')] = modes.get(rec.get('mode'), 0) + 1
        if rec.get('changed') or not CASES_BY_NAME[rec['case']].must_change:
            ctx.obligation(key)
        if not rec.get('unwinding_complete', True):
            ctx.inconcl(f'{key}: unwinding bound not sufficient for every input (claim restricted to inputs within it)')
        if v in ('unsat', 'unsat-real-only'):
            ctx.sample({'case': rec['case'], 'sizes': rec['sizes'], 'verdict': v, 'encoding': rec.get('mode'),
                        'changed_by_transformation': rec.get('changed'), 'observables': rec.get('observables')})
            if v == 'unsat-real-only':
                ctx.extra['equal_over_reals_only(fp-reassociation, not a violation)'] = \
                    ctx.extra.get('equal_over_reals_only(fp-reassociation, not a violation)', 0) + 1
            continue
        if v == 'unknown':
            ctx.inconcl(f'{key}: solver unknown')
            continue
        # sat
        sig = f"{rec['group']}:{rec['case'].replace('~case', '')}"
        what = (f"{rec['case']} sizes={rec['sizes']}: {rec.get('replay_msg')}; solver: differences {rec.get('differences')} "
                f"trap={rec.get('trap2')} {rec.get('trap2_reasons')}")
        if rec.get('replayed'):
            ctx.candidate(sig, what, {'case': rec['case'], 'sizes': rec['sizes'], 'model': rec.get('model'),
                                      'transformed_tail': rec.get('transformed')})
        elif rec.get('replayed') is None:
            ctx.unrepro(f'{key}: no replay possible: {rec.get("replay_msg")} (solver differences {rec.get("differences")})')
        else:
            ctx.unrepro(f'{key}: {rec.get("replay_msg")} (solver differences {rec.get("differences")}, model {rec.get("model")})')
    ctx.extra['queries_by_encoding'] = modes
    ctx.extra['cases'] = len(cases)
    if post:
        post(ctx)
    return ctx.finish()


def replay_tv(path, cases):
    global CASES  # pylint: disable=global-statement
    d = json.load(open(path))['replay']
    cases = with_case_variants(cases, 'thorough', 0)
    CASES = cases
    for ci, c in enumerate(cases):
        if c.name == d['case']:
            for si, s in enumerate(c.sizes):
                if s == d['sizes']:
                    rec = _work((ci, si))
                    print(rec.get('verdict'), rec.get('replay_msg'), rec.get('differences'), rec.get('why'))
                    if d.get('raises'):
                        return 1 if rec.get('verdict') == 'transform-raises' else 0
                    return 1 if rec.get('verdict') == 'sat' and rec.get('replayed') else 0
    print('case not found')
    return 3
