import argparse
import importlib
import os
import sys
import traceback

from vlib.common import EXIT_HARNESS


def main():
    ap = argparse.ArgumentParser()
    ap.add_argument('prop')
    ap.add_argument('--tier', default=os.environ.get('VERIF_TIER', 'quick'), choices=['quick', 'thorough'])
    ap.add_argument('--replay')
    a = ap.parse_args()
    seed = int(os.environ.get('VERIF_SEED', '0') or 0)
    try:
        mod = importlib.import_module(f'checks.{a.prop}')
        if a.replay:
            return mod.replay(a.replay)
        return mod.run(a.tier, seed)
    except Exception:  # pylint: disable=broad-except
        traceback.print_exc()
        print(f'HARNESS-ERROR: check {a.prop} crashed', file=sys.stderr)
        return EXIT_HARNESS


if __name__ == '__main__':
    sys.exit(main())
