"""Letter-case variants of Fortran sources: Fortran names are case-insensitive, so re-spelling the occurrences of every
user identifier (declaration unchanged, later occurrences UPPER / Capitalised / lower in turn) gives a program with the
same meaning.  Comments, pragmas, character literals, keywords and intrinsic names are left alone."""
import re

KEEP = set('''
subroutine function module program end contains use only implicit none integer real logical character complex double precision
type class kind len intent in out inout dimension parameter optional allocatable pointer target save public private external
intrinsic result elemental pure recursive do while if then else elseif endif enddo select case default where elsewhere endwhere
forall associate block interface procedure generic call return stop exit cycle continue goto go to print write read open close
format allocate deallocate nullify data common equivalence namelist sequence abstract deferred pass nopass non_overridable
bind value volatile contiguous import enum enumerator error unit file status action iostat newunit
and or not eqv neqv eq ne lt le gt ge true false
abs max min mod modulo sign sqrt exp log sin cos tan int nint real dble float aint anint ceiling floor merge sum product maxval
minval size shape lbound ubound present allocated associated any all count selected_real_kind selected_int_kind iand ior ishft
trim adjustl len_trim huge tiny epsilon
real32 real64 int32 int64 iso_fortran_env iso_c_binding c_int c_double c_float c_sizeof loc
'''.split())

_TOKEN = re.compile(r"""('(?:[^']|'')*'|"(?:[^"]|"")*")|(![^\n]*)|(\b[A-Za-z_]\w*\b)|(\d+\.?\d*(?:[eEdD][-+]?\d+)?(?:_\w+)?)""")


def permute_case(src):
    counts = {}

    def repl(m):
        if m.group(1) or m.group(2) or m.group(4):
            # literals: a kind suffix (1.0_jprb) is an identifier, too, but keeps its spelling here
            return m.group(0)
        name = m.group(3)
        low = name.lower()
        if low in KEEP or len(low) == 1 and False:
            return name
        k = counts.get(low, 0)
        counts[low] = k + 1
        if k % 4 == 0:
            return name
        if k % 4 == 1:
            return name.upper()
        if k % 4 == 2:
            return name[:1].upper() + name[1:].lower()
        return name.lower()
    out = []
    for line in src.split('\n'):
        if line.lstrip().startswith(('#',)):
            out.append(line)
            continue
        out.append(_TOKEN.sub(repl, line))
    return '\n'.join(out)
