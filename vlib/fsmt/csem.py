"""Symbolic interpreter (C semantics) for the kernels written by FortranCTransformation / cgen: the generated C text is
tokenised and parsed (functions, declarations, assignments, for / while / if-else chains, return, break, continue, casts,
dereferences, subscripts, calls of <math.h> functions) and executed on z3 terms, guarded-update style.

C semantics modelled: static types (a store converts to the declared type: double -> int truncates), usual arithmetic
conversions, `/` and `%` on ints truncate toward zero, relational / logical operators yield int 0/1 with short-circuit
evaluation, flat zero-based arrays (an out-of-range subscript is undefined behaviour -> ``trap``), scalars passed by
pointer for written arguments.  Integer overflow and float rounding are outside (ints are mathematical, doubles exact
reals / uninterpreted)."""
import itertools
import re
import z3

from vlib.fsmt.expr import NotEncoded

_TOK = re.compile(r'''
   (?P<ws>\s+|//[^\n]*|/\*.*?\*/)
 | (?P<real>(?:\d+\.\d*|\.\d+)(?:[eE][-+]?\d+)?[fFlL]?|\d+[eE][-+]?\d+[fFlL]?)
 | (?P<int>\d+[uUlL]*)
 | (?P<name>[A-Za-z_]\w*)
 | (?P<str>"(?:[^"\\]|\\.)*")
 | (?P<op>\+\+|--|\+=|-=|\*=|/=|<=|>=|==|!=|&&|\|\||->|[-+*/%<>=!&|(){}\[\];,.?:])
''', re.X | re.S)

TYPES = {'int', 'double', 'float', 'bool', 'long', 'short', 'char', 'void', 'unsigned', 'signed', '_Bool', 'size_t'}
QUALS = {'const', 'restrict', '__restrict__', 'static', 'volatile', 'register', 'extern', 'inline'}


def tokens(text):
    text = '\n'.join(l for l in text.splitlines() if not l.lstrip().startswith('#'))
    pos, out = 0, []
    while pos < len(text):
        m = _TOK.match(text, pos)
        if not m or m.end() == pos:
            raise NotEncoded(f'C token at {text[pos:pos + 30]!r}')
        if m.lastgroup != 'ws':
            out.append((m.lastgroup, m.group(m.lastgroup)))
        pos = m.end()
    out.append(('end', ''))
    return out


class CParser:
    """recursive descent over the subset; AST = nested tuples"""

    def __init__(self, text):
        self.t = tokens(text)
        self.i = 0

    def peek(self, k=0):
        return self.t[min(self.i + k, len(self.t) - 1)]

    def next(self):
        tok = self.t[self.i]
        self.i += 1
        return tok

    def expect(self, val):
        tok = self.next()
        if tok[1] != val:
            raise NotEncoded(f'C parse: expected {val!r}, got {tok[1]!r}')
        return tok

    def accept(self, val):
        if self.peek()[1] == val and self.peek()[0] in ('op', 'name'):
            self.next()
            return True
        return False

    def is_type_start(self, k=0):
        kind, v = self.peek(k)
        return kind == 'name' and (v in TYPES or v in QUALS or v == 'struct')

    def type_spec(self):
        names = []
        while self.is_type_start():
            v = self.next()[1]
            if v == 'struct':
                names.append('struct ' + self.next()[1])
            elif v not in QUALS:
                names.append(v)
        if not names:
            raise NotEncoded(f'C parse: type expected at {self.peek()}')
        base = 'double' if names[-1] in ('double', 'float') else ('int' if names[-1] in ('int', 'long', 'short', 'bool', '_Bool', 'unsigned', 'signed', 'size_t', 'char') else names[-1])
        return base

    def functions(self):
        funs = {}
        while self.peek()[0] != 'end':
            start = self.i
            base = self.type_spec()
            while self.accept('*'):
                pass
            name = self.next()[1]
            if not self.accept('('):
                # global declaration: skip to ;
                while self.next()[1] != ';':
                    pass
                continue
            params = []
            if not self.accept(')'):
                while True:
                    if self.peek()[1] == 'void' and self.peek(1)[1] == ')':
                        self.next()
                        self.next()
                        break
                    pb = self.type_spec()
                    ptr = 0
                    while self.peek()[1] in ('*',) or self.peek()[1] in QUALS:
                        if self.next()[1] == '*':
                            ptr += 1
                    pname = self.next()[1]
                    dims = []
                    while self.accept('['):
                        dims.append(None if self.peek()[1] == ']' else self.expr())
                        self.expect(']')
                    params.append((pname, pb, ptr + len(dims)))
                    if self.accept(')'):
                        break
                    self.expect(',')
            if self.accept(';'):
                continue              # prototype
            body = self.block()
            funs[name] = (base, params, body)
            _ = start
        return funs

    def block(self):
        self.expect('{')
        out = []
        while not self.accept('}'):
            out.append(self.statement())
        return out

    def statement(self):
        kind, v = self.peek()
        if v == '{':
            return ('block', self.block())
        if v == ';':
            self.next()
            return ('nop',)
        if self.is_type_start():
            base = self.type_spec()
            decls = []
            while True:
                ptr = 0
                paren = False
                if self.accept('('):          # (*name)[n] pointer-to-array declarator
                    paren = True
                while self.accept('*') or self.peek()[1] in QUALS and self.next():
                    ptr += 1
                name = self.next()[1]
                if paren:
                    self.expect(')')
                dims = []
                while self.accept('['):
                    dims.append(self.expr())
                    self.expect(']')
                init = None
                if self.accept('='):
                    init = self.expr()
                decls.append((name, base, ptr, dims, init, paren))
                if self.accept(';'):
                    break
                self.expect(',')
            return ('decl', decls)
        if v == 'for':
            self.next()
            self.expect('(')
            init = None if self.peek()[1] == ';' else self.simple()
            self.expect(';')
            cond = None if self.peek()[1] == ';' else self.expr()
            self.expect(';')
            step = None if self.peek()[1] == ')' else self.simple()
            self.expect(')')
            return ('for', init, cond, step, self.body())
        if v == 'while':
            self.next()
            self.expect('(')
            c = self.expr()
            self.expect(')')
            return ('while', c, self.body())
        if v == 'if':
            self.next()
            self.expect('(')
            c = self.expr()
            self.expect(')')
            then = self.body()
            els = []
            if self.accept('else'):
                els = self.body()
            return ('if', c, then, els)
        if v == 'return':
            self.next()
            e = None if self.peek()[1] == ';' else self.expr()
            self.expect(';')
            return ('return', e)
        if v in ('break', 'continue'):
            self.next()
            self.expect(';')
            return (v,)
        if v == 'switch':
            self.next()
            self.expect('(')
            sel = self.expr()
            self.expect(')')
            self.expect('{')
            groups, cur_labels, cur_body = [], [], []
            while not self.accept('}'):
                if self.peek()[1] in ('case', 'default'):
                    if cur_body:
                        groups.append((cur_labels, cur_body))
                        cur_labels, cur_body = [], []
                    if self.next()[1] == 'case':
                        cur_labels.append(self.expr())
                    else:
                        cur_labels.append(None)
                    self.expect(':')
                else:
                    cur_body.append(self.statement())
            if cur_labels or cur_body:
                groups.append((cur_labels, cur_body))
            return ('switch', sel, groups)
        if v in ('do', 'goto'):
            raise NotEncoded(f'C statement {v}')
        s = self.simple()
        self.expect(';')
        return s

    def body(self):
        if self.peek()[1] == '{':
            return self.block()
        return [self.statement()]

    def simple(self):
        """assignment / compound assignment / ++ -- / call as a statement"""
        lhs = self.expr()
        v = self.peek()[1]
        if v == '=':
            self.next()
            return ('assign', lhs, self.expr())
        if v in ('+=', '-=', '*=', '/='):
            self.next()
            return ('assign', lhs, ('bin', v[0], lhs, self.expr()))
        if v in ('++', '--'):
            self.next()
            return ('assign', lhs, ('bin', v[0], lhs, ('int', 1)))
        return ('expr', lhs)

    # expressions (C11 6.5 precedence)
    LEVELS = [['||'], ['&&'], ['==', '!='], ['<', '<=', '>', '>='], ['+', '-'], ['*', '/', '%']]

    def expr(self):
        c = self.binary(0)
        if self.accept('?'):
            a = self.expr()
            self.expect(':')
            b = self.expr()
            return ('cond', c, a, b)
        return c

    def binary(self, lvl):
        if lvl == len(self.LEVELS):
            return self.unary()
        l = self.binary(lvl + 1)
        while self.peek()[0] == 'op' and self.peek()[1] in self.LEVELS[lvl]:
            op = self.next()[1]
            r = self.binary(lvl + 1)
            l = ('bin', op, l, r)
        return l

    def unary(self):
        kind, v = self.peek()
        if kind == 'op' and v in ('-', '+', '!', '*', '&'):
            self.next()
            x = self.unary()
            return {'-': ('neg', x), '+': x, '!': ('not', x), '*': ('deref', x), '&': ('addr', x)}[v]
        if kind == 'op' and v == '(' and self.is_type_start(1):
            self.next()
            base = self.type_spec()
            ptr, depth = 0, 0
            while True:
                # pointer / pointer-to-array casts: (double (*)[n]) v  -- the value is passed through unchanged
                v2 = self.peek()[1]
                if v2 == ')' and depth == 0:
                    break
                if self.peek()[0] == 'end':
                    raise NotEncoded('C parse: unterminated cast')
                depth += (v2 == '(') - (v2 == ')')
                ptr += 1
                self.next()
            self.expect(')')
            x = self.unary()
            return ('cast', base, x) if not ptr else x
        return self.postfix()

    def postfix(self):
        kind, v = self.next()
        if kind == 'int':
            e = ('int', int(re.sub(r'[uUlL]+$', '', v)))
        elif kind == 'real':
            e = ('real', re.sub(r'[fFlL]$', '', v))
        elif kind == 'name':
            if v in ('true', 'false'):
                e = ('int', 1 if v == 'true' else 0)
            elif self.peek()[1] == '(':
                self.next()
                args = []
                if not self.accept(')'):
                    while True:
                        args.append(self.expr())
                        if self.accept(')'):
                            break
                        self.expect(',')
                e = ('call', v, args)
            else:
                e = ('var', v)
        elif (kind, v) == ('op', '('):
            e = self.expr()
            self.expect(')')
        else:
            raise NotEncoded(f'C parse: unexpected {v!r}')
        while True:
            if self.accept('['):
                idx = self.expr()
                self.expect(']')
                e = ('index', e, idx)
            elif self.peek()[1] in ('.', '->'):
                op = self.next()[1]
                e = ('member', e, self.next()[1], op)
            else:
                return e


class CArr:
    def __init__(self, name, dims, elems, sort):
        self.name, self.dims, self.elems, self.sort = name, list(dims), elems, sort     # elems: flat list (row-major over dims)


class CRef:
    """pointer to a scalar (argument written by the kernel)"""

    def __init__(self, name, sort, val):
        self.name, self.sort, self.val = name, sort, val


class CInterp:
    def __init__(self, sem, source, fname, unwind=5, max_iter=40):
        self.sem = sem
        self.funs = CParser(source).functions()
        if fname not in self.funs:
            raise NotEncoded(f'C function {fname} not found (have {list(self.funs)})')
        self.fname = fname
        self.unwind, self.max_iter = unwind, max_iter
        self.trap = z3.BoolVal(False)
        self.trap_reasons = []
        self.unwind_violation = z3.BoolVal(False)
        self.undef_read = z3.BoolVal(False)
        self._fresh = itertools.count()
        self.env, self.types = {}, {}
        self.returned = z3.BoolVal(False)
        self.loops = []

    def fresh(self, sort):
        return z3.Const(f'__c_{next(self._fresh)}', sort)

    def sort_of(self, base):
        if base == 'int':
            return self.sem.isort
        if base == 'double':
            self.sem.used_real = True
            return self.sem.R
        raise NotEncoded(f'C type {base}')

    def trap_if(self, c, why):
        self.trap = z3.Or(self.trap, c)
        if len(self.trap_reasons) < 12 and why not in self.trap_reasons:
            self.trap_reasons.append(why)

    def signature(self):
        return self.funs[self.fname][1]

    def run(self, args):
        """args: dict name -> z3 term (by value) | CRef | CArr, matching the parsed signature"""
        _, params, body = self.funs[self.fname]
        for name, base, ptr in params:
            if name not in args:
                raise NotEncoded(f'no actual for C parameter {name}')
            self.env[name] = args[name]
            self.types[name] = (self.sort_of(base), ptr)
        self.live = z3.BoolVal(True)
        self.block(body, z3.BoolVal(True))

    # ---- statements
    def alive(self, pc):
        g = z3.And(pc, z3.Not(self.returned))
        for l in self.loops:
            g = z3.And(g, z3.Not(l['broken']), z3.Not(l['continued']))
        return z3.simplify(g)

    def block(self, stmts, pc):
        for st in stmts:
            g = self.alive(pc)
            if z3.is_false(g):
                return
            self.stmt(st, g)

    def stmt(self, st, pc):
        k = st[0]
        if k == 'nop':
            return
        if k == 'block':
            return self.block(st[1], pc)
        if k == 'decl':
            for name, base, ptr, dims, init, paren in st[1]:
                sort = self.sort_of(base)
                if paren or ptr:
                    # pointer (to array) initialised from another pointer: alias of the same storage with new extents
                    if init is None:
                        raise NotEncoded('uninitialised pointer')
                    tgt = self.ev(init, pc)
                    if not isinstance(tgt, CArr):
                        raise NotEncoded('pointer to non-array')
                    inner = [self.concrete(self.ev(d, pc), 'array extent') for d in dims]
                    total = len(tgt.elems)
                    prod = 1
                    for d in inner:
                        prod *= d
                    if prod == 0 or total % prod:
                        raise NotEncoded('pointer-to-array extents do not divide the storage')
                    view = CArr(name, [total // prod] + inner, tgt.elems, tgt.sort)      # shares the element list
                    self.env[name] = view
                    self.types[name] = (tgt.sort, 1)
                    continue
                if dims:
                    ext = [self.concrete(self.ev(d, pc), 'array extent') for d in dims]
                    n = 1
                    for d in ext:
                        n *= d
                    self.env[name] = CArr(name, ext, [self.fresh(sort) for _ in range(n)], sort)
                    self.types[name] = (sort, 1)
                    continue
                self.types[name] = (sort, 0)
                self.env[name] = None
                if init is not None:
                    self.store(('var', name), self.ev(init, pc), pc)
            return
        if k == 'assign':
            return self.store(st[1], self.ev(st[2], pc), pc)
        if k == 'expr':
            self.ev(st[1], pc)
            return
        if k == 'if':
            c = self.truth(self.ev(st[1], pc))
            self.block(st[2], z3.And(pc, c))
            self.block(st[3], z3.And(pc, z3.Not(c)))
            return
        if k in ('for', 'while'):
            if k == 'for':
                _, init, cond, step, body = st
                if init is not None:
                    self.stmt(init, pc)
            else:
                _, cond, body = st
                step = None
            rec = {'broken': z3.BoolVal(False), 'continued': z3.BoolVal(False)}
            self.loops.append(rec)
            g = pc
            try:
                n = 0
                while True:
                    c = self.truth(self.ev(cond, g)) if cond is not None else z3.BoolVal(True)
                    g = z3.simplify(z3.And(g, c, z3.Not(self.returned), z3.Not(rec['broken'])))
                    if z3.is_false(g):
                        break
                    symbolic = not z3.is_true(z3.simplify(z3.Or(z3.Not(pc), c))) if n else False
                    n += 1
                    if n > self.max_iter:
                        self.unwind_violation = z3.Or(self.unwind_violation, g)
                        break
                    rec['continued'] = z3.BoolVal(False)
                    self.block(body, g)
                    rec['continued'] = z3.BoolVal(False)
                    if step is not None:
                        g2 = z3.simplify(z3.And(g, z3.Not(self.returned), z3.Not(rec['broken'])))
                        if not z3.is_false(g2):
                            self.stmt(step, g2)
                    _ = symbolic
            finally:
                self.loops.pop()
            return
        if k == 'switch':
            sel = self.num(self.ev(st[1], pc))
            groups = st[2]
            rec = {'broken': z3.BoolVal(False), 'continued': z3.BoolVal(False), 'switch': True}
            labelled = [self.sem.cmp('==', sel, self.ev(l, pc)) for labels, _ in groups for l in labels if l is not None]
            none_matches = z3.Not(z3.Or(*labelled)) if labelled else z3.BoolVal(True)
            self.loops.append(rec)
            try:
                entered = z3.BoolVal(False)        # control is inside the switch body (matched earlier and fell through)
                for labels, body in groups:
                    here = [none_matches if l is None else self.sem.cmp('==', sel, self.ev(l, pc)) for l in labels]
                    entered = z3.Or(entered, *here)
                    g = z3.simplify(z3.And(pc, entered, z3.Not(rec['broken']), z3.Not(self.returned)))
                    if not z3.is_false(g):
                        self.block(body, g)
            finally:
                self.loops.pop()
            # a 'continue' inside the switch belongs to the enclosing loop
            if self.loops and not z3.is_false(z3.simplify(rec['continued'])):
                self.loops[-1]['continued'] = z3.Or(self.loops[-1]['continued'], rec['continued'])
            return
        if k == 'break':
            self.loops[-1]['broken'] = z3.Or(self.loops[-1]['broken'], pc)
            return
        if k == 'continue':
            self.loops[-1]['continued'] = z3.Or(self.loops[-1]['continued'], pc)
            return
        if k == 'return':
            self.returned = z3.Or(self.returned, pc)
            return
        raise NotEncoded(f'C statement {k}')

    def concrete(self, t, what):
        s = z3.simplify(t)
        if z3.is_int_value(s):
            return s.as_long()
        if z3.is_bv_value(s):
            return s.as_signed_long()
        raise NotEncoded(f'non-constant {what} in generated C: {s}')

    def conv(self, val, sort):
        if val.sort() == z3.BoolSort():
            val = z3.If(val, self.sem.int_lit(1), self.sem.int_lit(0))
        return self.sem.coerce_store(val, sort)

    def lvalue(self, e, pc):
        """-> ('var', name) | ('ref', CRef) | ('elem', CArr, [index terms])"""
        while e[0] == 'paren':
            e = e[1]
        if e[0] == 'var':
            tgt = self.env.get(e[1], KeyError)
            if tgt is KeyError:
                raise NotEncoded(f'undeclared C variable {e[1]}')
            if isinstance(tgt, CRef):
                raise NotEncoded('assignment to a pointer variable')
            return ('var', e[1])
        if e[0] == 'deref':
            inner = e[1]
            tgt = self.ev_obj(inner, pc)
            if isinstance(tgt, CRef):
                return ('ref', tgt)
            if isinstance(tgt, CArr):
                return ('elem', tgt, [self.sem.int_lit(0)])
            raise NotEncoded('dereference of a non-pointer')
        if e[0] == 'index':
            idx = []
            while e[0] == 'index':
                idx.insert(0, self.ev(e[2], pc))
                e = e[1]
            arr = self.ev_obj(e, pc)
            if not isinstance(arr, CArr):
                raise NotEncoded('subscript of a non-array')
            return ('elem', arr, idx)
        raise NotEncoded(f'C lvalue {e[0]}')

    def ev_obj(self, e, pc):
        if e[0] == 'var':
            if e[1] not in self.env:
                raise NotEncoded(f'undeclared C variable {e[1]}')
            return self.env[e[1]]
        return self.ev(e, pc)

    def flat(self, arr, idx, pc):
        """flat position term and in-range condition (every subscript within its extent; C has no bounds checks, but the
        declared extents come from the Fortran shapes, so leaving them is an access outside the dummy argument)"""
        dims = arr.dims
        if len(idx) > len(dims):
            raise NotEncoded('too many subscripts')
        if len(idx) < len(dims):
            raise NotEncoded('partial subscripting')
        pos = self.sem.int_lit(0)
        ok = []
        for i, d in zip(idx, dims):
            if not self.sem.is_int(i):
                raise NotEncoded('non-integer subscript')
            pos = self.sem.add(self.sem.mul(pos, self.sem.int_lit(d)), i)
            ok.append(z3.And(i >= 0, i < d))
        return pos, (z3.And(*ok) if len(dims) > 1 else z3.And(pos >= 0, pos < len(arr.elems)))

    def load_elem(self, arr, idx, pc):
        pos, ok = self.flat(arr, idx, pc)
        s = z3.simplify(pos)
        if z3.is_int_value(s) or z3.is_bv_value(s):
            p = s.as_long() if z3.is_int_value(s) else s.as_signed_long()
            if 0 <= p < len(arr.elems) and z3.is_true(z3.simplify(ok)):
                return arr.elems[p]
            self.trap_if(pc, f'{arr.name}[{p}] outside 0..{len(arr.elems) - 1}')
            return self.fresh(arr.sort)
        res = self.fresh(arr.sort)
        for p, v in enumerate(arr.elems):
            res = z3.If(pos == p, v, res)
        self.trap_if(z3.And(pc, z3.Not(ok)), f'{arr.name}[symbolic] out of range')
        return res

    def store(self, lhs, val, pc):
        if not z3.is_expr(val):
            raise NotEncoded('array-valued C assignment')
        lv = self.lvalue(lhs, pc)
        if lv[0] == 'var':
            sort, _ = self.types[lv[1]]
            val = self.conv(val, sort)
            old = self.env[lv[1]]
            if old is None:
                old = self.fresh(sort)
            self.env[lv[1]] = val if z3.is_true(pc) else z3.If(pc, val, old)
            return
        if lv[0] == 'ref':
            r = lv[1]
            val = self.conv(val, r.sort)
            r.val = val if z3.is_true(pc) else z3.If(pc, val, r.val)
            return
        _, arr, idx = lv
        val = self.conv(val, arr.sort)
        pos, ok = self.flat(arr, idx, pc)
        s = z3.simplify(pos)
        if z3.is_int_value(s) or z3.is_bv_value(s):
            p = s.as_long() if z3.is_int_value(s) else s.as_signed_long()
            if 0 <= p < len(arr.elems) and z3.is_true(z3.simplify(ok)):
                arr.elems[p] = val if z3.is_true(pc) else z3.If(pc, val, arr.elems[p])
            else:
                self.trap_if(pc, f'{arr.name}[{p}] outside 0..{len(arr.elems) - 1}')
            return
        for p in range(len(arr.elems)):
            arr.elems[p] = z3.If(z3.And(pc, pos == p), val, arr.elems[p])
        self.trap_if(z3.And(pc, z3.Not(ok)), f'{arr.name}[symbolic] out of range')

    # ---- expressions
    def truth(self, v):
        if self.sem.is_bool(v):
            return v
        if self.sem.is_int(v):
            return v != self.sem.int_lit(0)
        if self.sem.real_mode == 'uf':
            raise NotEncoded('truth value of a double under the uninterpreted-real abstraction')
        return v != z3.RealVal(0)

    def num(self, v):
        if self.sem.is_bool(v):
            return z3.If(v, self.sem.int_lit(1), self.sem.int_lit(0))
        return v

    def ev(self, e, pc):  # pylint: disable=too-many-branches,too-many-return-statements
        s = self.sem
        k = e[0]
        if k == 'int':
            return s.int_lit(e[1])
        if k == 'real':
            return s.real_lit(e[1])
        if k == 'var':
            if e[1] not in self.env:
                if e[1] in ('DBL_MAX', 'FLT_MAX', 'DBL_MIN', 'DBL_EPSILON', 'INT_MAX'):
                    raise NotEncoded(f'<float.h> constant {e[1]}')
                raise NotEncoded(f'undeclared C variable {e[1]}')
            v = self.env[e[1]]
            if v is None:
                # read of an uninitialised local: the original reads an undefined variable as well (excluded)
                self.undef_read = z3.Or(self.undef_read, pc)
                v = self.fresh(self.types[e[1]][0])
                self.env[e[1]] = v
            if isinstance(v, CRef):
                return v            # pointer value; only meaningful under deref
            return v
        if k == 'deref':
            tgt = self.ev_obj(e[1], pc)
            if isinstance(tgt, CRef):
                return tgt.val
            if isinstance(tgt, CArr):
                return self.load_elem(tgt, [s.int_lit(0)] + [s.int_lit(0)] * (len(tgt.dims) - 1), pc)
            raise NotEncoded('dereference of a non-pointer value')
        if k == 'index':
            idx = []
            b = e
            while b[0] == 'index':
                idx.insert(0, self.ev(b[2], pc))
                b = b[1]
            arr = self.ev_obj(b, pc)
            if not isinstance(arr, CArr):
                raise NotEncoded('subscript of a non-array')
            return self.load_elem(arr, idx, pc)
        if k == 'neg':
            return s.neg(self.num(self.ev(e[1], pc)))
        if k == 'not':
            return z3.Not(self.truth(self.ev(e[1], pc)))
        if k == 'cast':
            v = self.num(self.ev(e[2], pc))
            if not z3.is_expr(v):
                return v
            return s.coerce_store(v, self.sort_of(e[1]))
        if k == 'cond':
            c = self.truth(self.ev(e[1], pc))
            return s.ite(c, self.num(self.ev(e[2], z3.And(pc, c))), self.num(self.ev(e[3], z3.And(pc, z3.Not(c)))))
        if k == 'bin':
            op = e[1]
            if op in ('&&', '||'):
                l = self.truth(self.ev(e[2], pc))
                r = self.truth(self.ev(e[3], z3.And(pc, l if op == '&&' else z3.Not(l))))     # short-circuit
                return z3.And(l, r) if op == '&&' else z3.Or(l, r)
            l, r = self.num(self.ev(e[2], pc)), self.num(self.ev(e[3], pc))
            if not (z3.is_expr(l) and z3.is_expr(r)):
                raise NotEncoded('pointer arithmetic')
            saved, s.guard = s.guard, pc
            try:
                if op == '+':
                    return s.add(l, r)
                if op == '-':
                    return s.sub(l, r)
                if op == '*':
                    return s.mul(l, r)
                if op == '/':
                    return s.div(l, r)
                if op == '%':
                    if not (s.is_int(l) and s.is_int(r)):
                        raise NotEncoded('% on non-integers does not compile')
                    return s.intrinsic('mod', [l, r])
                if op in ('==', '!=', '<', '<=', '>', '>='):
                    return s.cmp(op, l, r)
            finally:
                s.guard = saved
            raise NotEncoded(f'C operator {op}')
        if k == 'call':
            name = e[1]
            args = [self.num(self.ev(a, pc)) for a in e[2]]
            saved, s.guard = s.guard, pc
            try:
                m = {'fmax': 'max', 'fmin': 'min', 'fabs': 'abs', 'abs': 'abs', 'fmod': 'mod', 'copysign': 'sign',
                     'sqrt': 'sqrt', 'exp': 'exp', 'fmaxf': 'max', 'fminf': 'min', 'fabsf': 'abs', 'sqrtf': 'sqrt', 'expf': 'exp'}
                if name == 'pow':
                    r = s.power(s.to_real(args[0]) if s.is_int(args[0]) else args[0], args[1])
                    return r
                if name in ('fmax', 'fmin', 'fabs', 'fmod', 'copysign', 'sqrt', 'exp'):
                    args = [s.to_real(a) if s.is_int(a) else a for a in args]     # double parameters: ints are converted
                if name == 'abs' and not s.is_int(args[0]):
                    args = [s.to_int_trunc(args[0])]                              # int abs(int): a double argument is converted
                if name in m:
                    return s.intrinsic(m[name], args)
                if name in ('floor', 'ceil', 'round', 'nearbyint', 'lround', 'trunc'):
                    raise NotEncoded(f'<math.h> {name}')
                if name in self.funs:
                    raise NotEncoded(f'call of generated function {name}')
                raise NotEncoded(f'C call {name}')
            finally:
                s.guard = saved
        if k in ('member', 'addr'):
            raise NotEncoded(f'C {k} expression')
        raise NotEncoded(f'C expression {k}')
