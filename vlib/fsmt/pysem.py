"""Symbolic interpreter (PYTHON semantics) for the functions written by FortranPythonTransformation / pygen:
ast of the generated source -> z3 terms, guarded-update style like vlib/fsmt/interp.py.

Modelled: int / float / bool scalars (Python ints are mathematical integers; floats are abstracted exactly like the
Fortran side's REALs: uninterpreted first, exact reals second), numpy arrays as element maps with numpy's
zero-based / negative-wraps / IndexError indexing and dtype-preserving stores, slices with concrete bounds
(element-wise semantics with copy-on-overlap), names rebinding (``a = 1`` rebinds, it does not fill), dynamic
typing of scalars (the sort follows the value), ``/`` true division, ``//`` floor, ``%`` sign of divisor, ``**``,
chained comparisons, and/or/not, if/elif/else, ``for .. in range(..)`` with concrete bounds, ``while`` unrolled to the
bound with an unwinding condition, ``return``.  A call to a name that is neither a parameter, a builtin nor imported
raises NameError when (and only when) executed: recorded in ``raises``.
"""
import ast
import itertools
import z3

from vlib.fsmt.expr import NotEncoded


class PyArr:
    def __init__(self, name, shape, elems, sort):
        self.name, self.shape, self.elems, self.sort = name, tuple(shape), elems, sort    # elems: zero-based idx -> term


class PySec:
    """value of a sliced load: list of element terms (row order of the index product), with the sliced shape"""

    def __init__(self, shape, vals):
        self.shape, self.vals = tuple(shape), list(vals)

    def map(self, f):
        return PySec(self.shape, [f(v) for v in self.vals])


def _bcast(f, a, b):
    if isinstance(a, PySec) and isinstance(b, PySec):
        if a.shape != b.shape:
            raise NotEncoded('numpy broadcast of different section shapes')
        return PySec(a.shape, [f(x, y) for x, y in zip(a.vals, b.vals)])
    if isinstance(a, PySec):
        return a.map(lambda x: f(x, b))
    if isinstance(b, PySec):
        return b.map(lambda y: f(a, y))
    return f(a, b)


class PyInterp:
    def __init__(self, sem, source, fname, local_sorts=None, unwind=5):
        self.sem = sem
        self.tree = ast.parse(source)           # SyntaxError propagates: the generated module cannot be imported
        self.func = [n for n in self.tree.body if isinstance(n, ast.FunctionDef) and n.name == fname][0]
        self.imported = set()
        for n in self.tree.body:
            if isinstance(n, (ast.Import, ast.ImportFrom)):
                self.imported |= {a.asname or a.name for a in n.names}
        self.local_sorts = local_sorts or {}    # Fortran locals (lower case) -> z3 sort: a read before any write is
        self.env = {}                           # undefined behaviour of the ORIGINAL, excluded by ``undef_read``
        self.defd = {}
        self.unwind = unwind
        self.raises = z3.BoolVal(False)         # NameError / IndexError / TypeError reachable under this condition
        self.raise_reasons = []
        self.undef_read = z3.BoolVal(False)
        self.unwind_violation = z3.BoolVal(False)
        self.returned = z3.BoolVal(False)
        self.retval = None
        self.loops = []                         # innermost last: {'broken': cond, 'continued': cond}
        self._fresh = itertools.count()

    def fresh(self, sort):
        return z3.Const(f'__py_{next(self._fresh)}', sort)

    def concrete(self, t, what='value'):
        if isinstance(t, (PySec, PyArr, tuple)):
            raise NotEncoded(f'array-valued {what}')
        s = z3.simplify(t)
        if z3.is_int_value(s):
            return s.as_long()
        if z3.is_bv_value(s):
            return s.as_signed_long()
        raise NotEncoded(f'non-constant {what} in generated Python: {s}')

    def raise_if(self, pc, why):
        self.raises = z3.Or(self.raises, pc)
        if len(self.raise_reasons) < 12 and why not in self.raise_reasons:
            self.raise_reasons.append(why)

    def run(self, args):
        """args: ordered dict parameter name -> z3 term | PyArr ; returns tuple of returned terms"""
        params = [a.arg for a in self.func.args.args]
        if params != list(args):
            raise NotEncoded(f'generated signature {params} does not match the expected call {list(args)}')
        self.env = dict(args)
        self.defd = {k: z3.BoolVal(True) for k in args}
        self.block(self.func.body, z3.BoolVal(True))
        if self.retval is None:
            self.retval = ()
        return self.retval

    # ---- statements
    def alive(self, pc):
        g = z3.And(pc, z3.Not(self.returned))
        for l in self.loops:
            g = z3.And(g, z3.Not(l['broken']), z3.Not(l['continued']))
        return z3.simplify(g)

    def block(self, stmts, pc):
        for st in stmts:
            g = self.alive(pc)
            if z3.is_false(g):
                return
            self.stmt(st, g)

    def bind(self, name, val, pc):
        if isinstance(val, tuple):
            raise NotEncoded('tuple value')
        old = self.env.get(name)
        if old is None or z3.is_true(pc):
            self.env[name] = val
        elif isinstance(old, (PyArr, PySec)) or isinstance(val, (PyArr, PySec)):
            raise NotEncoded(f'conditional rebinding of array name {name}')
        else:
            if old.sort() != val.sort():
                if self.sem.is_bool(old) or self.sem.is_bool(val):
                    raise NotEncoded('bool/number rebinding')
                old, val = self.sem.to_real(old), self.sem.to_real(val)   # the name holds int on one path, float on the other
            self.env[name] = z3.If(pc, val, old)
        self.defd[name] = z3.simplify(z3.Or(self.defd.get(name, z3.BoolVal(False)), pc))

    def assign(self, target, val, pc):
        if isinstance(target, ast.Name):
            self.bind(target.id, val, pc)
            return
        if isinstance(target, ast.Subscript):
            arr = self.ev(target.value, pc)
            if not isinstance(arr, PyArr):
                self.raise_if(pc, f'TypeError: {ast.unparse(target.value)} is not subscriptable')
                return
            self.store(arr, target.slice, val, pc)
            return
        raise NotEncoded(f'assignment target {type(target).__name__}')

    # index handling: each component is ('i', term) or ('s', [concrete zero-based positions])
    def index(self, arr, sl, pc):
        elts = list(sl.elts) if isinstance(sl, ast.Tuple) else [sl]
        if len(elts) > len(arr.shape):
            self.raise_if(pc, f'IndexError: too many indices for {arr.name}')
            return None
        while len(elts) < len(arr.shape):
            elts.append(ast.Slice(None, None, None))      # numpy: missing trailing indices are full slices
        comps = []
        for e, n in zip(elts, arr.shape):
            if isinstance(e, ast.Slice):
                try:
                    lo = None if e.lower is None else self.concrete(self.ev(e.lower, pc), 'slice bound')
                    hi = None if e.upper is None else self.concrete(self.ev(e.upper, pc), 'slice bound')
                    st = None if e.step is None else self.concrete(self.ev(e.step, pc), 'slice step')
                except NotEncoded:
                    if z3.is_true(z3.simplify(z3.Or(z3.Not(pc), self.raises))):
                        return None       # evaluating the bound already raised (e.g. IndexError) on this path
                    raise
                if st == 0:
                    self.raise_if(pc, 'ValueError: slice step cannot be zero')
                    return None
                comps.append(('s', list(range(*slice(lo, hi, st).indices(n)))))
            else:
                v = self.ev(e, pc)
                if isinstance(v, (PySec, PyArr, tuple)):
                    raise NotEncoded('array-valued index')
                if not self.sem.is_int(v):
                    self.raise_if(pc, f'IndexError: non-integer index into {arr.name}')
                    return None
                comps.append(('i', v))
        return comps

    def _axes(self, arr, comps, pc):
        """-> (shape of the section, per-axis list of (symbolic?, position))  or (shape, None) after an IndexError"""
        shape = tuple(len(c[1]) for c in comps if c[0] == 's')
        axes = []
        for (kind, v), n in zip(comps, arr.shape):
            if kind == 's':
                axes.append([(None, p) for p in v])
                continue
            s = z3.simplify(v)
            if z3.is_int_value(s) or z3.is_bv_value(s):
                k = s.as_long() if z3.is_int_value(s) else s.as_signed_long()
                if k < -n or k >= n:
                    self.raise_if(pc, f'IndexError: index {k} out of bounds for {arr.name} with shape {arr.shape}')
                    return shape, None
                axes.append([(None, k + n if k < 0 else k)])
            else:
                axes.append([('sym', v)])
        return shape, axes

    def _match(self, arr, combo, t):
        """condition under which index combination ``combo`` designates element ``t`` (None: never)"""
        cnd = []
        for (g, p), k, n in zip(combo, t, arr.shape):
            if g is None:
                if p != k:
                    return None
            else:
                cnd.append(z3.Or(p == self.sem.int_lit(k), p == self.sem.int_lit(k - n)))   # negative indices wrap
        return z3.And(*cnd) if cnd else z3.BoolVal(True)

    def load(self, arr, sl, pc):
        comps = self.index(arr, sl, pc)
        if comps is None:
            return self.fresh(arr.sort)
        shape, axes = self._axes(arr, comps, pc)
        if axes is None:
            n = 1
            for k in shape:
                n *= k
            return PySec(shape, [self.fresh(arr.sort) for _ in range(n)]) if shape else self.fresh(arr.sort)
        out = [self._load1(arr, combo, pc) for combo in itertools.product(*axes)]
        return PySec(shape, out) if shape else out[0]

    def _load1(self, arr, combo, pc):
        if all(g is None for g, _ in combo):
            return arr.elems[tuple(p for _, p in combo)]
        res = self.fresh(arr.sort)
        inb = []
        for t, v in arr.elems.items():
            c = self._match(arr, combo, t)
            if c is None:
                continue
            res = z3.If(c, v, res)
            inb.append(c)
        self.raise_if(z3.And(pc, z3.Not(z3.Or(*inb))), f'IndexError: symbolic index out of bounds for {arr.name}')
        return res

    def store(self, arr, sl, val, pc):
        if isinstance(val, (PyArr, tuple)):
            raise NotEncoded('whole-array value stored')
        comps = self.index(arr, sl, pc)
        if comps is None:
            return
        shape, axes = self._axes(arr, comps, pc)
        if axes is None:
            return
        combos = list(itertools.product(*axes))
        if isinstance(val, PySec):
            if not shape:
                self.raise_if(pc, 'ValueError: setting an array element with a sequence')
                return
            if val.shape != shape:
                if len(val.vals) == 1:
                    vals = [val.vals[0]] * len(combos)
                else:
                    self.raise_if(pc, f'ValueError: could not broadcast {val.shape} into {shape}')
                    return
            else:
                vals = val.vals
        else:
            vals = [val] * len(combos)
        # numpy converts on store: a float into an int array truncates toward zero, an int into a float array widens
        if arr.sort == z3.BoolSort():
            vals = [self.truth(v) for v in vals]
        else:
            vals = [self.sem.coerce_store(self._num(v), arr.sort) for v in vals]
        new = dict(arr.elems)
        for combo, v in zip(combos, vals):
            if all(g is None for g, _ in combo):
                t = tuple(p for _, p in combo)
                new[t] = v if z3.is_true(pc) else z3.If(pc, v, new[t])
                continue
            inb = []
            for t in arr.elems:
                c = self._match(arr, combo, t)
                if c is None:
                    continue
                new[t] = z3.If(z3.And(pc, c), v, new[t])
                inb.append(c)
            self.raise_if(z3.And(pc, z3.Not(z3.Or(*inb))), f'IndexError: symbolic index out of bounds for {arr.name}')
        arr.elems.clear()
        arr.elems.update(new)

    def _num(self, v):
        if self.sem.is_bool(v):
            return z3.If(v, self.sem.int_lit(1), self.sem.int_lit(0))
        return v

    def stmt(self, st, pc):
        if isinstance(st, ast.Assign):
            val = self.ev(st.value, pc)
            for t in st.targets:
                self.assign(t, val, pc)
            return
        if isinstance(st, ast.AugAssign):
            cur = self.ev(st.target, pc)
            self.assign(st.target, self.binop(st.op, cur, self.ev(st.value, pc), pc), pc)
            return
        if isinstance(st, ast.AnnAssign):
            if st.value is not None:
                self.assign(st.target, self.ev(st.value, pc), pc)
            return
        if isinstance(st, ast.If):
            c = self.truth(self.ev(st.test, pc))
            self.block(st.body, z3.And(pc, c))
            self.block(st.orelse, z3.And(pc, z3.Not(c)))
            return
        if isinstance(st, ast.For):
            if not (isinstance(st.iter, ast.Call) and isinstance(st.iter.func, ast.Name) and st.iter.func.id == 'range'
                    and 'range' not in self.env):
                raise NotEncoded('for over non-range')
            a = [self.concrete(self.ev(x, pc), 'range bound') for x in st.iter.args]
            if len(a) == 3 and a[2] == 0:
                self.raise_if(pc, 'ValueError: range() arg 3 must not be zero')
                return
            rng = range(*a)
            if len(rng) > 64:
                raise NotEncoded('long loop')
            if not isinstance(st.target, ast.Name) or st.orelse:
                raise NotEncoded('loop form')
            rec = {'broken': z3.BoolVal(False), 'continued': z3.BoolVal(False)}
            self.loops.append(rec)
            try:
                for k in rng:
                    rec['continued'] = z3.BoolVal(False)
                    g = self.alive(pc)
                    if z3.is_false(g):
                        break
                    self.bind(st.target.id, self.sem.int_lit(k), g)
                    self.block(st.body, g)
            finally:
                self.loops.pop()
            return
        if isinstance(st, ast.While):
            rec = {'broken': z3.BoolVal(False), 'continued': z3.BoolVal(False)}
            self.loops.append(rec)
            g = pc
            try:
                for _ in range(self.unwind):
                    rec['continued'] = z3.BoolVal(False)
                    c = self.truth(self.ev(st.test, g))
                    g = self.alive(z3.And(g, c))
                    if z3.is_false(g):
                        break
                    self.block(st.body, g)
                else:
                    rec['continued'] = z3.BoolVal(False)
                    c = self.truth(self.ev(st.test, g))
                    self.unwind_violation = z3.Or(self.unwind_violation, self.alive(z3.And(g, c)))
            finally:
                self.loops.pop()
            return
        if isinstance(st, ast.Break):
            if not self.loops:
                raise NotEncoded('break outside loop')
            self.loops[-1]['broken'] = z3.Or(self.loops[-1]['broken'], pc)
            return
        if isinstance(st, ast.Continue):
            if not self.loops:
                raise NotEncoded('continue outside loop')
            self.loops[-1]['continued'] = z3.Or(self.loops[-1]['continued'], pc)
            return
        if isinstance(st, ast.Return):
            if st.value is None:
                v = ()
            elif isinstance(st.value, ast.Tuple):
                v = tuple(self.ev(e, pc) for e in st.value.elts)
            else:
                v = (self.ev(st.value, pc),)
            if any(isinstance(x, (PyArr, PySec, tuple)) for x in v):
                raise NotEncoded('array returned')
            if self.retval is None:
                self.retval = v
            else:
                if len(v) != len(self.retval):
                    raise NotEncoded('returns of different arity')
                self.retval = tuple(self.sem.ite(pc, n, o) for n, o in zip(v, self.retval))
            self.returned = z3.Or(self.returned, pc)
            return
        if isinstance(st, ast.Expr):
            self.ev(st.value, pc)         # evaluated for its exceptions (e.g. a call of an undefined name)
            return
        if isinstance(st, (ast.Pass, ast.Import, ast.ImportFrom)):
            return
        raise NotEncoded(f'Python statement {type(st).__name__}')

    # ---- expressions
    def truth(self, v):
        if isinstance(v, (PySec, PyArr, tuple)):
            raise NotEncoded('truth value of an array')
        if self.sem.is_bool(v):
            return v
        if self.sem.is_int(v):
            return v != self.sem.int_lit(0)
        raise NotEncoded('truth value of a float')

    @staticmethod
    def as_sec(v):
        """a whole numpy array used as a value: all its elements (arithmetic creates a NEW array)"""
        if isinstance(v, PyArr):
            return PySec(v.shape, [v.elems[t] for t in itertools.product(*[range(n) for n in v.shape])])
        return v

    def binop(self, op, l, r, pc):
        if isinstance(l, tuple) or isinstance(r, tuple):
            raise NotEncoded('tuple arithmetic')
        l, r = self.as_sec(l), self.as_sec(r)
        return _bcast(lambda a, b: self._binop1(op, a, b, pc), l, r)

    def _binop1(self, op, l, r, pc):
        s = self.sem
        l, r = self._num(l), self._num(r)
        saved, s.guard = s.guard, pc
        try:
            if isinstance(op, ast.Add):
                return s.add(l, r)
            if isinstance(op, ast.Sub):
                return s.sub(l, r)
            if isinstance(op, ast.Mult):
                return s.mul(l, r)
            if isinstance(op, ast.Div):
                return s.div(l, r)      # sem.lang == 'python': true division also for two ints
            if isinstance(op, ast.FloorDiv):
                if s.is_int(l) and s.is_int(r):
                    return s.floordiv(l, r)
                raise NotEncoded('float floor division')
            if isinstance(op, ast.Mod):
                if s.is_int(l) and s.is_int(r):
                    return s.intrinsic('modulo', [l, r])
                raise NotEncoded('float %')
            if isinstance(op, ast.Pow):
                if s.is_int(l) and s.is_int(r):
                    # Python: int ** negative int is a float (numpy integers raise ValueError), never the truncated
                    # integer Fortran computes: outside the integer model -> not defined (a candidate for the replay)
                    s.defined.append(r >= 0)
                return s.power(l, r)
        finally:
            s.guard = saved
        raise NotEncoded(f'operator {type(op).__name__}')

    def ev(self, e, pc):  # pylint: disable=too-many-branches,too-many-return-statements
        s = self.sem
        if isinstance(e, ast.Constant):
            if isinstance(e.value, bool):
                return z3.BoolVal(e.value)
            if isinstance(e.value, int):
                return s.int_lit(e.value)
            if isinstance(e.value, float):
                return s.real_lit(repr(e.value))
            if e.value is None:
                return z3.BoolVal(False)      # only ever appears as an expression statement
            raise NotEncoded(f'constant {e.value!r}')
        if isinstance(e, ast.Name):
            if e.id in self.env:
                d = self.defd.get(e.id)
                if d is not None and not z3.is_true(d):
                    self.undef_read = z3.Or(self.undef_read, z3.And(pc, z3.Not(d)))
                return self.env[e.id]
            if e.id in self.local_sorts:
                # a declared variable of the original routine that was never assigned: the original reads an undefined
                # value here; those executions are outside the claim
                self.undef_read = z3.Or(self.undef_read, pc)
                return self.fresh(self.local_sorts[e.id])
            self.raise_if(pc, f'NameError: name {e.id!r} is not defined')
            return s.int_lit(0)
        if isinstance(e, ast.BinOp):
            return self.binop(e.op, self.ev(e.left, pc), self.ev(e.right, pc), pc)
        if isinstance(e, ast.UnaryOp):
            v = self.ev(e.operand, pc)
            if isinstance(v, (PyArr, tuple)):
                raise NotEncoded('unary op on array')
            if isinstance(e.op, ast.USub):
                return v.map(lambda x: s.neg(self._num(x))) if isinstance(v, PySec) else s.neg(self._num(v))
            if isinstance(e.op, ast.UAdd):
                return v
            if isinstance(e.op, ast.Not):
                return z3.Not(self.truth(v))
            raise NotEncoded('unary op')
        if isinstance(e, ast.BoolOp):
            vals = []
            g = pc
            for v in e.values:              # short-circuit: later operands are evaluated under the earlier ones
                t = self.ev(v, g)
                if not s.is_bool(t):
                    raise NotEncoded('and/or over non-bool operands')
                vals.append(t)
                g = z3.And(g, t if isinstance(e.op, ast.And) else z3.Not(t))
            return z3.And(*vals) if isinstance(e.op, ast.And) else z3.Or(*vals)
        if isinstance(e, ast.Compare):
            res = []
            left = self.ev(e.left, pc)
            for op, right in zip(e.ops, e.comparators):
                r = self.ev(right, pc)
                symb = {ast.Eq: '==', ast.NotEq: '!=', ast.Lt: '<', ast.LtE: '<=', ast.Gt: '>', ast.GtE: '>='}.get(type(op))
                if symb is None:
                    raise NotEncoded('comparison operator')
                if isinstance(left, (PySec, PyArr, tuple)) or isinstance(r, (PySec, PyArr, tuple)):
                    raise NotEncoded('array comparison')
                if s.is_bool(left) != s.is_bool(r):
                    left, r = self._num(left), self._num(r)
                res.append(s.cmp(symb, left, r))
                left = r
            return z3.And(*res) if len(res) > 1 else res[0]
        if isinstance(e, ast.Subscript):
            arr = self.ev(e.value, pc)
            if not isinstance(arr, PyArr):
                self.raise_if(pc, f'TypeError: {ast.unparse(e.value)} is not subscriptable')
                return s.int_lit(0)
            return self.load(arr, e.slice, pc)
        if isinstance(e, ast.IfExp):
            c = self.truth(self.ev(e.test, pc))
            return s.ite(c, self.ev(e.body, z3.And(pc, c)), self.ev(e.orelse, z3.And(pc, z3.Not(c))))
        if isinstance(e, ast.Call):
            return self.call(e, pc)
        if isinstance(e, ast.Tuple):
            return tuple(self.ev(x, pc) for x in e.elts)
        raise NotEncoded(f'Python expression {type(e).__name__}: {ast.unparse(e)[:40]}')

    def _elementwise(self, f, args):
        secs = [a for a in args if isinstance(a, PySec)]
        if not secs:
            return f(args)
        shape = secs[0].shape
        if any(x.shape != shape for x in secs):
            raise NotEncoded('broadcast in call')
        return PySec(shape, [f([a.vals[k] if isinstance(a, PySec) else a for a in args]) for k in range(len(secs[0].vals))])

    def call(self, e, pc):  # pylint: disable=too-many-branches,too-many-return-statements
        s = self.sem
        kw = {k.arg: k.value for k in e.keywords}
        if isinstance(e.func, ast.Attribute) and isinstance(e.func.value, ast.Name) and e.func.value.id in self.imported \
                and e.func.value.id in ('np', 'numpy'):
            name = e.func.attr
            if name == 'ndarray':
                shp = self.ev(kw['shape'], pc) if 'shape' in kw else self.ev(e.args[0], pc)
                shp = shp if isinstance(shp, tuple) else (shp,)
                dims = [self.concrete(x, 'array extent') for x in shp]
                if 'dtype' in kw:
                    raise NotEncoded('np.ndarray dtype')
                elems = {t: self.fresh(s.R) for t in itertools.product(*[range(n) for n in dims])}
                s.used_real = True
                return PyArr('<local>', dims, elems, s.R)       # np.ndarray default dtype: float64, uninitialised
            args = [self.ev(a, pc) for a in e.args]
            if any(isinstance(a, (PyArr, tuple)) for a in args):
                raise NotEncoded('whole array passed to numpy function')

            def one(av):
                av = [self._num(a) for a in av]
                if name in ('float64', 'float32', 'float_', 'double'):
                    return s.to_real(av[0])
                if name in ('int32', 'int64', 'int_', 'intc'):
                    return s.to_int_trunc(av[0])
                if name in ('abs', 'absolute', 'fabs'):
                    return s.intrinsic('abs', av)
                if name in ('minimum', 'fmin'):
                    return s.intrinsic('min', av)
                if name in ('maximum', 'fmax'):
                    return s.intrinsic('max', av)
                if name in ('sqrt', 'exp'):
                    return s.intrinsic(name, av)
                if name == 'sign':
                    a = av[0]
                    if s.is_int(a):
                        return s.ite(a > 0, s.int_lit(1), s.ite(a < 0, s.int_lit(-1), s.int_lit(0)))
                    if s.real_mode == 'uf':
                        raise NotEncoded('np.sign of a float under the uninterpreted-real abstraction')
                    return z3.If(a > 0, z3.RealVal(1), z3.If(a < 0, z3.RealVal(-1), z3.RealVal(0)))
                raise NotEncoded(f'np.{name}')
            return self._elementwise(one, args)
        if isinstance(e.func, ast.Name):
            name = e.func.id
            if name in self.env:
                raise NotEncoded(f'call of variable {name}')
            args = [self.ev(a, pc) for a in e.args]
            if name in ('min', 'max', 'abs', 'int', 'float', 'bool', 'pow'):
                if any(isinstance(a, (PySec, PyArr, tuple)) for a in args):
                    raise NotEncoded(f'builtin {name} on arrays')
                args = [self._num(a) for a in args] if name != 'bool' else args
                if name in ('min', 'max', 'abs'):
                    return s.intrinsic(name, args)
                if name == 'int':
                    return s.to_int_trunc(args[0])
                if name == 'float':
                    return s.to_real(args[0])
                if name == 'bool':
                    return self.truth(args[0])
                return s.power(args[0], args[1])
            if name == 'sum' and len(args) == 1 and isinstance(args[0], PySec) and len(args[0].shape) == 1:
                acc = s.int_lit(0)
                for v in args[0].vals:
                    acc = s.add(acc, self._num(v))
                return acc
            if name in ('sum', 'len', 'range', 'print', 'round', 'divmod', 'any', 'all', 'complex', 'str', 'list', 'tuple'):
                raise NotEncoded(f'builtin {name}')
            if name not in self.imported:
                # undefined name: Python raises NameError when (and only when) this call is executed
                self.raise_if(pc, f'NameError: name {name!r} is not defined')
                a0 = args[0] if args and not isinstance(args[0], (PySec, PyArr, tuple)) else s.int_lit(0)
                return a0
            raise NotEncoded(f'call {name}')
        raise NotEncoded('call form')
