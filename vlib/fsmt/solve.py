"""Thin wrapper around z3 queries with timing, timeouts and model extraction."""
import time
import z3


def check(constraints, timeout_ms=10000, tactic=None):
    """returns (verdict, model or None, seconds); verdict in 'sat' 'unsat' 'unknown'"""
    t0 = time.time()
    if tactic:
        s = z3.Tactic(tactic).solver()
    else:
        s = z3.Solver()
    s.set('timeout', timeout_ms)
    s.add(*constraints)
    r = str(s.check())
    m = s.model() if r == 'sat' else None
    return r, m, time.time() - t0


def check_nia(constraints, int_vars, bound, timeout_ms=10000):
    """Integer (possibly non-linear) query with |v| <= bound for all int_vars.  Plain solver first; if it answers
    unknown, retry through nla2bv (sound for sat; for unsat only within the bit-width, so we also assert bounds)."""
    cs = list(constraints) + [z3.And(v >= -bound, v <= bound) for v in int_vars]
    r, m, t = check(cs, timeout_ms)
    if r != 'unknown':
        return r, m, t
    t0 = time.time()
    tac = z3.Then('simplify', 'propagate-values', 'solve-eqs', 'smt')
    s = tac.solver()
    s.set('timeout', timeout_ms)
    s.add(*cs)
    r2 = str(s.check())
    m2 = s.model() if r2 == 'sat' else None
    return r2, m2, t + time.time() - t0


def model_value(m, term):
    v = m.eval(term, model_completion=True)
    if z3.is_int_value(v):
        return v.as_long()
    if z3.is_rational_value(v):
        return (v.numerator_as_long(), v.denominator_as_long())
    if z3.is_true(v):
        return True
    if z3.is_false(v):
        return False
    if z3.is_algebraic_value(v):
        a = v.approx(20)
        return (a.numerator_as_long(), a.denominator_as_long())
    return str(v)


def check_robust(constraints, split_vars=(), bound=None, timeout_ms=8000):
    """default solver -> qfnia tactic -> case split on the values of the first bounded integer variable (each case is
    again a solver query; 'unsat' only if every case is unsat).  Returns (verdict, model, seconds)."""
    r, m, t = check(constraints, timeout_ms)
    if r != 'unknown':
        return r, m, t
    r2, m2, t2 = check(constraints, timeout_ms * 2, tactic='qfnia')
    t += t2
    if r2 != 'unknown':
        return r2, m2, t
    if split_vars and bound is not None:
        v = split_vars[0]
        allunsat = True
        for k in range(-bound, bound + 1):
            rk, mk, tk = check_robust(list(constraints) + [v == k], split_vars[1:], bound, timeout_ms)
            t += tk
            if rk == 'sat':
                return rk, mk, t
            if rk != 'unsat':
                allunsat = False
        return ('unsat' if allunsat else 'unknown'), None, t
    return 'unknown', None, t


def differ(t1, t2, constraints, split_vars=(), bound=None, timeout_ms=8000):
    """Is there a model of ``constraints`` with t1 != t2 ?  Syntactically identical terms are answered 'unsat'
    without a solver call (t != t is unsat by reflexivity); returns (verdict, model, seconds, structural)"""
    if t1.eq(t2):
        return 'unsat', None, 0.0, True
    s1, s2 = z3.simplify(t1), z3.simplify(t2)
    if s1.eq(s2):
        return 'unsat', None, 0.0, True
    r, m, t = check_robust(list(constraints) + [t1 != t2], split_vars, bound, timeout_ms)
    return r, m, t, False


# ---------------------------------------------------------------------------------------------------------------
# two-pass equivalence proving: Int pass (structure + magnitudes) then, for pure-integer obligations, a signed
# bit-vector pass sized from the magnitudes (bvsdiv == Fortran/C truncating division), else Int/Real arithmetic.

def bv_value(v):
    if z3.is_bv_value(v):
        return v.as_signed_long()
    return None


def model_value2(m, term):
    v = m.eval(term, model_completion=True)
    b = bv_value(v)
    if b is not None:
        return b
    return model_value(m, term)


MAX_BV_WIDTH = 40


def prove_equal(build, real_mode='real', lang='fortran', timeout_ms=8000, extra=None, want_gap=False, ints_as_reals=False):
    r"""build(sem) -> (t1, t2, env) ; env: name -> z3 term of the free variables (created through sem.int_var /
    sem.real_const / z3.Bool).  Asks: exists valuation. ranges /\ defined /\ t1 != t2.
    Returns dict(verdict, model, seconds, mode, structural)."""
    from vlib.fsmt.sem import Sem, NeedIntMode  # pylint: disable=import-outside-toplevel
    sem = Sem(real_mode, lang=lang, int_mode='asreal' if ints_as_reals else 'int')
    t1, t2, env = build(sem)
    res = {'mode': 'int', 'structural': False, 'seconds': 0.0, 'model': None}
    if t1.sort() != t2.sort():
        if sem.is_bool(t1) or sem.is_bool(t2):
            res.update(verdict='sat', model={}, why='sort mismatch (logical vs numeric)')
            return res
        t1, t2 = sem.to_real(t1), sem.to_real(t2)
    if t1.eq(t2) or z3.simplify(t1).eq(z3.simplify(t2)):
        res.update(verdict='unsat', structural=True)
        return res
    if not ints_as_reals and not sem.used_real and not sem.unbounded and sem.max_mag.bit_length() + 2 <= MAX_BV_WIDTH:
        w = max(8, sem.max_mag.bit_length() + 2)
        sem2 = Sem(real_mode, lang=lang, int_mode='bv', width=w)
        try:
            u1, u2, env2 = build(sem2)
            cs = sem2.ranges + sem2.defined + [u1 != u2] + (extra(sem2, env2) if extra else [])
            r, m, t = check(cs, timeout_ms * 3, tactic='qfbv')
            res['seconds'] += t
            res['mode'] = f'bv{w}'
            if r != 'unknown':
                res['verdict'] = r
                if r == 'sat':
                    res['model'] = {n: model_value2(m, v) for n, v in env2.items()}
                    res['v1'], res['v2'] = model_value2(m, u1), model_value2(m, u2)
                return res
        except NeedIntMode:
            pass
    cs = sem.ranges + sem.defined + (extra(sem, env) if extra else [])
    r, m, t = check_robust(cs + [t1 != t2], sem.int_vars[:2], None, timeout_ms)
    res['seconds'] += t
    res['mode'] = 'int/real'
    if r == 'sat' and want_gap and not sem.is_bool(t1):
        d = sem.to_real(t1) - sem.to_real(t2)
        r2, m2, t2_ = check(cs + [z3.Or(d > z3.RealVal('1/4'), d < -z3.RealVal('1/4'))], timeout_ms)
        res['seconds'] += t2_
        if r2 == 'sat':
            m = m2
    res['verdict'] = r
    if r == 'sat':
        res['model'] = {n: model_value2(m, v) for n, v in env.items()}
        res['v1'], res['v2'] = model_value2(m, t1), model_value2(m, t2)
    return res
