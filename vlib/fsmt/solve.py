"""Thin wrapper around z3 queries with timing, timeouts and model extraction."""
import time
import z3


def check(constraints, timeout_ms=10000, tactic=None):
    """returns (verdict, model or None, seconds); verdict in 'sat' 'unsat' 'unknown'"""
    t0 = time.time()
    if tactic:
        s = z3.Tactic(tactic).solver()
    else:
        s = z3.Solver()
    s.set('timeout', timeout_ms)
    s.add(*constraints)
    r = str(s.check())
    m = s.model() if r == 'sat' else None
    return r, m, time.time() - t0


def check_nia(constraints, int_vars, bound, timeout_ms=10000):
    """Integer (possibly non-linear) query with |v| <= bound for all int_vars.  Plain solver first; if it answers
    unknown, retry through nla2bv (sound for sat; for unsat only within the bit-width, so we also assert bounds)."""
    cs = list(constraints) + [z3.And(v >= -bound, v <= bound) for v in int_vars]
    r, m, t = check(cs, timeout_ms)
    if r != 'unknown':
        return r, m, t
    t0 = time.time()
    tac = z3.Then('simplify', 'propagate-values', 'solve-eqs', 'smt')
    s = tac.solver()
    s.set('timeout', timeout_ms)
    s.add(*cs)
    r2 = str(s.check())
    m2 = s.model() if r2 == 'sat' else None
    return r2, m2, t + time.time() - t0


def model_value(m, term):
    v = m.eval(term, model_completion=True)
    if z3.is_int_value(v):
        return v.as_long()
    if z3.is_rational_value(v):
        return (v.numerator_as_long(), v.denominator_as_long())
    if z3.is_true(v):
        return True
    if z3.is_false(v):
        return False
    if z3.is_algebraic_value(v):
        a = v.approx(20)
        return (a.numerator_as_long(), a.denominator_as_long())
    return str(v)


def check_robust(constraints, split_vars=(), bound=None, timeout_ms=8000):
    """default solver -> qfnia tactic -> case split on the values of the first bounded integer variable (each case is
    again a solver query; 'unsat' only if every case is unsat).  Returns (verdict, model, seconds)."""
    r, m, t = check(constraints, timeout_ms)
    if r != 'unknown':
        return r, m, t
    r2, m2, t2 = check(constraints, timeout_ms * 2, tactic='qfnia')
    t += t2
    if r2 != 'unknown':
        return r2, m2, t
    if split_vars and bound is not None:
        v = split_vars[0]
        allunsat = True
        for k in range(-bound, bound + 1):
            rk, mk, tk = check_robust(list(constraints) + [v == k], split_vars[1:], bound, timeout_ms)
            t += tk
            if rk == 'sat':
                return rk, mk, t
            if rk != 'unsat':
                allunsat = False
        return ('unsat' if allunsat else 'unknown'), None, t
    return 'unknown', None, t
