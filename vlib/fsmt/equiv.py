"""Translation validation: two sets of routines with the same entry signature are interpreted on shared symbolic
inputs; z3 decides whether any input (within the bounds) makes an observable difference."""
import time
import z3

from loki import Sourcefile, fgen
from loki.expression import symbols as sym
from loki.types import BasicType, DerivedType

from vlib.fsmt.sem import Sem, NeedIntMode
from vlib.fsmt.expr import NotEncoded
from vlib.fsmt.interp import Interp, observable, Arr, View, Cell, DT
from vlib.fsmt.solve import check, model_value2, MAX_BV_WIDTH
from vlib import replay as RP


class _UnboundInTransformed(Exception):
    pass


class Prog:
    """a program = routines + modules + entry routine (objects), and a way to print it as compilable Fortran"""

    def __init__(self, routines=(), modules=(), entry=None, text=None, absent=()):
        self.routines, self.modules, self.entry, self.text, self.absent = list(routines), list(modules), entry, text, tuple(absent)

    @classmethod
    def from_source(cls, text, entry, absent=()):
        from loki import Frontend  # pylint: disable=import-outside-toplevel
        sf = Sourcefile.from_source(text, frontend=Frontend.FP)
        return cls.from_sourcefile(sf, entry, text=text, absent=absent)

    @classmethod
    def from_sourcefile(cls, sf, entry, text=None, absent=()):
        routines = list(sf.routines)
        modules = list(sf.modules)
        allr = routines + [r for m in modules for r in m.subroutines]
        for r in allr:
            try:
                r.enrich(allr + modules)
            except Exception:  # pylint: disable=broad-except
                pass
        e = [r for r in allr if r.name.lower() == entry.lower()]
        if not e:
            raise KeyError(entry)
        p = cls(routines, modules, e[0], text, absent)
        p.sourcefile = sf
        return p

    def fortran(self):
        if self.text is not None:
            return self.text
        return self.sourcefile.to_fortran()


def _interpret(sem, prog, sizes, include_locals, unwind, int_bound, intents=None, trace_pragmas=False):
    it = Interp(sem, prog.routines, prog.modules, sizes, unwind=unwind)
    it.int_bound = int_bound
    it.trace_pragmas = trace_pragmas
    fr = it.run_entry(prog.entry, absent=prog.absent)
    for m in prog.modules:
        it.frame = fr
        it.module_frame(m)      # every module's variables are observable, whether touched or not
    obs = observable(it, fr, prog.entry, include_locals, intents)
    return it, fr, obs


def _violation(sem, it1, obs1, it2, obs2, n_def1):
    """(assumptions, violation term, description of structure mismatch or None)"""
    l1, l2 = [l for l, _ in obs1], [l for l, _ in obs2]
    if l1 != l2:
        return None, None, f'observable signature differs: {sorted(set(l1) ^ set(l2))[:6]}'
    diffs = []
    for (l, a), (_, b) in zip(obs1, obs2):
        if a.sort() != b.sort():
            return None, None, f'sort of {l} differs'
        if not a.eq(b):
            diffs.append(a != b)
    # output trace (PRINT records, and pragma annotations when traced): for every input the SEQUENCE of records whose
    # guard holds must be the same on both sides; encoded by position (number of earlier records that were emitted)
    o1, o2 = it1.outputs, it2.outputs
    if o1 or o2:
        if sem.int_mode == 'bv':
            raise NeedIntMode('output trace positions')
        if len(o1) * len(o2) > 900:
            return None, None, 'output trace too long'
        one, zero = z3.IntVal(1), z3.IntVal(0)

        def positions(outs):
            pos, acc = [], zero
            for g, _ in outs:
                pos.append(acc)
                acc = acc + z3.If(g, one, zero)
            return pos, acc
        p1, n1 = positions(o1)
        p2, n2 = positions(o2)
        alive = z3.Not(it1.aborted)
        diffs.append(n1 != n2)
        for (g1, v1), q1 in zip(o1, p1):
            for (g2, v2), q2 in zip(o2, p2):
                same_slot = z3.simplify(z3.And(g1, g2, q1 == q2))
                if z3.is_false(same_slot):
                    continue
                if len(v1) != len(v2) or any(k1 != k2 for (k1, _), (k2, _) in zip(v1, v2)):
                    diffs.append(same_slot)
                    continue
                item = []
                for (k1, x1), (_, x2) in zip(v1, v2):
                    if k1 == 'str':
                        if x1 != x2:
                            item.append(z3.BoolVal(True))
                    elif x1.sort() != x2.sort():
                        item.append(z3.BoolVal(True))
                    elif not x1.eq(x2):
                        item.append(x1 != x2)
                if item:
                    diffs.append(z3.And(same_slot, z3.Or(*item)))
    d1 = list(sem.defined[:n_def1])
    d2 = list(sem.defined[n_def1:])
    assume = list(sem.ranges) + d1 + [z3.Not(it1.trap), z3.Not(it1.unwind_violation), z3.Not(it2.unwind_violation)]
    viol = z3.Or(it2.trap, z3.Not(z3.And(*d2)) if d2 else z3.BoolVal(False), it1.aborted != it2.aborted,
                 z3.And(z3.Not(it1.aborted), z3.Or(*diffs)) if diffs else z3.BoolVal(False))
    return assume, viol, None


def check_equiv(p1, p2, sizes, include_locals=(), unwind=5, int_bound=6, timeout_ms=20000, real_ladder=('uf', 'real'),
                trace_pragmas=False):
    """returns dict: verdict in unsat | unsat-real-only | sat | unknown | notenc | vacuous ; model ; details"""
    t0 = time.time()
    res = {'seconds': 0.0}

    def attempt(real_mode, int_mode='int', width=None):
        sem = Sem(real_mode, int_mode=int_mode, width=width)
        it1, fr1, obs1 = _interpret(sem, p1, sizes, include_locals, unwind, int_bound, trace_pragmas=trace_pragmas)
        n1 = len(sem.defined)
        intents = {a.name.lower(): a.type.intent for a in p1.entry.arguments}
        try:
            it2, fr2, obs2 = _interpret(sem, p2, sizes, include_locals, unwind, int_bound, intents, trace_pragmas=trace_pragmas)
        except NotEncoded as ex:
            if any(k in str(ex) for k in ('unbound variable', 'missing actual for', 'more actual than dummy', 'actual A for scalar dummy', 'for scalar dummy', 'type BasicType.DEFERRED', 'duplicate dummy argument', 'duplicate actual for dummy')):
                raise _UnboundInTransformed(str(ex)) from ex
            raise
        assume, viol, why = _violation(sem, it1, obs1, it2, obs2, n1)
        return sem, it1, it2, obs1, obs2, assume, viol, why

    last = None
    for real_mode in real_ladder:
        try:
            sem, it1, it2, obs1, obs2, assume, viol, why = attempt(real_mode)
        except _UnboundInTransformed as ex:
            # the original is interpretable but the transformed program refers to a name that is neither declared,
            # imported nor host-associated: candidate, decided by the compiler replay (model: default inputs)
            return {'verdict': 'sat', 'model': {}, 'differences': [('transformed program', 'all names bound', str(ex))],
                    'trap2': False, 'trap2_reasons': [], 'mode': 'structural', 'seconds': time.time() - t0}
        except NotEncoded as ex:
            return {'verdict': 'notenc', 'why': str(ex), 'seconds': time.time() - t0}
        except (TypeError, NeedIntMode, z3.Z3Exception) as ex:
            return {'verdict': 'notenc', 'why': f'{type(ex).__name__}: {ex}', 'seconds': time.time() - t0}
        if why:
            return {'verdict': 'notenc', 'why': why, 'seconds': time.time() - t0}
        res['observables'] = len(obs1)
        # vacuity: the assumptions alone must be satisfiable
        rv, _, tv = check(assume, timeout_ms)
        if rv == 'unsat':
            return {'verdict': 'vacuous', 'why': 'original traps / exceeds unwinding on every input', 'seconds': time.time() - t0,
                    'trap_reasons': it1.trap_reasons[:5]}
        # unwinding assertion of the original
        ru, _, _ = check(list(sem.ranges) + [z3.Not(it1.trap), it1.unwind_violation], timeout_ms)
        res['unwinding_complete'] = (ru == 'unsat')
        mode = 'int/real'
        r = None
        if not sem.used_real and not sem.unbounded and real_mode == real_ladder[0] and \
                sem.max_mag.bit_length() + 2 <= MAX_BV_WIDTH:
            try:
                w = max(8, sem.max_mag.bit_length() + 2)
                sem2, j1, j2, o1, o2, assume2, viol2, why2 = attempt(real_mode, 'bv', w)
                if not why2:
                    r, m, t = check(assume2 + [viol2], timeout_ms, tactic='qfbv')
                    mode = f'bv{w}'
                    if r != 'unknown':
                        sem, it1, it2, obs1, obs2 = sem2, j1, j2, o1, o2
                    else:
                        r = None
            except (NeedIntMode, NotEncoded, z3.Z3Exception):
                r = None
        if r is None:
            r, m, t = check(assume + [viol], timeout_ms)
        res['mode'] = f'{real_mode}:{mode}'
        res['pure_integer'] = not sem.used_real
        if r == 'unsat':
            res['verdict'] = 'unsat' if (real_mode == 'uf' or not sem.used_real or real_ladder[0] == 'real') else 'unsat-real-only'
            res['seconds'] = time.time() - t0
            return res
        last = (r, m if r == 'sat' else None, sem, it1, it2, obs1, obs2)
        if not sem.used_real:
            break
    r, m, sem, it1, it2, obs1, obs2 = last
    res['verdict'] = r
    if r == 'sat':
        res['model'] = {n: model_value2(m, v) for n, v in sorted({**it1.inputs, **it2.inputs}.items())}
        diffs = []
        for (l, a), (_, b) in zip(obs1, obs2):
            va, vb = model_value2(m, a), model_value2(m, b)
            if va != vb:
                diffs.append((l, va, vb))
        res['differences'] = diffs[:8]
        res['trap2'] = bool(z3.is_true(m.eval(it2.trap, model_completion=True)))
        res['trap2_reasons'] = it2.trap_reasons[:5] if res['trap2'] else []
    res['seconds'] = time.time() - t0
    return res


# ------------------------------------------------------------------------------------------------ compiler replay

def _lit(v, kind):
    if kind == 'l':
        return '.true.' if v else '.false.'
    if kind == 'r':
        if isinstance(v, tuple):
            return f'({v[0]}.0d0/{v[1]}.0d0)'
        if isinstance(v, (int, float)):
            return f'{v}.0d0' if isinstance(v, int) else repr(v)
        return '1.0d0'
    if isinstance(v, int):
        return str(v)
    return '1'


def driver_source(entry, sizes, model, tag, absent=()):
    """Fortran statements (declarations, initialisation from the model, call, prints) exercising ``entry``"""
    decl, init, out = [], [], []
    args = []
    sz = {k.lower(): v for k, v in sizes.items()}

    def kind_of(t):
        return {BasicType.INTEGER: 'i', BasicType.REAL: 'r', BasicType.LOGICAL: 'l'}.get(t.dtype)

    def tname(t):
        base = {'i': 'integer', 'r': 'real', 'l': 'logical'}[kind_of(t)]
        if t.kind is not None:
            base += f'(kind={t.kind})'
        return base

    from vlib.fsmt.interp import Interp  # pylint: disable=import-outside-toplevel
    it = Interp(Sem(), sizes=sizes)
    it.frame = type('F', (), {'vars': {}, 'host': None, 'routine': entry, 'stmtfuncs': {}})()
    from vlib.fsmt.interp import Cell as _C  # pylint: disable=import-outside-toplevel
    for a in entry.arguments:
        if not isinstance(a, sym.Array) and a.type.dtype == BasicType.INTEGER:
            v = sz.get(a.name.lower(), model.get(f'in_{a.name.lower()}', 1))
            v = v if isinstance(v, int) else 1
            it.frame.vars[a.name.lower()] = _C(it.sem.isort, it.sem.int_lit(v if isinstance(v, int) else 1))

    def emit(a, t, name, qual):
        k = kind_of(t)
        if isinstance(t.dtype, DerivedType):
            td = t.dtype.typedef
            for c in td.variables:
                emit(c, c.type, f'{name}%{c.name}', f'{qual}__{c.name.lower()}')
            return
        if k is None:
            raise NotEncoded(f'replay of argument type {t.dtype}')
        shape = (getattr(a, 'dimensions', None) if isinstance(a, sym.Array) else None) or getattr(a, 'shape', None)
        if isinstance(a, sym.Array) or shape:
            bounds = []
            for d in shape:
                if isinstance(d, sym.RangeIndex):
                    lo = it.concrete(it.enc(d.lower)) if d.lower is not None else 1
                    if d.upper is None:
                        raise NotEncoded('replay of assumed-shape entry argument')
                    hi = it.concrete(it.enc(d.upper))
                else:
                    lo, hi = 1, it.concrete(it.enc(d))
                bounds.append((lo, hi))
            arr = Arr(qual, bounds, None)
            fixed = sz.get(qual) if isinstance(sz.get(qual), (list, tuple)) else None
            for k_, idx in enumerate(arr.index_list()):
                key = f'in_{qual}_p{k_ + 1}'
                v = fixed[k_] if fixed is not None else model.get(key, 1 if k != 'l' else False)
                init.append(f"  {name}({', '.join(map(str, idx))}) = {_lit(v, k)}")
            out.append(name)
            return bounds
        v = sz.get(qual, model.get(f'in_{qual}', 1 if k != 'l' else False))
        init.append(f'  {name} = {_lit(v, k)}')
        out.append(name)
        return None

    for a in entry.arguments:
        an = a.name.lower()
        if an in absent:
            continue
        t = a.type
        if isinstance(t.dtype, DerivedType):
            decl.append(f'  type({t.dtype.name}) :: {an}')
            emit(a, t, an, an)
        else:
            b = emit(a, t, an, an)
            if b:
                decl.append(f"  {tname(t)} :: {an}({', '.join(f'{lo}:{hi}' for lo, hi in b)})")
            else:
                decl.append(f'  {tname(t)} :: {an}')
        args.append(f'{an}={an}')
    return decl, init, args, out


def _pragmas_as_prints(text):
    """replay of pragma traces: the generated code is re-parsed, every pragma in an executable part becomes a PRINT of its
    normalised text (so that gfortran shows which annotations an execution reaches, in order); pragmas in specification
    parts are returned as a list per routine"""
    from loki import Frontend  # pylint: disable=import-outside-toplevel
    from loki.ir import nodes as ir, FindNodes, Transformer  # pylint: disable=import-outside-toplevel
    sf = Sourcefile.from_source(text, frontend=Frontend.FP)
    spec = []
    allr = list(sf.routines) + [r for m in sf.modules for r in m.subroutines]
    todo = list(allr)
    while todo:
        r = todo.pop(0)
        todo += list(getattr(r, 'members', ()) or ())
        norm = lambda q: ''.join(f'!${q.keyword} {q.content or ""}'.lower().split())
        spec.append((r.name.lower(), [norm(q) for q in FindNodes(ir.Pragma).visit(r.spec)]))
        mapper = {}
        for q in FindNodes(ir.Pragma).visit(r.body):
            t = norm(q).replace("'", "''")
            mapper[q] = ir.GenericStmt(text=f"print *, '{t}'")
        if mapper:
            r.body = Transformer(mapper).visit(r.body)
    for m in sf.modules:
        spec.append((m.name.lower(), [''.join(f'!${q.keyword} {q.content or ""}'.lower().split()) for q in FindNodes(ir.Pragma).visit(m.spec)]))
    return sf.to_fortran(), sorted(spec)


def replay_equiv(p1, p2, sizes, model, timeout=120, trace_pragmas=False, rtol=1e-6):
    """compile original and transformed program with gfortran, run both on the model inputs, compare printed outputs.
    returns (differs: bool|None, message)"""
    outs = []
    texts = {}
    if trace_pragmas:
        try:
            (t1, s1), (t2, s2) = _pragmas_as_prints(p1.fortran()), _pragmas_as_prints(p2.fortran())
        except Exception as ex:  # pylint: disable=broad-except
            return None, f'pragma replay not possible: {type(ex).__name__}: {ex}'
        if s1 != s2:
            return True, f'pragmas in specification parts differ: {s1} vs {s2}'
        texts = {'orig': t1, 'trans': t2}
    # the driver is derived from the ORIGINAL entry's interface (a transformation must keep the entry callable the
    # same way; its symbol table may have lost attributes such as intents or kinds)
    try:
        decl, init, args, out = driver_source(p1.entry, sizes, model or {}, 'orig', p1.absent)
    except NotEncoded as ex:
        return None, f'no replay driver: {ex}'
    for tag, p in (('orig', p1), ('trans', p2)):
        uses = ''.join(f'  use {m.name}\n' for m in p.modules)
        is_fn = getattr(p.entry, 'is_function', False)
        inmod = getattr(p.entry, 'parent', None) is not None
        # gfortran rejects CONTIGUOUS on explicit-shape dummies (emitted by the stack allocators for nvfortran); the
        # attribute carries no behaviour, so it is dropped for the replay build only
        body = texts.get(tag, None) or p.fortran()
        body = body.replace(', CONTIGUOUS', '')
        lines = ['program rp', uses.rstrip('\n') if uses else '', '  implicit none']
        lines += decl
        if is_fn:
            lines.append('  real(8) :: fres__')
        if not inmod:
            lines.append(f'  external :: {p.entry.name}' if not is_fn else '')
            # explicit interface needed for assumed-shape/optional: provide via interface block from the routine's own spec
        lines += init
        if is_fn:
            lines.append(f"  print *, {p.entry.name}({', '.join(a.split('=')[0] for a in args)})")
        else:
            if inmod:
                lines.append(f"  call {p.entry.name}({', '.join(args)})")
            else:
                lines.append(f"  call {p.entry.name}({', '.join(a.split('=')[0] for a in args)})")
        for o in out:
            lines.append(f'  print *, {o}')
        lines.append('end program rp')
        drv = '\n'.join(l for l in lines if l != '')
        # accesses past an allocation (Cray pointers into a scratch array, an explicit-shape dummy larger than the
        # actual it is associated with) are undefined behaviour that only the address sanitizer makes visible
        flags = ('-fcheck=bounds', '-ffpe-trap=zero,invalid', '-fcray-pointer', '-fsanitize=address', '-g')
        ok, so, se = RP.run_fortran([('prog.F90', body + '\n'), ('drv.F90', drv + '\n')], timeout=timeout, flags=flags)
        if not ok:
            outs.append(('FAILED', se[-400:]))
        else:
            outs.append(('OK', so))
    (s1, o1), (s2, o2) = outs
    if s1 != 'OK':
        return None, f'original does not build/run: {o1}'
    if s2 != 'OK':
        return True, f'transformed program fails to build/run (original runs): {o2[-300:]}'
    t1, t2 = o1.split(), o2.split()
    if len(t1) != len(t2):
        return True, f'outputs differ in length: {o1!r} vs {o2!r}'
    for a, b in zip(t1, t2):
        if a == b:
            continue
        try:
            x, y = float(a), float(b)
            if rtol and abs(x - y) <= rtol * max(1.0, abs(x), abs(y)):
                continue
        except ValueError:
            pass
        return True, f'gfortran outputs differ: original {t1} vs transformed {t2}'
    return False, f'gfortran outputs agree: {t1}'


# ------------------------------------------------------------------------------------------------ self-validation

def selfcheck(prog, sizes, seed=0, timeout=120):
    """Validate the interpreter against gfortran on one program: choose concrete inputs (seeded, within the
    assumptions), evaluate the interpreter's observables under them and compare with the compiled program's output.
    returns (ok: bool|None, message)"""
    import random  # pylint: disable=import-outside-toplevel
    selfcheck.last_model = None
    rnd = random.Random(seed)
    sem = Sem('real')
    try:
        it, fr, obs = _interpret(sem, prog, sizes, (), 6, 6)
    except NotEncoded as ex:
        return None, f'not encoded: {ex}'
    opt = z3.Optimize()
    opt.set('timeout', 20000)
    opt.add(*sem.ranges, *sem.defined, z3.Not(it.trap), z3.Not(it.unwind_violation), z3.Not(it.aborted))
    for name, v in sorted(it.inputs.items()):
        if v.sort() == z3.IntSort():
            opt.add_soft(v == rnd.randint(-4, 5))
        elif v.sort() == z3.RealSort():
            opt.add(z3.And(v >= -8, v <= 8))
            opt.add_soft(v == z3.RealVal(f'{rnd.randint(-12, 12)}/4'))
        else:
            opt.add_soft(v == z3.BoolVal(rnd.random() < 0.5))
    if str(opt.check()) != 'sat':
        return None, 'no admissible input found'
    m = opt.model()
    model = {n: model_value2(m, v) for n, v in it.inputs.items()}
    selfcheck.last_model = model
    want = {}
    for label, term in obs:
        if '::' in label:
            continue
        base = label.split('[#')[0]
        want.setdefault(base, []).append(model_value2(m, term))
    try:
        decl, init, args, out = driver_source(prog.entry, sizes, model, 'self', prog.absent)
    except NotEncoded as ex:
        return None, f'no driver: {ex}'
    uses = ''.join(f'  use {mm.name}\n' for mm in prog.modules)
    inmod = getattr(prog.entry, 'parent', None) is not None
    lines = ['program rp', uses.rstrip('\n') if uses else '', '  implicit none'] + decl + init
    if getattr(prog.entry, 'is_function', False):
        return None, 'function entry'
    lines.append(f"  call {prog.entry.name}({', '.join(args if inmod else [a.split('=')[0] for a in args])})")
    for o in out:
        lines.append(f"  print *, '@{o}', {o}")
    lines.append('end program rp')
    drv = '\n'.join(l for l in lines if l != '')
    ok, so, se = RP.run_fortran([('prog.F90', prog.fortran() + '\n'), ('drv.F90', drv + '\n')], timeout=timeout,
                                flags=('-fcheck=bounds', '-fdefault-real-8'))
    if not ok:
        return None, f'gfortran failed: {se[-200:]}'
    got = {}
    for line in so.splitlines():
        t = line.split()
        if t and t[0].startswith('@'):
            got[t[0][1:].lower()] = t[1:]
    bad = []
    for base, vals in want.items():
        g = got.get(base)
        if g is None:
            continue
        if len(g) != len(vals):
            bad.append(f'{base}: {len(g)} values vs {len(vals)}')
            continue
        for k, (gv, wv) in enumerate(zip(g, vals)):
            if isinstance(wv, bool):
                if (gv == 'T') != wv:
                    bad.append(f'{base}#{k + 1}: gfortran {gv} interpreter {wv}')
            else:
                w = wv[0] / wv[1] if isinstance(wv, tuple) else float(wv)
                try:
                    gf = float(gv)
                except ValueError:
                    bad.append(f'{base}#{k + 1}: gfortran {gv!r}')
                    continue
                if abs(gf - w) > 1e-6 * max(1.0, abs(w)):
                    bad.append(f'{base}#{k + 1}: gfortran {gf} interpreter {w}')
    if bad:
        return False, f'inputs {model}: ' + '; '.join(bad[:6])
    return True, f'{sum(len(v) for v in want.values())} observables agree'
