"""loki.expression tree -> z3 term under Fortran semantics (class ExprEnc), regenerated from live objects."""
import re
import z3
import pymbolic.primitives as pmbl
from loki.expression import symbols as sym
from loki.expression import operations as ops

from vlib.fsmt.sem import Sem


class NotEncoded(Exception):
    pass


_KIND_RE = re.compile(r'_[a-z0-9_]+$', re.I)


def is_minus_one(c):
    if isinstance(c, (int, float)) and not isinstance(c, bool):
        return c == -1
    if isinstance(c, sym.IntLiteral):
        return c.value == -1
    return False


class ExprEnc:
    """Encode expression trees.  ``env``: lower-case name -> z3 term (scalars).  Sub-classes / callers may override
    ``lookup`` for arrays, derived-type members and user functions."""

    def __init__(self, sem=None, env=None):
        self.sem = sem or Sem()
        self.env = env or {}

    # hooks
    def lookup(self, e):
        name = e.name.lower()
        if name in self.env:
            if getattr(e, 'dimensions', None):
                raise NotEncoded(f'subscripted {name}')
            return self.env[name]
        raise NotEncoded(f'unbound {name}')

    def call(self, e, args, kwargs):
        name = str(e.function.name if hasattr(e.function, 'name') else e.function).lower()
        try:
            return self.sem.intrinsic(name, args, kwargs)
        except NotImplementedError as ex:
            raise NotEncoded(str(ex)) from ex

    def enc(self, e):
        s = self.sem
        if isinstance(e, bool):
            return z3.BoolVal(e)
        if isinstance(e, int):
            return s.int_lit(e)
        if isinstance(e, float):
            return s.real_lit(repr(e))
        if isinstance(e, sym.IntLiteral):
            return s.int_lit(e.value)
        if isinstance(e, sym.FloatLiteral):
            return s.real_lit(str(e.value))
        if isinstance(e, sym.LogicLiteral):
            return z3.BoolVal(bool(e.value))
        if isinstance(e, pmbl.Sum):
            vals = [self.enc(c) for c in e.children]
            r = vals[0]
            for v in vals[1:]:
                r = s.add(r, v)
            return r
        if isinstance(e, pmbl.Product):
            ch = e.children
            if len(ch) >= 2 and is_minus_one(ch[0]):
                # Loki's encoding of unary minus / subtraction: -(rest)
                vals = [self.enc(c) for c in ch[1:]]
                r = vals[0]
                for v in vals[1:]:
                    r = s.mul(r, v)
                return s.neg(r)
            vals = [self.enc(c) for c in ch]
            r = vals[0]
            for v in vals[1:]:
                r = s.mul(r, v)
            return r
        if isinstance(e, pmbl.Quotient):
            return s.div(self.enc(e.numerator), self.enc(e.denominator))
        if isinstance(e, pmbl.Power):
            return s.power(self.enc(e.base), self.enc(e.exponent))
        if isinstance(e, pmbl.Comparison):
            return s.cmp(e.operator, self.enc(e.left), self.enc(e.right))
        if isinstance(e, pmbl.LogicalAnd):
            return s.land(*[self.enc(c) for c in e.children])
        if isinstance(e, pmbl.LogicalOr):
            return s.lor(*[self.enc(c) for c in e.children])
        if isinstance(e, pmbl.LogicalNot):
            return s.lnot(self.enc(e.child))
        if isinstance(e, ops.Cast):
            args = [self.enc(a) for a in e.parameters]
            try:
                v = s.intrinsic(e.name, args)
            except NotImplementedError as ex:
                raise NotEncoded(str(ex)) from ex
            if getattr(e, 'kind', None) is not None and s.real_mode == 'uf' and s.is_real(v):
                # the kind of a REAL conversion decides its rounding: under the uninterpreted-real abstraction a conversion
                # to another (or no) kind is a different function (equal again over the exact reals)
                v = z3.Function('kindcast_' + ''.join(str(e.kind).lower().split()), s.R, s.R)(v)
            return v
        if isinstance(e, sym.InlineCall):
            args = [self.enc(a) for a in e.parameters]
            kwargs = {k: self.enc(v) for k, v in (e.kw_parameters or {}).items()}
            return self.call(e, args, kwargs)
        if isinstance(e, (sym.Scalar, sym.Array, sym.DeferredTypeSymbol, sym.VariableSymbol, sym.ProcedureSymbol)):
            return self.lookup(e)
        raise NotEncoded(f'expression node {type(e).__name__}')


def fullparen(e, lang='fortran'):
    """Independent fully parenthesised printer of a loki.expression tree (the *meaning* of the tree as text);
    used only for compiler replays.  lang: 'fortran' | 'c'."""
    f = lang == 'fortran'
    if isinstance(e, bool):
        return ('.true.' if e else '.false.') if f else ('1' if e else '0')
    if isinstance(e, int):
        return str(e) if e >= 0 else f'({e})'
    if isinstance(e, sym.IntLiteral):
        return str(e.value) if e.value >= 0 else f'({e.value})'
    if isinstance(e, sym.FloatLiteral):
        v = str(e.value)
        if not f:
            v = re.sub(r'_\w+$', '', v).lower().replace('d', 'e')
        return v
    if isinstance(e, sym.LogicLiteral):
        return ('.true.' if e.value else '.false.') if f else ('1' if e.value else '0')
    if isinstance(e, pmbl.Sum):
        r = fullparen(e.children[0], lang)
        for c in e.children[1:]:
            r = f'({r} + {fullparen(c, lang)})'
        return r
    if isinstance(e, pmbl.Product):
        ch = e.children
        if len(ch) >= 2 and is_minus_one(ch[0]):
            r = fullparen(ch[1], lang)
            for c in ch[2:]:
                r = f'({r} * {fullparen(c, lang)})'
            return f'(-{r})'
        r = fullparen(ch[0], lang)
        for c in ch[1:]:
            r = f'({r} * {fullparen(c, lang)})'
        return r
    if isinstance(e, pmbl.Quotient):
        return f'({fullparen(e.numerator, lang)} / {fullparen(e.denominator, lang)})'
    if isinstance(e, pmbl.Power):
        if f:
            return f'({fullparen(e.base, lang)} ** {fullparen(e.exponent, lang)})'
        return f'xpow({fullparen(e.base, lang)}, {fullparen(e.exponent, lang)})'
    if isinstance(e, pmbl.Comparison):
        op = e.operator
        if f and op == '!=':
            op = '/='
        return f'({fullparen(e.left, lang)} {op} {fullparen(e.right, lang)})'
    if isinstance(e, pmbl.LogicalAnd):
        return '(' + (' .and. ' if f else ' && ').join(fullparen(c, lang) for c in e.children) + ')'
    if isinstance(e, pmbl.LogicalOr):
        return '(' + (' .or. ' if f else ' || ').join(fullparen(c, lang) for c in e.children) + ')'
    if isinstance(e, pmbl.LogicalNot):
        return f"({'.not.' if f else '!'}{fullparen(e.child, lang)})"
    if isinstance(e, sym.InlineCall):
        return f"{e.function.name}({', '.join(fullparen(a, lang) for a in e.parameters)})"
    if isinstance(e, (sym.Scalar, sym.DeferredTypeSymbol, sym.VariableSymbol)):
        return e.name
    raise NotEncoded(f'fullparen {type(e).__name__}')
