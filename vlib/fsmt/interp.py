"""Bounded symbolic interpreter of Loki IR under Fortran semantics -> z3 (guarded-update style, no state copies).

Every store is guarded by the path condition (``If(pc, new, old)``), both branches of a conditional are executed one
after the other on the same state, CYCLE/EXIT/RETURN/STOP are Boolean flags folded into the path condition.  Arrays
are finite element maps with concrete bounds (size parameters of a template are fixed per instance); scalars live in
cells so that argument association is by reference (whole variables, elements, sections/sequence association through
views).  Anything outside the supported subset raises NotEncoded (reported as *not encoded*, never as a pass).
"""
import itertools
import z3
import pymbolic.primitives as pmbl

from loki import ir
from loki.expression import symbols as sym
from loki.expression import operations as ops
from loki.types import BasicType, DerivedType, ProcedureType

from vlib.fsmt.sem import Sem
from vlib.fsmt.expr import ExprEnc, NotEncoded, is_minus_one

MAX_UNWIND = 6


# ------------------------------------------------------------------------------------------------ storage

class Cell:
    """scalar storage (by-reference association shares the cell)"""
    __slots__ = ('v', 'sort', 'name', 'present')

    def __init__(self, sort, v=None, name='?'):
        self.sort, self.v, self.name, self.present = sort, v, name, True

    def get(self, it, pc):
        if self.v is None:
            self.v = it.fresh(self.sort, f'undef_{self.name}')
        return self.v

    def set(self, val, it, pc):
        val = it.sem.coerce_store(val, self.sort)
        old = self.get(it, pc)
        self.v = val if z3.is_true(pc) else z3.If(pc, val, old)


class Arr:
    """array storage: concrete bounds, element map idx-tuple -> term"""

    def __init__(self, name, bounds, sort, elems=None):
        self.name, self.bounds, self.sort = name, list(bounds), sort
        self.elems = elems if elems is not None else {}
        self.allocated = True
        self.present = True

    @property
    def rank(self):
        return len(self.bounds)

    def index_list(self):
        rngs = [range(lo, hi + 1) for lo, hi in self.bounds]
        return [tuple(reversed(t)) for t in itertools.product(*reversed(rngs))]   # column-major element order

    def fill(self, it, prefix):
        # inputs are named by position in array element order, so that re-based declarations share their inputs
        for k, idx in enumerate(self.index_list()):
            self.elems[idx] = it.named(self.sort, f'{prefix}{self.name}_p{k + 1}')

    def _concrete(self, idx):
        out = []
        for i in idx:
            s = z3.simplify(i) if z3.is_expr(i) else z3.IntVal(i)
            if z3.is_int_value(s):
                out.append(s.as_long())
            elif z3.is_bv_value(s):
                out.append(s.as_signed_long())
            else:
                return None
        return tuple(out)

    def get(self, idx, it, pc):
        if not self.allocated:
            it.trap_if(pc, f'use of unallocated {self.name}')
            return it.fresh(self.sort, 'oob')
        c = self._concrete(idx)
        if c is not None:
            if c not in self.elems:
                it.trap_if(pc, f'{self.name}{c} out of bounds {self.bounds}')
                return it.fresh(self.sort, 'oob')
            return self.elems[c]
        res = it.fresh(self.sort, 'oob')
        inb = []
        for t, v in self.elems.items():
            cnd = z3.And(*[i == it.sem.int_lit(k) for i, k in zip(idx, t)])
            res = z3.If(cnd, v, res)
            inb.append(cnd)
        it.trap_if(z3.And(pc, z3.Not(z3.Or(*inb))) if inb else pc, f'{self.name} symbolic index out of bounds')
        return res

    def set(self, idx, val, it, pc):
        val = it.sem.coerce_store(val, self.sort)
        if not self.allocated:
            it.trap_if(pc, f'store to unallocated {self.name}')
            return
        c = self._concrete(idx)
        if c is not None:
            if c not in self.elems:
                it.trap_if(pc, f'{self.name}{c} out of bounds {self.bounds}')
                return
            self.elems[c] = val if z3.is_true(pc) else z3.If(pc, val, self.elems[c])
            return
        inb = []
        for t in list(self.elems):
            cnd = z3.And(*[i == it.sem.int_lit(k) for i, k in zip(idx, t)])
            self.elems[t] = z3.If(z3.And(pc, cnd), val, self.elems[t])
            inb.append(cnd)
        it.trap_if(z3.And(pc, z3.Not(z3.Or(*inb))) if inb else pc, f'{self.name} symbolic index out of bounds')


class View:
    """array-like window onto another array (section actual argument, sequence association, associate to a section,
    pointer to a section): own bounds, each own index tuple (concrete) maps to a base index tuple (ints or terms)"""

    def __init__(self, name, base, bounds, mapping):
        self.name, self.base, self.bounds, self.mapping = name, base, list(bounds), mapping
        self.sort = base.sort
        self.present = True

    allocated = True

    @property
    def rank(self):
        return len(self.bounds)

    def index_list(self):
        rngs = [range(lo, hi + 1) for lo, hi in self.bounds]
        return [tuple(reversed(t)) for t in itertools.product(*reversed(rngs))]

    def _resolve(self, idx, it, pc):
        c = Arr._concrete(self, idx)
        if c is None:
            raise NotEncoded(f'symbolic index into view {self.name}')
        if c not in self.mapping:
            it.trap_if(pc, f'{self.name}{c} out of bounds {self.bounds}')
            return None
        return self.mapping[c]

    def get(self, idx, it, pc):
        b = self._resolve(idx, it, pc)
        if b is None:
            return it.fresh(self.sort, 'oob')
        return self.base.get(tuple(it.sem.int_lit(x) if isinstance(x, int) else x for x in b), it, pc)

    def set(self, idx, val, it, pc):
        b = self._resolve(idx, it, pc)
        if b is not None:
            self.base.set(tuple(it.sem.int_lit(x) if isinstance(x, int) else x for x in b), val, it, pc)


class ElemCell:
    """scalar dummy associated with an array element actual"""

    def __init__(self, arr, idx):
        self.arr, self.idx, self.sort, self.present = arr, idx, arr.sort, True

    def get(self, it, pc):
        return self.arr.get(self.idx, it, pc)

    def set(self, val, it, pc):
        self.arr.set(self.idx, val, it, pc)


class DT:
    """derived-type object: component name -> Cell | Arr | DT"""

    def __init__(self, name, comps):
        self.name, self.comps, self.present = name, comps, True


class Absent:
    present = False


class Frame:
    def __init__(self, routine, host=None):
        self.routine = routine
        self.vars = {}
        self.host = host
        self.returned = z3.BoolVal(False)
        self.loops = []          # stack of dicts: name, exited, cycled
        self.stmtfuncs = {}
        self.cray = {}           # Cray pointer (integer address variable) name -> pointee array name
        self.regions = []        # address ranges handed to pointees of this frame: (lo, hi, pointee)

    def live(self, pc):
        conds = [pc, z3.Not(self.returned)]
        for l in self.loops:
            conds += [z3.Not(l['exited']), z3.Not(l['cycled'])]
        return z3.simplify(z3.And(*conds))


# ------------------------------------------------------------------------------------------------ interpreter

class Interp(ExprEnc):
    def __init__(self, sem, routines=(), modules=(), sizes=None, prefix='in_', unwind=MAX_UNWIND, events=None):
        super().__init__(sem, {})
        self.routines = {}
        for r in routines:
            self.routines[r.name.lower()] = r
        self.modules = {m.name.lower(): m for m in modules}
        for m in modules:
            for r in m.subroutines:
                self.routines.setdefault(r.name.lower(), r)
        self.sizes = {k.lower(): v for k, v in (sizes or {}).items()}
        self.prefix = prefix
        self.unwind = unwind
        self.trap = z3.BoolVal(False)
        self.aborted = z3.BoolVal(False)
        self.unwind_violation = z3.BoolVal(False)
        self.outputs = []            # list of (guard, [terms])  from PRINT (and, with trace_pragmas, pragma annotations)
        self.trace_pragmas = False   # record every pragma reached (free node, region delimiter or attached to a node)
        self.trap_reasons = []
        self._fresh = itertools.count()
        self.inputs = {}             # name -> term (all named symbolic inputs)
        self.frame = None
        self.pc = z3.BoolVal(True)
        self.modframes = {}
        self.elem = None             # (position, nelem) during elemental evaluation of array expressions
        self.events = events         # optional list: (kind, name, idx or None, guard, node) for dataflow checks
        self.cur_node = None
        self.depth = 0
        self.node_stack = []
        self.node_inst = {}
        self.entry_names = {}

    # ---- helpers
    def fresh(self, sort, tag='t'):
        return z3.Const(f'__{tag}_{next(self._fresh)}', sort)

    def named(self, sort, name):
        if name in self.inputs:
            return self.inputs[name]
        if sort == self.sem.isort and name.startswith(self.prefix):
            v = self.sem.int_var(name, self.int_bound)
        elif sort == self.sem.R:
            v = self.sem.real_const(name)
        else:
            v = z3.Const(name, sort)
        self.inputs[name] = v
        return v

    int_bound = 8

    def trap_if(self, cond, why):
        self.trap = z3.Or(self.trap, cond)
        if len(self.trap_reasons) < 20:
            self.trap_reasons.append(why)

    def sort_of_type(self, t):
        d = t.dtype
        if d == BasicType.INTEGER:
            return self.sem.isort
        if d == BasicType.REAL:
            return self.sem.R
        if d == BasicType.LOGICAL:
            return z3.BoolSort()
        raise NotEncoded(f'type {d}')

    def concrete(self, term, what='value'):
        s = z3.simplify(term)
        if z3.is_int_value(s):
            return s.as_long()
        if z3.is_bv_value(s):
            return s.as_signed_long()
        raise NotEncoded(f'non-constant {what}: {s}')

    def event(self, kind, obj, idx, guard):
        """read/write event on a storage object, attributed to the stack of entry-routine nodes being executed"""
        if self.events is None or isinstance(obj, str):
            return
        root = obj
        while True:
            if isinstance(root, View):
                root = root.base
            elif isinstance(root, ElemCell):
                root = root.arr
            else:
                break
        name = self.entry_names.get(id(root))
        if name is None:
            return
        if isinstance(obj, ElemCell):
            idx = obj.idx
        if isinstance(obj, View) and idx is not None:
            c = Arr._concrete(obj, idx)
            idx = obj.mapping.get(c) if c is not None else None
            if idx is not None:
                idx = tuple(self.sem.int_lit(x) if isinstance(x, int) else x for x in idx)
        self.events.append((kind, name, idx, guard, tuple(self.node_stack)))

    def register_entry_names(self, fr):
        self.entry_names = {}

        def reg(name, obj):
            if isinstance(obj, DT):
                for k, c in obj.comps.items():
                    reg(f'{name}%{k}', c)
            else:
                self.entry_names[id(obj)] = name
        for n, o in fr.vars.items():
            reg(n, o)

    # ---- name resolution
    def find(self, name, frame=None):
        frame = frame or self.frame
        n = name.lower()
        f = frame
        while f is not None:
            if n in f.vars:
                return f.vars[n]
            f = f.host
        # module variables through imports / parent module
        obj = self.find_module_var(n, frame)
        if obj is not None:
            return obj
        raise NotEncoded(f'unbound variable {name}')

    def find_module_var(self, n, frame):
        r = frame.routine
        scopes = []
        while r is not None:
            scopes.append(r)
            r = getattr(r, 'parent', None)
        for sc in scopes:
            for imp in getattr(sc, 'all_imports', None) or getattr(sc, 'imports', ()):
                mname = (imp.module or '').lower()
                if mname in self.modules:
                    names = [str(s).lower() for s in imp.symbols]
                    rename = {str(k).lower(): str(v).lower() for k, v in (imp.rename_list or ())} if imp.rename_list else {}
                    if not names and not rename or n in names or n in rename.values():
                        mf = self.module_frame(self.modules[mname])
                        src = n
                        for k, v in rename.items():
                            if v == n:
                                src = k
                        if src in mf.vars:
                            return mf.vars[src]
            if sc.__class__.__name__ == 'Module':
                mf = self.module_frame(sc)
                if n in mf.vars:
                    return mf.vars[n]
        return None

    def module_frame(self, mod):
        key = mod.name.lower()
        if key not in self.modframes:
            f = Frame(mod)
            self.modframes[key] = f
            saved = self.frame
            self.frame = f
            try:
                self.declare(mod.variables, f, prefix=f'{self.prefix}{key}__', is_input=True)
            finally:
                self.frame = saved
        return self.modframes[key]

    def resolve(self, e):
        """variable expression -> storage object (Cell/Arr/View/DT/...)"""
        name = e.name
        parts = name.split('%')
        obj = self.find(parts[0])
        for p in parts[1:]:
            if not isinstance(obj, DT):
                raise NotEncoded(f'component {p} of non-derived {parts[0]}')
            obj = obj.comps.get(p.lower())
            if obj is None:
                raise NotEncoded(f'unknown component {p}')
        return obj

    # ---- expression hooks
    def lookup(self, e):
        obj = self.resolve(e)
        pc = self.pc
        dims = getattr(e, 'dimensions', None)
        if isinstance(obj, Absent):
            raise NotEncoded(f'reference to absent optional {e.name}')
        if isinstance(obj, (Cell, ElemCell)):
            if dims:
                raise NotEncoded(f'subscripted scalar {e.name}')
            self.event('r', obj, None, pc)
            return obj.get(self, pc)
        if isinstance(obj, (Arr, View)):
            if dims and not any(isinstance(d, sym.RangeIndex) for d in dims):
                idx = tuple(self.enc(d) for d in dims)
                if any(not self.sem.is_int(i) for i in idx):
                    raise NotEncoded('non-integer subscript')
                self.event('r', obj, idx, pc)
                return obj.get(idx, self, pc)
            if self.elem is not None:
                combos = self.section(obj, dims)
                pos, n = self.elem
                if len(combos) != n:
                    self.trap_if(pc, f'non-conforming array expression {e}')
                    return self.fresh(obj.sort, 'nonconf')
                idx = tuple(self.sem.int_lit(i) if isinstance(i, int) else i for i in combos[pos])
                self.event('r', obj, idx, pc)
                return obj.get(idx, self, pc)
            raise NotEncoded(f'array-valued reference {e} in scalar context')
        raise NotEncoded(f'cannot read {e.name} ({type(obj).__name__})')

    def section(self, obj, dims):
        """list of index tuples (ints, or terms for scalar subscripts) denoted by a reference with ranges (or whole)"""
        if not dims:
            return obj.index_list()
        axes = []
        for d, (lo, hi) in zip(dims, obj.bounds):
            if isinstance(d, sym.RangeIndex):
                l = self.concrete(self.enc(d.lower), 'section bound') if d.lower is not None else lo
                u = self.concrete(self.enc(d.upper), 'section bound') if d.upper is not None else hi
                s = self.concrete(self.enc(d.step), 'section stride') if d.step is not None else 1
                if s == 0:
                    raise NotEncoded('zero stride')
                axes.append(list(range(l, u + (1 if s > 0 else -1), s)))
            else:
                axes.append([self.enc(d)])
        return [tuple(reversed(t)) for t in itertools.product(*reversed(axes))]

    def array_shape_of(self, e):
        """number of elements if e is array-valued (contains an array section / whole array outside subscripts)"""
        if isinstance(e, sym.Array) or (isinstance(e, (sym.Scalar, sym.DeferredTypeSymbol)) and '%' in e.name):
            try:
                obj = self.resolve(e)
            except NotEncoded:
                return None
            if isinstance(obj, (Arr, View)):
                dims = getattr(e, 'dimensions', None)
                if not dims or any(isinstance(d, sym.RangeIndex) for d in dims):
                    return len(self.section(obj, dims))
            return None
        if isinstance(e, sym.InlineCall):
            fname = str(e.function.name).lower()
            if fname in ('sum', 'maxval', 'minval', 'size', 'lbound', 'ubound', 'any', 'all', 'count', 'present',
                         'allocated', 'product', 'dot_product'):
                return None
            for a in e.parameters:
                n = self.array_shape_of(a)
                if n is not None:
                    return n
            return None
        if isinstance(e, ops.Cast):
            for a in e.parameters:
                n = self.array_shape_of(a)
                if n is not None:
                    return n
            return None
        if isinstance(e, (pmbl.Sum, pmbl.Product, pmbl.LogicalAnd, pmbl.LogicalOr)):
            for c in e.children:
                n = self.array_shape_of(c) if isinstance(c, pmbl.Expression) else None
                if n is not None:
                    return n
            return None
        if isinstance(e, pmbl.Quotient):
            return self.array_shape_of(e.numerator) or self.array_shape_of(e.denominator)
        if isinstance(e, pmbl.Power):
            return self.array_shape_of(e.base) or self.array_shape_of(e.exponent)
        if isinstance(e, pmbl.Comparison):
            return self.array_shape_of(e.left) or self.array_shape_of(e.right)
        if isinstance(e, pmbl.LogicalNot):
            return self.array_shape_of(e.child)
        return None

    def call(self, e, args_unused, kwargs_unused):
        raise AssertionError('unused')

    def enc(self, e):
        if isinstance(e, sym.InlineCall):
            return self.inline_call(e)
        if isinstance(e, sym.StringLiteral):
            raise NotEncoded('character value')
        return super().enc(e)

    def inline_call(self, e):
        fname = str(e.function.name).lower()
        params = e.parameters
        kw = dict(e.kw_parameters or {})
        if fname in ('selected_real_kind', 'selected_int_kind', 'kind'):
            return self.sem.int_lit(8)     # kind values carry no behaviour in this semantics
        if fname == 'c_sizeof':
            return self.sem.int_lit(self.bytes_of_expr(params[0]))
        if fname == 'ishft':
            a, sh = self.enc(params[0]), self.concrete(self.enc(params[1]), 'shift count')
            if sh >= 0:
                return self.sem.mul(a, self.sem.int_lit(2 ** sh))
            self.sem.defined.append(a >= 0)          # logical shift of a negative value is outside the model
            return self.sem.fdiv_floor(a, self.sem.int_lit(2 ** (-sh)))
        if fname == 'loc':
            return self.address_of(params[0])
        if fname == 'present':
            try:
                obj = self.find(params[0].name)
            except NotEncoded:
                return z3.BoolVal(False)
            return z3.BoolVal(bool(getattr(obj, 'present', True)))
        if fname == 'allocated':
            obj = self.resolve(params[0])
            return z3.BoolVal(bool(getattr(obj, 'allocated', True)))
        if fname in ('size', 'lbound', 'ubound'):
            obj = self.resolve(params[0])
            if not isinstance(obj, (Arr, View)):
                raise NotEncoded(f'{fname} of non-array')
            dims = getattr(params[0], 'dimensions', None)
            bounds = obj.bounds
            if dims and any(isinstance(d, sym.RangeIndex) for d in dims):
                # section: extents of the section; lbound is 1
                ext = []
                for d, (lo, hi) in zip(dims, obj.bounds):
                    if isinstance(d, sym.RangeIndex):
                        l = self.concrete(self.enc(d.lower)) if d.lower is not None else lo
                        u = self.concrete(self.enc(d.upper)) if d.upper is not None else hi
                        s = self.concrete(self.enc(d.step)) if d.step is not None else 1
                        ext.append(len(range(l, u + (1 if s > 0 else -1), s)))
                bounds = [(1, n) for n in ext]
            dim = params[1] if len(params) > 1 else kw.get('dim', kw.get('DIM'))
            if dim is None:
                if fname == 'size':
                    n = 1
                    for lo, hi in bounds:
                        n *= max(0, hi - lo + 1)
                    return self.sem.int_lit(n)
                if len(bounds) != 1:
                    raise NotEncoded(f'array-valued {fname}')
                dimv = 1
            else:
                dimv = self.concrete(self.enc(dim), 'dim')
            lo, hi = bounds[dimv - 1]
            return self.sem.int_lit({'size': max(0, hi - lo + 1), 'lbound': lo, 'ubound': hi}[fname])
        if fname in ('sum', 'maxval', 'minval', 'any', 'all', 'count', 'product'):
            n = self.array_shape_of(params[0])
            if n is None:
                raise NotEncoded(f'{fname} of non-array expression')
            if len(params) > 1 or kw:
                raise NotEncoded(f'{fname} with dim/mask')
            saved = self.elem
            vals = []
            try:
                for p in range(n):
                    self.elem = (p, n)
                    vals.append(self.enc(params[0]))
            finally:
                self.elem = saved
            if not vals:
                if fname == 'sum':
                    return self.sem.int_lit(0)
                raise NotEncoded(f'{fname} of empty array')
            r = vals[0]
            if fname == 'count':
                r = self.sem.ite(vals[0], self.sem.int_lit(1), self.sem.int_lit(0))
            for v in vals[1:]:
                if fname == 'sum':
                    r = self.sem.add(r, v)
                elif fname == 'product':
                    r = self.sem.mul(r, v)
                elif fname == 'maxval':
                    r = self.sem.intrinsic('max', [r, v])
                elif fname == 'minval':
                    r = self.sem.intrinsic('min', [r, v])
                elif fname == 'any':
                    r = z3.Or(r, v)
                elif fname == 'all':
                    r = z3.And(r, v)
                elif fname == 'count':
                    r = self.sem.add(r, self.sem.ite(v, self.sem.int_lit(1), self.sem.int_lit(0)))
            return r
        # statement functions
        f = self.frame
        while f is not None:
            if fname in f.stmtfuncs:
                return self.stmt_function(f.stmtfuncs[fname], params)
            f = f.host
        # user functions
        callee = self.find_routine(fname, getattr(e.function.type, 'dtype', None))
        if callee is not None:
            return self.call_routine(callee, params, tuple(kw.items()), want_result=True)
        # array read spelled as a call (unresolved symbol)?
        try:
            obj = self.find(fname)
            if isinstance(obj, (Arr, View)):
                idx = tuple(self.enc(p) for p in params)
                return obj.get(idx, self, self.pc)
        except NotEncoded:
            pass
        args = [self.enc(a) for a in params]
        if kw:
            if fname in ('real', 'int', 'nint') or set(k.lower() for k in kw) <= {'kind'}:
                pass
            else:
                raise NotEncoded(f'keyword arguments to intrinsic {fname}')
        try:
            return self.sem.intrinsic(fname, args)
        except NotImplementedError as ex:
            raise NotEncoded(str(ex)) from ex

    def stmt_function(self, sf, params):
        vals = [self.enc(p) for p in params]
        fr = Frame(self.frame.routine, host=self.frame)
        for a, v in zip(sf.arguments, vals):
            fr.vars[a.name.lower()] = Cell(v.sort(), v, a.name.lower())
        saved = self.frame
        self.frame = fr
        try:
            r = self.enc(sf.rhs)
        finally:
            self.frame = saved
        try:
            return self.sem.coerce_store(r, self.sort_of_type(sf.return_type))
        except (NotEncoded, TypeError):
            return r

    # ---- declarations
    def declare(self, variables, frame, prefix=None, is_input=False, skip=()):
        """create storage for declared variables; is_input: initial values are named symbolic inputs"""
        prefix = self.prefix if prefix is None else prefix
        pending = [v for v in variables if v.name.lower() not in skip and v.name.lower() not in frame.vars]
        # scalars first (array bounds may depend on them), parameters / size parameters concrete
        for v in [v for v in pending if not isinstance(v, sym.Array)]:
            frame.vars[v.name.lower()] = self.make_object(v, v.type, prefix, is_input, frame)
        for v in [v for v in pending if isinstance(v, sym.Array)]:
            frame.vars[v.name.lower()] = self.make_object(v, v.type, prefix, is_input, frame)

    def make_object(self, v, t, prefix, is_input, frame, qual=None):
        name = (qual or v.name).lower()
        if isinstance(t.dtype, ProcedureType):
            return Absent()
        if isinstance(t.dtype, DerivedType):
            td = t.dtype.typedef
            if td is None or td == BasicType.DEFERRED or not hasattr(td, 'variables'):
                raise NotEncoded(f'derived type {t.dtype} without definition')
            if getattr(v, 'shape', None) or isinstance(v, sym.Array):
                raise NotEncoded('array of derived type')
            comps = {}
            for c in td.variables:
                comps[c.name.lower()] = self.make_object(c, c.type, prefix, is_input, frame, qual=f'{name}__{c.name}')
            return DT(name, comps)
        sort = self.sort_of_type(t)
        # the declaration's own dimensions are authoritative (type.shape in the symbol table can be stale)
        shape = (getattr(v, 'dimensions', None) if isinstance(v, sym.Array) else None) or getattr(v, 'shape', None)
        if isinstance(v, sym.Array) or shape:
            if t.allocatable or t.pointer:
                a = Arr(name, [(1, 0)] * len(shape), sort)
                a.allocated = False
                return a
            bounds = []
            for d in shape:
                if isinstance(d, sym.RangeIndex):
                    if d.upper is None or d.lower is None and d.upper is None:
                        raise NotEncoded(f'assumed-shape local {name}')
                    lo = self.concrete(self.enc(d.lower), f'bound of {name}') if d.lower is not None else 1
                    hi = self.concrete(self.enc(d.upper), f'bound of {name}')
                else:
                    lo, hi = 1, self.concrete(self.enc(d), f'extent of {name}')
                bounds.append((lo, hi))
            a = Arr(name, bounds, sort)
            if t.initial is not None and isinstance(t.initial, sym.LiteralList):
                vals = [self.enc(x) for x in t.initial.elements]
                for idx, val in zip(a.index_list(), vals):
                    a.elems[idx] = self.sem.coerce_store(val, sort)
            elif t.initial is not None:
                val = self.sem.coerce_store(self.enc(t.initial), sort)
                for idx in a.index_list():
                    a.elems[idx] = val
            elif is_input and isinstance(self.sizes.get(name), (list, tuple)):
                # concretised input array (index arrays: section bounds / subscripts must be concrete); element order
                vals = list(self.sizes[name])
                if len(vals) != len(a.index_list()) or sort != self.sem.isort:
                    raise NotEncoded(f'concrete values for {name} do not match its declaration')
                for idx, val in zip(a.index_list(), vals):
                    a.elems[idx] = self.sem.int_lit(val)
            elif is_input:
                a.fill(self, prefix)
            else:
                for idx in a.index_list():
                    a.elems[idx] = self.fresh(sort, f'undef_{name}')
            return a
        if name in self.sizes and sort == self.sem.isort and isinstance(self.sizes[name], int):
            return Cell(sort, self.sem.int_lit(self.sizes[name]), name)
        if t.initial is not None:
            return Cell(sort, self.sem.coerce_store(self.enc(t.initial), sort), name)
        if is_input:
            return Cell(sort, self.named(sort, f'{prefix}{name}'), name)
        return Cell(sort, None, name)

    # ---- routines
    def find_routine(self, name, dtype=None):
        n = name.lower()
        r = self.frame.routine if self.frame else None
        seen = r
        while seen is not None:
            for m in getattr(seen, 'members', ()) or ():
                if m.name.lower() == n:
                    return m
            for m in getattr(seen, 'subroutines', ()) or ():
                if m.name.lower() == n:
                    return m
            seen = getattr(seen, 'parent', None)
        if n in self.routines:
            return self.routines[n]
        proc = getattr(dtype, 'procedure', None) if dtype is not None else None
        if proc is not None and proc is not BasicType.DEFERRED and hasattr(proc, 'body'):
            return proc
        return None

    def run_entry(self, routine, absent=()):
        """interpret `routine` on symbolic inputs; returns the frame (final state)"""
        fr = Frame(routine, host=self.enclosing_frame(routine))
        self.frame = fr
        self.pc = z3.BoolVal(True)
        args = list(routine.arguments)
        for a in args:
            if a.name.lower() in absent:
                fr.vars[a.name.lower()] = Absent()
        argnames = {a.name.lower() for a in args}
        params = [v for v in routine.variables if getattr(v.type, 'parameter', False) and v.name.lower() not in argnames]
        self.declare(params, fr, is_input=False)      # named constants may size the arguments
        self.declare(args, fr, is_input=True)
        self.collect_stmtfuncs(routine, fr)
        self.declare(routine.variables, fr, is_input=False)
        self.register_entry_names(fr)
        self.note_spec_pragmas(routine, self.pc)
        self.exec_body(routine.body.body, fr)
        return fr

    def note_spec_pragmas(self, routine, pc):
        if not self.trace_pragmas or routine.spec is None:
            return

        def walk(nodes):
            for n in nodes:
                if isinstance(n, ir.Pragma):
                    self.note_pragmas(n, pc)
                elif isinstance(n, ir.PragmaRegion):
                    self.note_pragmas(n.pragma, pc)
                    walk(n.body)
                    self.note_pragmas(n.pragma_post, pc)
                elif isinstance(n, (tuple, list)):
                    walk(n)
                else:
                    self.note_pragmas(getattr(n, 'pragma', None), pc)
                    if isinstance(n, ir.Section):
                        walk(n.body)
                    self.note_pragmas(getattr(n, 'pragma_post', None), pc)
        walk(routine.spec.body)

    def enclosing_frame(self, routine):
        p = getattr(routine, 'parent', None)
        if p is not None and p.__class__.__name__ == 'Module':
            return self.module_frame(p)
        return None

    def collect_stmtfuncs(self, routine, fr):
        import re as _re  # pylint: disable=import-outside-toplevel
        for n in routine.spec.body if routine.spec is not None else ():
            if isinstance(n, ir.StatementFunction):
                fr.stmtfuncs[n.variable.name.lower()] = n
            elif isinstance(n, ir.GenericStmt):
                m = _re.match(r'\s*pointer\s*\(\s*(\w+)\s*,\s*(\w+)\s*\)\s*$', str(n.text or ''), _re.I)
                if m:       # Cray pointer: integer address variable + pointee
                    fr.cray[m.group(1).lower()] = m.group(2).lower()
                    fr.vars.setdefault(m.group(1).lower(), Cell(self.sem.isort, None, m.group(1).lower()))

    def call_routine(self, callee, arguments, kwarguments, want_result=False):
        caller = self.frame
        pc = self.pc
        self.depth += 1
        if self.depth > 6:
            raise NotEncoded('call depth (recursion?)')
        is_member = any(m is callee for m in (getattr(caller.routine, 'members', ()) or ()))
        host = caller if is_member else self.enclosing_frame(callee)
        if not is_member and getattr(callee, 'parent', None) is not None and host is None:
            # member of some other routine in the call chain
            f = caller
            while f is not None:
                if any(m is callee for m in (getattr(f.routine, 'members', ()) or ())):
                    host = f
                    break
                f = f.host
        fr = Frame(callee, host=host)
        fr.caller = caller
        dummies = list(callee.arguments)
        amap = {}
        dn_all = [d.name.lower() for d in dummies]
        if len(set(dn_all)) != len(dn_all):
            dup = sorted(n for n in set(dn_all) if dn_all.count(n) > 1)
            raise NotEncoded(f'duplicate dummy argument {dup} of {callee.name}')
        for d, a in zip(dummies, arguments):
            amap[d.name.lower()] = a
        for k, a in kwarguments or ():
            if str(k).lower() in amap:
                raise NotEncoded(f'duplicate actual for dummy {str(k).lower()} of {callee.name}')
            amap[str(k).lower()] = a
        if len(arguments) > len(dummies):
            raise NotEncoded('more actual than dummy arguments')
        dnames = {d.name.lower() for d in dummies}
        params = [v for v in callee.variables if getattr(v.type, 'parameter', False) and v.name.lower() not in dnames]
        self.frame = fr
        self.declare(params, fr, is_input=False)      # named constants may size the dummies
        self.frame = caller
        # scalars first
        order = [d for d in dummies if not isinstance(d, sym.Array)] + [d for d in dummies if isinstance(d, sym.Array)]
        for d in order:
            dn = d.name.lower()
            if dn not in amap:
                if d.type.optional:
                    fr.vars[dn] = Absent()
                    continue
                raise NotEncoded(f'missing actual for {dn}')
            fr.vars[dn] = self.associate(d, amap[dn], fr, caller, pc)
        self.frame = fr
        self.collect_stmtfuncs(callee, fr)
        locals_ = [v for v in callee.variables if v.name.lower() not in fr.vars]
        self.declare(locals_, fr, is_input=False)
        saved_pc = self.pc
        try:
            self.note_spec_pragmas(callee, self.pc)
            self.exec_body(callee.body.body, fr)
        finally:
            self.frame = caller
            self.pc = saved_pc
            self.depth -= 1
        if want_result:
            rname = (getattr(callee, 'result_name', None) or callee.name).lower()
            obj = fr.vars.get(rname)
            if not isinstance(obj, Cell):
                raise NotEncoded(f'function result {rname}')
            return obj.get(self, pc)
        return None

    def associate(self, dummy, actual, fr, caller, pc):
        """argument association -> storage object visible in the callee"""
        self.frame = caller
        dn = dummy.name.lower()
        dt = dummy.type
        if isinstance(dt.dtype, ProcedureType):
            raise NotEncoded('procedure argument')
        if isinstance(dt.dtype, DerivedType):
            obj = self.resolve(actual)
            if not isinstance(obj, (DT, Absent)):
                raise NotEncoded('derived-type actual')
            return obj
        want_array = isinstance(dummy, sym.Array)
        is_var = isinstance(actual, (sym.Scalar, sym.Array, sym.DeferredTypeSymbol))
        if is_var:
            obj = self.resolve(actual)
            if isinstance(obj, Absent):
                return obj
            dims = getattr(actual, 'dimensions', None)
            if not want_array:
                if isinstance(obj, (Cell, ElemCell)):
                    return obj
                if isinstance(obj, (Arr, View)) and dims and not any(isinstance(x, sym.RangeIndex) for x in dims):
                    return ElemCell(obj, tuple(self.enc(x) for x in dims))
                raise NotEncoded(f'array actual {actual} for scalar dummy {dn}')
            if not isinstance(obj, (Arr, View)):
                raise NotEncoded(f'scalar actual {actual} for array dummy {dn}')
            return self.bind_array(dummy, obj, dims, fr)
        if want_array:
            raise NotEncoded(f'expression actual for array dummy {dn}')
        val = self.enc(actual)
        return Cell(self.sort_of_type(dt), self.sem.coerce_store(val, self.sort_of_type(dt)), dn)

    def bind_array(self, dummy, obj, dims, fr):
        """whole array / section / element (sequence association) actual -> dummy array"""
        dn = dummy.name.lower()
        # the sequence of actual elements handed over
        if not dims:
            seq = [tuple(i) for i in obj.index_list()]
            actual_bounds = list(obj.bounds)
            whole = True
        elif any(isinstance(x, sym.RangeIndex) for x in dims):
            seq = self.section(obj, dims)
            actual_bounds = None
            whole = False
        else:
            # element: sequence association starts here and runs to the end of the array
            start = tuple(self.concrete(self.enc(x), 'sequence association start') for x in dims)
            full = obj.index_list()
            if start not in full:
                self.trap_if(self.pc, f'sequence association start {start} out of bounds')
                seq = []
            else:
                seq = full[full.index(start):]
            actual_bounds = None
            whole = False
        # dummy bounds: evaluate in the callee frame (scalars already bound)
        saved = self.frame
        self.frame = fr
        try:
            shape = dummy.dimensions or dummy.shape
            bounds, assumed = [], False
            for k, d in enumerate(shape):
                if isinstance(d, sym.RangeIndex):
                    lo = self.concrete(self.enc(d.lower), f'bound of {dn}') if d.lower is not None else 1
                    if d.upper is None:
                        assumed = True
                        bounds.append((lo, None))
                    else:
                        bounds.append((lo, self.concrete(self.enc(d.upper), f'bound of {dn}')))
                elif str(d) == '*':
                    assumed = True
                    bounds.append((1, None))
                else:
                    bounds.append((1, self.concrete(self.enc(d), f'extent of {dn}')))
        finally:
            self.frame = saved
        if assumed:
            if all(b[1] is None for b in bounds):
                # assumed shape: extents of the actual (section extents for sections)
                if dims and not whole:
                    ext = []
                    for d, (lo, hi) in zip(dims, obj.bounds):
                        if isinstance(d, sym.RangeIndex):
                            l = self.concrete(self.enc(d.lower)) if d.lower is not None else lo
                            u = self.concrete(self.enc(d.upper)) if d.upper is not None else hi
                            s = self.concrete(self.enc(d.step)) if d.step is not None else 1
                            ext.append(len(range(l, u + (1 if s > 0 else -1), s)))
                else:
                    ext = [hi - lo + 1 for lo, hi in obj.bounds]
                if len(ext) != len(bounds):
                    raise NotEncoded(f'rank mismatch for assumed-shape {dn}')
                if whole and (getattr(dummy.type, 'allocatable', None) or getattr(dummy.type, 'pointer', None)):
                    # deferred-shape dummy (ALLOCATABLE / POINTER): the bounds of the actual are handed over
                    bounds = list(obj.bounds)
                else:
                    bounds = [(b[0], b[0] + n - 1) for b, n in zip(bounds, ext)]
            else:
                # assumed size: last extent from what is left
                known = 1
                for lo, hi in bounds[:-1]:
                    known *= (hi - lo + 1)
                last = len(seq) // known if known else 0
                bounds[-1] = (bounds[-1][0], bounds[-1][0] + last - 1)
        if whole and bounds == actual_bounds and isinstance(obj, Arr):
            return obj
        view = View(dn, obj, bounds, {})
        own = view.index_list()
        if len(own) > len(seq):
            self.trap_if(self.pc, f'dummy {dn} larger than actual ({len(own)} > {len(seq)})')
        for o, s in zip(own, seq):
            view.mapping[o] = s
        return view

    # ---- statements
    def exec_body(self, body, fr):
        for n in body:
            self.exec(n, fr)

    def assign_scalar(self, obj, val, pc):
        obj.set(val, self, pc)

    def exec(self, n, fr):
        if isinstance(n, (tuple, list)):
            return self.exec_body(n, fr)
        outer_pc = self.pc
        pc = z3.simplify(z3.And(fr.live(outer_pc), z3.Not(self.aborted)))
        if z3.is_false(pc):
            return None
        self.pc = pc
        self.sem.guard = pc
        prev_node = self.cur_node
        pushed = False
        if self.depth == 0:
            self.cur_node = n
            if self.events is not None:
                k = self.node_inst.get(id(n), 0)
                self.node_inst[id(n)] = k + 1
                self.node_stack.append((n, k, pc))
                pushed = True
        try:
            if self.trace_pragmas and not isinstance(n, ir.PragmaRegion):
                self.note_pragmas(getattr(n, 'pragma', None), pc)
            res = self.exec_node(n, fr, pc)
            if self.trace_pragmas and not isinstance(n, ir.PragmaRegion):
                self.note_pragmas(getattr(n, 'pragma_post', None), pc)
            return res
        finally:
            self.pc = outer_pc
            self.sem.guard = outer_pc
            self.cur_node = prev_node
            if pushed:
                self.node_stack.pop()

    # ---- addresses (Cray pointers of the pool allocator): every array object has a base address; a pointee keeps its own
    # storage (it is an ordinary local array), the address arithmetic only decides whether the region it was given lies
    # inside the allocation it was carved from and does not overlap another live pointee
    def kind_bytes(self, t):
        """storage size of one element of type t (gfortran x86-64 defaults)"""
        d = t.dtype
        k = t.kind
        if k is None:
            return 4
        ks = str(k).lower()
        if ks.isdigit():
            return int(ks)
        if ks in ('real64', 'int64', 'c_double', 'c_int64_t', 'c_long'):
            return 8
        if ks in ('real32', 'int32', 'c_float', 'c_int'):
            return 4
        try:
            obj = self.find(ks)
            init = None
            for fr in [self.frame] + list(self.modframes.values()):
                for v in getattr(fr.routine, 'variables', ()):
                    if v.name.lower() == ks and v.type.initial is not None:
                        init = v.type.initial
            _ = obj
        except NotEncoded:
            init = None
        if init is None:
            for m in self.modules.values():
                for v in m.variables:
                    if v.name.lower() == ks and v.type.initial is not None:
                        init = v.type.initial
        if isinstance(init, sym.InlineCall):
            fn = str(init.function.name).lower()
            a = [self.concrete(self.enc(x), 'kind argument') for x in init.parameters]
            if fn == 'selected_real_kind':
                return 4 if a[0] <= 6 else 8
            if fn == 'selected_int_kind':
                return 4 if a[0] <= 9 else 8
        if isinstance(init, sym.IntLiteral):
            return int(init.value)
        raise NotEncoded(f'storage size of kind {k} ({d})')

    def bytes_of_expr(self, e):
        """C_SIZEOF(REAL(1, kind=k)) / INT(1, kind=k) / LOGICAL(.true.) / a variable"""
        from loki.types import SymbolAttributes  # pylint: disable=import-outside-toplevel
        if isinstance(e, ops.Cast):
            return self.kind_bytes(SymbolAttributes(BasicType.REAL if e.name.lower() == 'real' else BasicType.INTEGER, kind=e.kind))
        if isinstance(e, sym.InlineCall):
            fn = str(e.function.name).lower()
            kw = {str(k).lower(): v for k, v in (e.kw_parameters or {}).items()}
            kind = kw.get('kind', e.parameters[1] if len(e.parameters) > 1 else None)
            if fn in ('real', 'int', 'logical'):
                return self.kind_bytes(SymbolAttributes({'real': BasicType.REAL, 'int': BasicType.INTEGER, 'logical': BasicType.LOGICAL}[fn], kind=kind))
        if hasattr(e, 'type') and e.type is not None and e.type.dtype in (BasicType.REAL, BasicType.INTEGER, BasicType.LOGICAL):
            return self.kind_bytes(e.type)
        raise NotEncoded(f'C_SIZEOF of {e}')

    def base_address(self, arr):
        if not hasattr(self, '_bases'):
            self._bases = {}
        if id(arr) not in self._bases:
            self._bases[id(arr)] = (len(self._bases) + 1) << 28
        return self._bases[id(arr)]

    def address_of(self, e):
        obj = self.resolve(e)
        if not isinstance(obj, Arr) or not obj.allocated:
            raise NotEncoded('LOC of a non-array / unallocated object')
        nbytes = self.kind_bytes(e.type)
        dims = getattr(e, 'dimensions', None) or ()
        idx = [self.concrete(self.enc(d), 'LOC subscript') for d in dims] if dims else [lo for lo, _ in obj.bounds]
        off, stride = 0, 1
        for i, (lo, hi) in zip(idx, obj.bounds):
            off += (i - lo) * stride
            stride *= max(0, hi - lo + 1)
        base = self.base_address(obj)
        if not hasattr(self, '_allocs'):
            self._allocs = {}
        self._allocs[base] = base + stride * nbytes          # one past the last byte of the allocation
        return self.sem.int_lit(base + off * nbytes)

    def cray_assign(self, fr, ipname, val, pc):
        """IP_x = <address>: the pointee x of this frame now designates [address, address + size)"""
        pointee = fr.cray[ipname]
        if not z3.is_true(z3.simplify(pc)):
            raise NotEncoded('conditional Cray pointer assignment')
        addr = self.concrete(val, 'Cray pointer value')
        arr = fr.vars.get(pointee)
        if not isinstance(arr, Arr):
            raise NotEncoded(f'pointee {pointee} is not an array')
        decl = [v for v in fr.routine.variables if v.name.lower() == pointee][0]
        n = 1
        for lo, hi in arr.bounds:
            n *= max(0, hi - lo + 1)
        size = n * self.kind_bytes(decl.type)
        allocs = getattr(self, '_allocs', {})
        owner = [b for b, end in allocs.items() if b <= addr <= end]
        if not owner:
            self.trap_if(pc, f'pointee {pointee} is given an address outside every known allocation')
        elif addr + size > allocs[owner[0]]:
            self.trap_if(pc, f'pointee {pointee} ({size} bytes at offset {addr - owner[0]}) exceeds its allocation of {allocs[owner[0]] - owner[0]} bytes')
        f = fr
        while f is not None:
            for lo, hi, other in f.regions:
                if size and lo < addr + size and addr < hi:
                    self.trap_if(pc, f'pointee {pointee} overlaps pointee {other}')
            f = getattr(f, 'caller', None)
        fr.regions = [r for r in fr.regions if r[2] != pointee] + [(addr, addr + size, pointee)]

    def note_pragmas(self, pragmas, pc):
        """pragma annotations are part of the observable trace (keyword + content, case/blank-insensitive)"""
        if pragmas is None:
            return
        if isinstance(pragmas, ir.Pragma):
            pragmas = (pragmas,)
        for p in pragmas:
            if isinstance(p, ir.Pragma):
                text = ''.join(f'!${p.keyword} {p.content or ""}'.lower().split())     # blanks are not significant
                self.outputs.append((pc, [('str', text)]))

    def exec_node(self, n, fr, pc):  # pylint: disable=too-many-branches,too-many-statements
        if isinstance(n, ir.Pragma) and self.trace_pragmas:
            return self.note_pragmas(n, pc)
        if isinstance(n, (ir.Comment, ir.CommentBlock, ir.Pragma, ir.VariableDeclaration, ir.ProcedureDeclaration,
                          ir.Import, ir.Interface, ir.TypeDef, ir.StatementFunction, ir.PreprocessorDirective)):
            return
        if isinstance(n, ir.Associate):
            return self.exec_associate(n, fr, pc)
        if isinstance(n, ir.PragmaRegion):
            if self.trace_pragmas:
                self.note_pragmas(n.pragma, pc)
            self.exec_body(n.body, fr)
            if self.trace_pragmas:
                self.note_pragmas(n.pragma_post, z3.simplify(z3.And(fr.live(self.pc), z3.Not(self.aborted))))
            return None
        if isinstance(n, ir.Section):
            return self.exec_body(n.body, fr)
        if isinstance(n, ir.Assignment):
            if n.ptr:
                return self.exec_pointer_assignment(n, fr, pc)
            return self.exec_assignment(n.lhs, n.rhs, pc)
        if isinstance(n, ir.ConditionalAssignment):
            c = self.enc(n.condition)
            self.pc = z3.And(pc, c)
            self.exec_assignment(n.lhs, n.rhs, self.pc)
            self.pc = z3.And(pc, z3.Not(c))
            self.exec_assignment(n.lhs, n.else_rhs, self.pc)
            self.pc = pc
            return
        if isinstance(n, ir.Conditional):
            c = self.enc(n.condition)
            if not self.sem.is_bool(c):
                raise NotEncoded('non-logical condition')
            self.pc = z3.And(pc, c)
            self.exec_body(n.body, fr)
            self.pc = z3.And(pc, z3.Not(c))
            self.exec_body(n.else_body or (), fr)
            self.pc = pc
            return
        if isinstance(n, ir.MultiConditional):
            sel = self.enc(n.expr)
            taken = z3.BoolVal(False)
            for vals, body in zip(n.values, n.bodies):
                conds = []
                for v in vals:
                    if isinstance(v, (sym.RangeIndex, sym.Range)):
                        cs = []
                        if v.lower is not None:
                            cs.append(self.sem.cmp('>=', sel, self.enc(v.lower)))
                        if v.upper is not None:
                            cs.append(self.sem.cmp('<=', sel, self.enc(v.upper)))
                        conds.append(z3.And(*cs) if cs else z3.BoolVal(True))
                    else:
                        conds.append(self.sem.cmp('==', sel, self.enc(v)))
                c = z3.And(z3.Or(*conds), z3.Not(taken))
                self.pc = z3.And(pc, c)
                self.exec_body(body, fr)
                taken = z3.Or(taken, c)
            self.pc = z3.And(pc, z3.Not(taken))
            self.exec_body(n.else_body or (), fr)
            self.pc = pc
            return
        if isinstance(n, ir.MaskedStatement):
            return self.exec_where(n, fr, pc)
        if isinstance(n, ir.Loop):
            return self.exec_loop(n, fr, pc)
        if isinstance(n, ir.WhileLoop):
            return self.exec_while(n, fr, pc)
        if isinstance(n, ir.CallStatement):
            return self.exec_call(n, fr, pc)
        if isinstance(n, ir.Allocation):
            for v in n.variables:
                obj = self.resolve(v)
                if not isinstance(obj, Arr) or n.data_source is not None:
                    raise NotEncoded('allocation form')
                if not z3.is_true(z3.simplify(pc)):
                    raise NotEncoded('conditional allocation')
                bounds = []
                for d in v.dimensions:
                    if isinstance(d, sym.RangeIndex):
                        bounds.append((self.concrete(self.enc(d.lower)) if d.lower is not None else 1,
                                       self.concrete(self.enc(d.upper))))
                    else:
                        bounds.append((1, self.concrete(self.enc(d))))
                obj.bounds = bounds
                obj.elems = {}
                obj.allocated = True
                for idx in obj.index_list():
                    obj.elems[idx] = self.fresh(obj.sort, f'undef_{obj.name}')
            return
        if isinstance(n, ir.Deallocation):
            for v in n.variables:
                obj = self.resolve(v)
                if isinstance(obj, Arr):
                    if not z3.is_true(z3.simplify(pc)):
                        raise NotEncoded('conditional deallocation')
                    obj.allocated = False
            return
        if isinstance(n, ir.PrintStmt):
            vals = []
            for v in n.values[1:]:
                if isinstance(v, str) or isinstance(v, sym.StringLiteral):
                    vals.append(('str', str(v)))
                else:
                    k = self.array_shape_of(v)
                    if k is not None:
                        saved = self.elem
                        try:
                            for p in range(k):
                                self.elem = (p, k)
                                vals.append(('val', self.enc(v)))
                        finally:
                            self.elem = saved
                    else:
                        vals.append(('val', self.enc(v)))
            self.outputs.append((pc, vals))
            return
        if isinstance(n, ir.ReturnStmt):
            fr.returned = z3.Or(fr.returned, pc)
            return
        if isinstance(n, ir.StopStmt):
            self.aborted = z3.Or(self.aborted, pc)
            fr.returned = z3.Or(fr.returned, pc)
            f = fr.host
            return
        if isinstance(n, ir.CycleStmt):
            tgt = self.loop_target(fr, n.text)
            tgt['cycled'] = z3.Or(tgt['cycled'], pc)
            # inner loops between are exited
            for l in fr.loops[fr.loops.index(tgt) + 1:]:
                l['exited'] = z3.Or(l['exited'], pc)
            return
        if isinstance(n, ir.ExitStmt):
            tgt = self.loop_target(fr, n.text)
            for l in fr.loops[fr.loops.index(tgt):]:
                l['exited'] = z3.Or(l['exited'], pc)
            return
        if isinstance(n, ir.ContinueStmt):
            return
        if isinstance(n, (ir.ImplicitStmt, ir.SaveStmt, ir.PublicStmt, ir.PrivateStmt, ir.ContainsStmt, ir.FormatStmt)):
            return
        if isinstance(n, ir.GenericStmt):
            t = str(n.text or '').strip().lower()
            if t.startswith(('implicit', 'contains', 'save', 'format', 'external', 'intrinsic')):
                return
            if t.startswith(('print', 'write')):
                self.outputs.append((pc, [('str', t)]))      # free-text output statement: recorded verbatim
                return
            if t.startswith(('stop', 'error stop')):
                self.aborted = z3.Or(self.aborted, pc)
                fr.returned = z3.Or(fr.returned, pc)
                return
            raise NotEncoded(f'intrinsic statement {n.text!r}')
        raise NotEncoded(f'IR node {type(n).__name__}')

    def loop_target(self, fr, text):
        if not fr.loops:
            raise NotEncoded('exit/cycle outside loop')
        name = str(text).strip().lower() if text not in (None, '') else ''
        if name and not name.isdigit():
            for l in reversed(fr.loops):
                if (l['name'] or '').lower() == name:
                    return l
            raise NotEncoded(f'exit/cycle target {name}')
        return fr.loops[-1]

    def exec_assignment(self, lhs, rhs, pc):
        if self.frame.cray and getattr(lhs, 'name', '').lower() in self.frame.cray:
            val = self.enc(rhs)
            self.frame.vars[lhs.name.lower()].set(val, self, pc)
            return self.cray_assign(self.frame, lhs.name.lower(), val, pc)
        obj = self.resolve(lhs)
        if isinstance(obj, Absent):
            raise NotEncoded('assignment to absent optional')
        dims = getattr(lhs, 'dimensions', None)
        if isinstance(obj, (Cell, ElemCell)):
            val = self.enc(rhs)
            self.event('w', obj, None, pc)
            obj.set(val, self, pc)
            return
        if isinstance(obj, (Arr, View)):
            if dims and not any(isinstance(d, sym.RangeIndex) for d in dims):
                idx = tuple(self.enc(d) for d in dims)
                val = self.enc(rhs)
                self.event('w', obj, idx, pc)
                obj.set(idx, val, self, pc)
                return
            combos = self.section(obj, dims)
            n = len(combos)
            rn = self.array_shape_of(rhs)
            saved = self.elem
            vals = []
            try:
                for p in range(n):
                    self.elem = (p, n) if rn is not None else None
                    vals.append(self.enc(rhs))      # Fortran: the right-hand side is evaluated completely first
            finally:
                self.elem = saved
            if rn is not None and rn != n:
                self.trap_if(pc, f'non-conforming assignment to {lhs}')
            for c, v in zip(combos, vals):
                idx = tuple(self.sem.int_lit(i) if isinstance(i, int) else i for i in c)
                self.event('w', obj, idx, pc)
                obj.set(idx, v, self, pc)
            return
        if isinstance(obj, DT):
            src = self.resolve(rhs) if isinstance(rhs, (sym.Scalar, sym.DeferredTypeSymbol)) else None
            if not isinstance(src, DT):
                raise NotEncoded('derived-type assignment form')
            self.copy_dt(obj, src, pc)
            return
        raise NotEncoded(f'assignment to {type(obj).__name__}')

    def copy_dt(self, dst, src, pc):
        for k, d in dst.comps.items():
            s = src.comps[k]
            if isinstance(d, Cell):
                d.set(s.get(self, pc), self, pc)
            elif isinstance(d, Arr):
                for idx in d.index_list():
                    d.set(tuple(self.sem.int_lit(i) for i in idx), s.get(tuple(self.sem.int_lit(i) for i in idx), self, pc), self, pc)
            elif isinstance(d, DT):
                self.copy_dt(d, s, pc)

    def exec_pointer_assignment(self, n, fr, pc):
        if not z3.is_true(z3.simplify(pc)):
            raise NotEncoded('conditional pointer assignment')
        tgt = self.resolve(n.rhs)
        name = n.lhs.name.lower()
        if '%' in name:
            raise NotEncoded('pointer component')
        if isinstance(tgt, (Arr, View)):
            dims = getattr(n.rhs, 'dimensions', None)
            if dims and any(isinstance(d, sym.RangeIndex) for d in dims):
                seq = self.section(tgt, dims)
                ext = []
                for d, (lo, hi) in zip(dims, tgt.bounds):
                    if isinstance(d, sym.RangeIndex):
                        l = self.concrete(self.enc(d.lower)) if d.lower is not None else lo
                        u = self.concrete(self.enc(d.upper)) if d.upper is not None else hi
                        s = self.concrete(self.enc(d.step)) if d.step is not None else 1
                        ext.append(len(range(l, u + (1 if s > 0 else -1), s)))
                ldims = getattr(n.lhs, 'dimensions', None)
                if ldims:
                    bounds = [(self.concrete(self.enc(d.lower)), self.concrete(self.enc(d.upper))) for d in ldims]
                else:
                    bounds = [(1, k) for k in ext]
                v = View(name, tgt, bounds, {})
                for o, s in zip(v.index_list(), seq):
                    v.mapping[o] = s
                self.bind_name(fr, name, v)
            else:
                self.bind_name(fr, name, tgt)
            return
        if isinstance(tgt, (Cell, ElemCell, DT)):
            self.bind_name(fr, name, tgt)
            return
        raise NotEncoded('pointer assignment form')

    def bind_name(self, fr, name, obj):
        f = fr
        while f is not None:
            if name in f.vars:
                f.vars[name] = obj
                return
            f = f.host
        fr.vars[name] = obj

    def exec_associate(self, n, fr, pc):
        saved = {}
        for expr, name in n.associations:
            nm = name.name.lower()
            saved[nm] = fr.vars.get(nm, '__none__')
            if isinstance(expr, (sym.Scalar, sym.Array, sym.DeferredTypeSymbol)):
                obj = self.resolve(expr)
                dims = getattr(expr, 'dimensions', None)
                if isinstance(obj, (Arr, View)) and dims:
                    if any(isinstance(d, sym.RangeIndex) for d in dims):
                        seq = self.section(obj, dims)
                        ext = []
                        for d, (lo, hi) in zip(dims, obj.bounds):
                            if isinstance(d, sym.RangeIndex):
                                l = self.concrete(self.enc(d.lower)) if d.lower is not None else lo
                                u = self.concrete(self.enc(d.upper)) if d.upper is not None else hi
                                s = self.concrete(self.enc(d.step)) if d.step is not None else 1
                                ext.append(len(range(l, u + (1 if s > 0 else -1), s)))
                        v = View(nm, obj, [(1, k) for k in ext], {})
                        for o, s in zip(v.index_list(), seq):
                            v.mapping[o] = s
                        obj = v
                    else:
                        obj = ElemCell(obj, tuple(self.enc(d) for d in dims))
                fr.vars[nm] = obj
            else:
                val = self.enc(expr)
                fr.vars[nm] = Cell(val.sort(), val, nm)
        try:
            self.exec_body(n.body, fr)
        finally:
            for nm, old in saved.items():
                if old == '__none__':
                    fr.vars.pop(nm, None)
                else:
                    fr.vars[nm] = old

    def exec_where(self, n, fr, pc):
        # shape from the first mask
        k = self.array_shape_of(n.conditions[0])
        if k is None:
            raise NotEncoded('scalar WHERE mask')
        saved = self.elem
        try:
            masks = []
            for c in n.conditions:
                row = []
                for p in range(k):
                    self.elem = (p, k)
                    row.append(self.enc(c))
                masks.append(row)
        finally:
            self.elem = saved
        pending = [z3.BoolVal(True)] * k
        blocks = list(zip(masks, n.bodies)) + ([(None, n.default)] if n.default else [])
        for mask, body in blocks:
            eff = [z3.And(pending[p], mask[p]) if mask is not None else pending[p] for p in range(k)]
            for st in body:
                if isinstance(st, (ir.Comment, ir.CommentBlock)):
                    continue
                if not isinstance(st, ir.Assignment):
                    raise NotEncoded(f'{type(st).__name__} inside WHERE')
                obj = self.resolve(st.lhs)
                if not isinstance(obj, (Arr, View)):
                    raise NotEncoded('scalar assignment inside WHERE')
                combos = self.section(obj, getattr(st.lhs, 'dimensions', None))
                if len(combos) != k:
                    self.trap_if(pc, 'non-conforming WHERE assignment')
                    continue
                vals = []
                saved = self.elem
                try:
                    for p in range(k):
                        self.elem = (p, k)
                        self.pc = z3.And(pc, eff[p])
                        vals.append(self.enc(st.rhs))
                finally:
                    self.elem = saved
                    self.pc = pc
                for p, (c, v) in enumerate(zip(combos, vals)):
                    idx = tuple(self.sem.int_lit(i) if isinstance(i, int) else i for i in c)
                    g = z3.And(pc, eff[p])
                    self.event('w', obj, idx, g)
                    obj.set(idx, v, self, g)
            if mask is not None:
                pending = [z3.And(pending[p], z3.Not(mask[p])) for p in range(k)]

    def exec_loop(self, n, fr, pc):
        var = self.resolve(n.variable)
        if not isinstance(var, Cell):
            raise NotEncoded('loop variable')
        start, stop = self.enc(n.bounds.start), self.enc(n.bounds.stop)
        step = self.enc(n.bounds.step) if n.bounds.step is not None else self.sem.int_lit(1)
        loop = {'name': getattr(n, 'name', None), 'exited': z3.BoolVal(False), 'cycled': z3.BoolVal(False)}
        try:
            s0, e0, st0 = self.concrete(start), self.concrete(stop), self.concrete(step)
            if st0 == 0:
                raise NotEncoded('zero loop step')
            cnt = max(0, (e0 - s0 + st0) // st0) if st0 > 0 else max(0, (s0 - e0 - st0) // (-st0))
            if cnt > 64:
                raise NotEncoded(f'loop trip count {cnt}')
            fr.loops.append(loop)
            try:
                for k in range(cnt):
                    loop['cycled'] = z3.BoolVal(False)
                    g = fr.live(pc)
                    if z3.is_false(g):
                        break
                    self.event('w', var, None, g)
                    var.set(self.sem.int_lit(s0 + k * st0), self, g)
                    self.pc = pc
                    mark = self.events is not None and self.depth == 0
                    if mark:
                        self.node_stack.append((n, ('iter', k), pc))
                    try:
                        self.exec_body(n.body, fr)
                    finally:
                        if mark:
                            self.node_stack.pop()
            finally:
                fr.loops.pop()
            # value after normal termination (not after EXIT)
            g = z3.simplify(z3.And(fr.live(pc), z3.Not(loop['exited'])))
            var.set(self.sem.int_lit(s0 + cnt * st0), self, g)
            self.pc = pc
            return
        except NotEncoded as ex:
            if 'non-constant' not in str(ex):
                raise
        # symbolic bounds: bounded unrolling with unwinding assertion; step must be concrete
        st0 = self.concrete(step, 'loop step')
        fr.loops.append(loop)
        try:
            cur = start
            done = z3.BoolVal(False)
            for k in range(self.unwind + 1):
                loop['cycled'] = z3.BoolVal(False)
                cond = self.sem.cmp('<=', cur, stop) if st0 > 0 else self.sem.cmp('>=', cur, stop)
                g = z3.And(fr.live(pc), z3.Not(done), cond)
                if k == self.unwind:
                    self.unwind_violation = z3.Or(self.unwind_violation, g)
                    break
                var.set(cur, self, z3.And(fr.live(pc), z3.Not(done)))
                done = z3.Or(done, z3.Not(cond))
                self.pc = z3.And(pc, z3.Not(done))
                self.exec_body(n.body, fr)
                cur = self.sem.add(cur, self.sem.int_lit(st0))
        finally:
            fr.loops.pop()
            self.pc = pc

    def exec_while(self, n, fr, pc):
        loop = {'name': getattr(n, 'name', None), 'exited': z3.BoolVal(False), 'cycled': z3.BoolVal(False)}
        fr.loops.append(loop)
        try:
            done = z3.BoolVal(False)
            for k in range(self.unwind + 1):
                loop['cycled'] = z3.BoolVal(False)
                self.pc = z3.And(pc, z3.Not(done))
                cond = self.enc(n.condition) if n.condition is not None else z3.BoolVal(True)
                g = z3.And(fr.live(self.pc), cond)
                if k == self.unwind:
                    self.unwind_violation = z3.Or(self.unwind_violation, g)
                    break
                done = z3.Or(done, z3.Not(cond))
                self.pc = z3.And(pc, z3.Not(done))
                if z3.is_false(z3.simplify(fr.live(self.pc))):
                    break
                self.exec_body(n.body, fr)
        finally:
            fr.loops.pop()
            self.pc = pc

    def exec_call(self, n, fr, pc):
        name = str(n.name).lower()
        if name in ('abort', 'abor1', 'exit'):
            self.aborted = z3.Or(self.aborted, pc)
            fr.returned = z3.Or(fr.returned, pc)
            return
        callee = None
        if getattr(n, 'routine', None) is not None and n.routine is not BasicType.DEFERRED and hasattr(n.routine, 'body'):
            callee = n.routine
        if callee is None or callee.body is None:
            callee = self.find_routine(name) or callee
        if callee is None or getattr(callee, 'body', None) is None:
            raise NotEncoded(f'call to unknown routine {name}')
        self.call_routine(callee, n.arguments, n.kwarguments)


# ------------------------------------------------------------------------------------------------ observation

def observable(it, fr, routine, include_locals=(), intents=None):
    """ordered list of (label, term) describing what a caller can observe after the routine returned"""
    out = []

    def add(label, obj):
        if isinstance(obj, (Cell, ElemCell)):
            out.append((label, obj.get(it, z3.BoolVal(True))))
        elif isinstance(obj, (Arr, View)):
            if not obj.allocated:
                out.append((label + ':allocated', z3.BoolVal(False)))
                return
            # elements are labelled by their position in array element order (not by index values), so that
            # transformations which re-base the declared bounds keep the same observable signature
            for k, idx in enumerate(obj.index_list()):
                out.append((f'{label}[#{k + 1}]', obj.get(tuple(it.sem.int_lit(i) for i in idx), it, z3.BoolVal(True))))
        elif isinstance(obj, DT):
            for k, c in obj.comps.items():
                add(f'{label}%{k}', c)
    for a in routine.arguments:
        intent = (a.type.intent or '').lower()
        if intents is not None and a.name.lower() in intents:
            intent = (intents[a.name.lower()] or '').lower()   # the original's declared intents decide what is observable
        obj = fr.vars.get(a.name.lower())
        if intent == 'in' or obj is None or isinstance(obj, Absent):
            continue
        add(a.name.lower(), obj)
    if getattr(routine, 'is_function', False):
        rname = (getattr(routine, 'result_name', None) or routine.name).lower()
        if rname in fr.vars:
            add(rname, fr.vars[rname])
    for n in include_locals:
        if n.lower() in fr.vars:
            add(n.lower(), fr.vars[n.lower()])
    for key, mf in sorted(it.modframes.items()):
        params = {v.name.lower() for v in mf.routine.variables if getattr(v.type, 'parameter', False)}
        for n, obj in sorted(mf.vars.items()):
            if n not in params:
                add(f'{key}::{n}', obj)
    return out
