"""Fortran / C / Python value semantics as z3 terms.

Kinds are read off the z3 sort: Int -> INTEGER, Real (or the uninterpreted sort R in 'uf' mode) -> REAL, Bool -> LOGICAL.
Every partial operation (division, power) contributes a *definedness* condition to ``self.defined``; checks assume
their conjunction (the properties quantify over valuations with non-zero divisors and small exponents).
"""
import z3

PMAX = 3  # integer exponents are encoded for 0..PMAX (stated bound)


class Sem:
    def __init__(self, real_mode='real', lang='fortran'):
        assert real_mode in ('real', 'uf')
        self.real_mode = real_mode
        self.lang = lang            # 'fortran' | 'c' | 'python'
        self.defined = []           # list of Bool terms that must hold for the evaluation to be defined / in bound
        if real_mode == 'uf':
            self.R = z3.DeclareSort('R')
            R, I, B = self.R, z3.IntSort(), z3.BoolSort()
            self.f = {
                'add': z3.Function('fadd', R, R, R), 'mul': z3.Function('fmul', R, R, R),
                'div': z3.Function('fdiv', R, R, R), 'neg': z3.Function('fneg', R, R),
                'powi': z3.Function('fpowi', R, I, R), 'powr': z3.Function('fpowr', R, R, R),
                'i2r': z3.Function('i2r', I, R), 'lt': z3.Function('flt', R, R, B),
                'le': z3.Function('fle', R, R, B), 'r2i': z3.Function('r2i', R, I),
                'abs': z3.Function('fabs', R, R), 'max': z3.Function('fmax', R, R, R),
                'min': z3.Function('fmin', R, R, R), 'mod': z3.Function('fmod', R, R, R),
                'sign': z3.Function('fsign', R, R, R), 'lit': z3.Function('flit', z3.StringSort(), R),
                'nint': z3.Function('fnint', R, I), 'sqrt': z3.Function('fsqrt', R, R),
                'exp': z3.Function('fexp', R, R),
            }
        else:
            self.R = z3.RealSort()
            R = self.R
            self.f = {'powr': z3.Function('rpowr', R, R, R), 'sqrt': z3.Function('rsqrt', R, R),
                      'exp': z3.Function('rexp', R, R)}

    # ---- kinds
    @staticmethod
    def is_int(t):
        return z3.is_expr(t) and t.sort() == z3.IntSort()

    @staticmethod
    def is_bool(t):
        return z3.is_expr(t) and t.sort() == z3.BoolSort()

    def is_real(self, t):
        return z3.is_expr(t) and t.sort() == self.R

    def real_const(self, name):
        return z3.Const(name, self.R)

    def int_lit(self, v):
        return z3.IntVal(int(v))

    def real_lit(self, text):
        """text: Fortran/C real literal such as 1.5, 2., 1.0e-3, 3.d0, 1._jprb (kind suffix already stripped)"""
        t = text.lower().replace('d', 'e')
        if self.real_mode == 'uf':
            # identical decimal value -> identical constant; '1.0' and '1.00' are the same number in any arithmetic
            return self.f['lit'](z3.StringVal(repr(float(t))))
        from fractions import Fraction  # pylint: disable=import-outside-toplevel
        from decimal import Decimal  # pylint: disable=import-outside-toplevel
        fr = Fraction(Decimal(t))
        return z3.RealVal(f'{fr.numerator}/{fr.denominator}')

    def to_real(self, t):
        if self.is_real(t):
            return t
        assert self.is_int(t), t
        if self.real_mode == 'uf':
            return self.f['i2r'](t)
        return z3.ToReal(t)

    def to_int_trunc(self, t):
        """INT(x) / C cast: truncation toward zero"""
        if self.is_int(t):
            return t
        if self.real_mode == 'uf':
            return self.f['r2i'](t)
        fl = z3.ToInt(t)  # floor
        return z3.If(z3.Or(t >= 0, z3.ToReal(fl) == t), fl, fl + 1)

    def unify(self, a, b):
        if self.is_int(a) and self.is_int(b):
            return a, b, 'i'
        if self.is_bool(a) or self.is_bool(b):
            if self.is_bool(a) and self.is_bool(b):
                return a, b, 'b'
            raise TypeError('logical/numeric mix')
        return self.to_real(a), self.to_real(b), 'r'

    # ---- arithmetic
    def add(self, a, b):
        a, b, k = self.unify(a, b)
        if k == 'b':
            raise TypeError('logical +')
        if k == 'r' and self.real_mode == 'uf':
            return self.f['add'](a, b)
        return a + b

    def neg(self, a):
        if self.is_bool(a):
            raise TypeError('logical neg')
        if self.is_real(a) and self.real_mode == 'uf':
            return self.f['neg'](a)
        return -a

    def sub(self, a, b):
        return self.add(a, self.neg(b))

    def mul(self, a, b):
        a, b, k = self.unify(a, b)
        if k == 'b':
            raise TypeError('logical *')
        if k == 'r' and self.real_mode == 'uf':
            return self.f['mul'](a, b)
        return a * b

    @staticmethod
    def tdiv(a, b):
        """truncating integer division built from z3's Euclidean div/mod"""
        q, r = a / b, a % b
        return z3.If(z3.Or(a >= 0, r == 0), q, z3.If(b > 0, q + 1, q - 1))

    @staticmethod
    def fdiv_floor(a, b):
        q, r = a / b, a % b   # euclid: 0 <= r < |b|
        return z3.If(z3.Or(b > 0, r == 0), q, q - 1)  # floor(a/b): for b<0 and r!=0 euclid q = ceil -> q-1

    def div(self, a, b):
        a, b, k = self.unify(a, b)
        if k == 'b':
            raise TypeError('logical /')
        if k == 'i':
            self.defined.append(b != 0)
            if self.lang == 'python':
                # Python '/' on ints is true division
                return z3.ToReal(a) / z3.ToReal(b) if self.real_mode == 'real' else \
                    self.f['div'](self.f['i2r'](a), self.f['i2r'](b))
            return self.tdiv(a, b)
        if self.real_mode == 'uf':
            return self.f['div'](a, b)
        self.defined.append(b != 0)
        return a / b

    def floordiv(self, a, b):
        assert self.is_int(a) and self.is_int(b)
        self.defined.append(b != 0)
        return self.fdiv_floor(a, b)

    def power(self, a, b):
        if self.is_bool(a) or self.is_bool(b):
            raise TypeError('logical **')
        if self.is_int(b):
            self.defined.append(z3.And(b >= 0, b <= PMAX))
            if self.is_real(a) and self.real_mode == 'uf':
                return self.f['powi'](a, b)
            one = z3.IntVal(1) if self.is_int(a) else z3.RealVal(1)
            res, acc = one, one
            chain = []
            for e in range(0, PMAX + 1):
                chain.append((e, acc))
                acc = acc * a
            res = chain[-1][1]
            for e, v in reversed(chain[:-1]):
                res = z3.If(b == e, v, res)
            return z3.simplify(res) if z3.is_int_value(z3.simplify(b)) else res
        a = self.to_real(a)
        return self.f['powr'](a, b)

    # ---- relations
    def cmp(self, op, a, b):
        a, b, k = self.unify(a, b)
        if k == 'b':
            if op in ('==', '.eqv.'):
                return a == b
            if op in ('!=', '.neqv.'):
                return a != b
            raise TypeError('ordering on logical')
        if k == 'r' and self.real_mode == 'uf':
            lt, le = self.f['lt'], self.f['le']
            return {'==': a == b, '!=': a != b, '<': lt(a, b), '<=': le(a, b), '>': lt(b, a), '>=': le(b, a)}[op]
        return {'==': a == b, '!=': a != b, '<': a < b, '<=': a <= b, '>': a > b, '>=': a >= b}[op]

    def land(self, *xs):
        for x in xs:
            if not self.is_bool(x):
                raise TypeError('non-logical .and.')
        return z3.And(*xs)

    def lor(self, *xs):
        for x in xs:
            if not self.is_bool(x):
                raise TypeError('non-logical .or.')
        return z3.Or(*xs)

    def lnot(self, x):
        if not self.is_bool(x):
            raise TypeError('non-logical .not.')
        return z3.Not(x)

    # ---- intrinsics
    def intrinsic(self, name, args, kwargs=None):
        name = name.lower()
        uf = self.real_mode == 'uf'
        if name in ('max', 'min', 'amax1', 'amin1', 'max0', 'min0', 'dmax1', 'dmin1'):
            base = 'max' if 'max' in name else 'min'
            r = args[0]
            for x in args[1:]:
                r, x, k = self.unify(r, x)
                if k == 'r' and uf:
                    r = self.f[base](r, x)
                else:
                    r = z3.If(r >= x, r, x) if base == 'max' else z3.If(r <= x, r, x)
            return r
        if name in ('abs', 'iabs', 'dabs'):
            a = args[0]
            if self.is_real(a) and uf:
                return self.f['abs'](a)
            return z3.If(a >= 0, a, -a)
        if name == 'mod':
            a, b, k = self.unify(args[0], args[1])
            if k == 'i':
                self.defined.append(b != 0)
                return a - self.tdiv(a, b) * b
            if uf:
                return self.f['mod'](a, b)
            self.defined.append(b != 0)
            q = a / b
            fl = z3.ToInt(q)
            tq = z3.If(z3.Or(q >= 0, z3.ToReal(fl) == q), fl, fl + 1)
            return a - z3.ToReal(tq) * b
        if name == 'modulo':
            a, b, k = self.unify(args[0], args[1])
            if k == 'i':
                self.defined.append(b != 0)
                return a - self.fdiv_floor(a, b) * b
            raise NotImplementedError('real modulo')
        if name in ('sign', 'isign', 'dsign'):
            a, b, k = self.unify(args[0], args[1])
            if k == 'r' and uf:
                return self.f['sign'](a, b)
            absa = z3.If(a >= 0, a, -a)
            return z3.If(b >= 0, absa, -absa)
        if name == 'merge':
            t, f_, _ = self.unify(args[0], args[1])
            return z3.If(args[2], t, f_)
        if name in ('int', 'ifix', 'idint'):
            return self.to_int_trunc(args[0])
        if name in ('real', 'float', 'dble', 'sngl'):
            return self.to_real(args[0])
        if name == 'nint':
            a = args[0]
            if self.is_int(a):
                return a
            if uf:
                return self.f['nint'](a)
            half = z3.RealVal('1/2')
            return z3.If(a >= 0, z3.ToInt(a + half), -z3.ToInt(-a + half))
        if name in ('sqrt', 'exp', 'dsqrt', 'dexp'):
            return self.f[name.lstrip('d') if name.startswith('d') else name](self.to_real(args[0]))
        raise NotImplementedError(f'intrinsic {name}')

    def coerce_store(self, val, sort):
        """value conversion on assignment to a variable of z3 sort ``sort``"""
        if val.sort() == sort:
            return val
        if sort == z3.IntSort():
            return self.to_int_trunc(val)
        if sort == self.R:
            return self.to_real(val)
        raise TypeError(f'cannot store {val.sort()} into {sort}')
