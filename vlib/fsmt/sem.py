"""Fortran / C / Python value semantics as z3 terms.

Kinds are read off the z3 sort: Int -> INTEGER, Real (or the uninterpreted sort R in 'uf' mode) -> REAL, Bool -> LOGICAL.
Every partial operation (division, power) contributes a *definedness* condition to ``self.defined``; checks assume
their conjunction (the properties quantify over valuations with non-zero divisors and small exponents).
"""
import z3

PMAX = 3  # integer exponents are encoded for -PMAX..PMAX (stated bound)


class NeedIntMode(Exception):
    """raised in bit-vector mode when an operation needs mathematical integers / reals"""


class _Guarded(list):
    """list of definedness conditions; each appended condition is weakened by the current guard (path condition)"""

    def __init__(self, sem):
        super().__init__()
        self._sem = sem

    def append(self, cond):
        g = self._sem.guard
        super().append(cond if g is None or z3.is_true(g) else z3.Implies(g, cond))


class Sem:
    """int_mode 'int': INTEGER -> z3 Int (magnitudes of all intermediate integer values are tracked in ``max_mag``).
    int_mode 'bv': INTEGER -> signed BitVec(width); sound only if width > log2(max_mag)+1 as computed by a previous
    'int' pass over the same expression (vlib.fsmt.solve.prove does exactly that)."""

    def __init__(self, real_mode='real', lang='fortran', int_mode='int', width=None):
        assert real_mode in ('real', 'uf')
        self.real_mode = real_mode
        self.lang = lang            # 'fortran' | 'c' | 'python'
        self.int_mode = int_mode
        self.width = width
        # 'asreal': INTEGER-typed variables and literals are read as exact rationals (used to tell apart rewrites that
        # are valid over the rationals but not under truncating division)
        if int_mode == 'int':
            self.isort = z3.IntSort()
        elif int_mode == 'asreal':
            self.isort = z3.RealSort()
        else:
            self.isort = z3.BitVecSort(width)
        self.defined = _Guarded(self)  # Bool terms that must hold for the evaluation to be defined / in bound
        self.guard = None           # optional path condition under which the current operations execute
        self.ranges = []            # range constraints of declared variables / uninterpreted applications
        self.int_vars = []
        self._mag = {}              # term id -> magnitude bound (python int) ; None = unbounded
        self.max_mag = 0
        self.unbounded = False
        self.used_real = False
        if real_mode == 'uf':
            self.R = z3.DeclareSort('R')
            R, I, B = self.R, self.isort, z3.BoolSort()
            self.f = {
                'add': z3.Function('fadd', R, R, R), 'mul': z3.Function('fmul', R, R, R),
                'div': z3.Function('fdiv', R, R, R), 'neg': z3.Function('fneg', R, R),
                'powi': z3.Function('fpowi', R, I, R), 'powr': z3.Function('fpowr', R, R, R),
                'i2r': z3.Function('i2r', I, R), 'lt': z3.Function('flt', R, R, B),
                'le': z3.Function('fle', R, R, B), 'r2i': z3.Function('r2i', R, I),
                'abs': z3.Function('fabs', R, R), 'max': z3.Function('fmax', R, R, R),
                'min': z3.Function('fmin', R, R, R), 'mod': z3.Function('fmod', R, R, R),
                'sign': z3.Function('fsign', R, R, R), 'lit': z3.Function('flit', z3.StringSort(), R),
                'nint': z3.Function('fnint', R, I), 'sqrt': z3.Function('fsqrt', R, R),
                'exp': z3.Function('fexp', R, R),
            }
        else:
            self.R = z3.RealSort()
            R = self.R
            self.f = {'powr': z3.Function('rpowr', R, R, R), 'sqrt': z3.Function('rsqrt', R, R),
                      'exp': z3.Function('rexp', R, R)}

    # ---- magnitudes (interval arithmetic on python ints, to size bit-vectors soundly)
    def mag(self, t):
        return self._mag.get(t.get_id(), None)

    def setmag(self, t, m):
        if m is None:
            self.unbounded = True
        else:
            self._mag[t.get_id()] = m
            self.max_mag = max(self.max_mag, m)
        return t

    def _m(self, f, *ts):
        ms = [self.mag(t) for t in ts]
        if any(m is None for m in ms):
            return None
        return f(*ms)

    def int_var(self, name, bound):
        v = z3.Const(name, self.isort)
        self.int_vars.append(v)
        self.ranges.append(z3.And(v >= -bound, v <= bound))
        return self.setmag(v, bound)

    def int_app(self, func_name, args, bound):
        """application of an uninterpreted INTEGER function (e.g. an array read) with |result| <= bound"""
        f = z3.Function(func_name, *([self.isort] * len(args)), self.isort)
        t = f(*args)
        self.ranges.append(z3.And(t >= -bound, t <= bound))
        return self.setmag(t, bound)

    def ite(self, c, a, b):
        a, b, k = self.unify(a, b)
        t = z3.If(c, a, b)
        if k == 'i':
            self.setmag(t, self._m(max, a, b))
        return t

    # ---- kinds
    def is_int(self, t):
        return self.int_mode != 'asreal' and z3.is_expr(t) and t.sort() == self.isort

    @staticmethod
    def is_bool(t):
        return z3.is_expr(t) and t.sort() == z3.BoolSort()

    def is_real(self, t):
        return z3.is_expr(t) and t.sort() == self.R

    def real_const(self, name, bound=None):
        self.used_real = True
        v = z3.Const(name, self.R)
        if bound is not None and self.real_mode == 'real':
            self.ranges.append(z3.And(v >= -bound, v <= bound))
        return v

    def int_lit(self, v):
        if self.int_mode == 'asreal':
            return z3.RealVal(int(v))
        t = z3.IntVal(int(v)) if self.int_mode == 'int' else z3.BitVecVal(int(v), self.width)
        return self.setmag(t, abs(int(v)))

    def real_lit(self, text):
        """text: Fortran/C real literal such as 1.5, 2., 1.0e-3, 3.d0, 1._jprb (kind suffix already stripped)"""
        self.used_real = True
        t = text.lower().replace('d', 'e')
        if self.real_mode == 'uf':
            # identical decimal value -> identical constant; '1.0' and '1.00' are the same number in any arithmetic
            return self.f['lit'](z3.StringVal(repr(float(t))))
        from fractions import Fraction  # pylint: disable=import-outside-toplevel
        from decimal import Decimal  # pylint: disable=import-outside-toplevel
        fr = Fraction(Decimal(t))
        return z3.RealVal(f'{fr.numerator}/{fr.denominator}')

    def to_real(self, t):
        if self.is_real(t):
            return t
        assert self.is_int(t), t
        self.used_real = True
        if self.real_mode == 'uf':
            return self.f['i2r'](t)
        if self.int_mode == 'bv':
            raise NeedIntMode('int->real conversion')
        return z3.ToReal(t)

    def to_int_trunc(self, t):
        """INT(x) / C cast: truncation toward zero"""
        if self.is_int(t):
            return t
        if self.real_mode == 'uf':
            return self.setmag(self.f['r2i'](t), None)
        if self.int_mode == 'bv':
            raise NeedIntMode('real->int conversion')
        fl = z3.ToInt(t)  # floor
        return self.setmag(z3.If(z3.Or(t >= 0, z3.ToReal(fl) == t), fl, fl + 1), None)

    def unify(self, a, b):
        if self.is_int(a) and self.is_int(b):
            return a, b, 'i'
        if self.is_bool(a) or self.is_bool(b):
            if self.is_bool(a) and self.is_bool(b):
                return a, b, 'b'
            raise TypeError('logical/numeric mix')
        return self.to_real(a), self.to_real(b), 'r'

    # ---- arithmetic
    def add(self, a, b):
        a, b, k = self.unify(a, b)
        if k == 'b':
            raise TypeError('logical +')
        if k == 'r' and self.real_mode == 'uf':
            return self.f['add'](a, b)
        t = a + b
        if k == 'i':
            self.setmag(t, self._m(lambda x, y: x + y, a, b))
        return t

    def neg(self, a):
        if self.is_bool(a):
            raise TypeError('logical neg')
        if self.is_real(a) and self.real_mode == 'uf':
            return self.f['neg'](a)
        t = -a
        if self.is_int(a):
            self.setmag(t, self.mag(a))
        return t

    def sub(self, a, b):
        return self.add(a, self.neg(b))

    def mul(self, a, b):
        a, b, k = self.unify(a, b)
        if k == 'b':
            raise TypeError('logical *')
        if k == 'r' and self.real_mode == 'uf':
            return self.f['mul'](a, b)
        t = a * b
        if k == 'i':
            self.setmag(t, self._m(lambda x, y: x * y, a, b))
        return t

    def tdiv(self, a, b):
        """truncating integer division (Int: built from z3's Euclidean div/mod; BV: bvsdiv)"""
        if self.int_mode == 'bv':
            t = a / b
        else:
            q, r = a / b, a % b
            t = z3.If(z3.Or(a >= 0, r == 0), q, z3.If(b > 0, q + 1, q - 1))
        return self.setmag(t, self.mag(a))

    def trem(self, a, b):
        """remainder with the sign of the dividend (Fortran MOD, C %)"""
        if self.int_mode == 'bv':
            t = z3.SRem(a, b)
        else:
            t = a - self.tdiv(a, b) * b
        return self.setmag(t, self._m(min, a, b))

    def fdiv_floor(self, a, b):
        if self.int_mode == 'bv':
            q = a / b
            t = z3.If(z3.And(z3.SRem(a, b) != 0, (a < 0) != (b < 0)), q - 1, q)
        else:
            q, r = a / b, a % b   # euclid: 0 <= r < |b|
            t = z3.If(z3.Or(b > 0, r == 0), q, q - 1)  # floor(a/b): for b<0 and r!=0 euclid q = ceil -> q-1
        return self.setmag(t, self._m(lambda x, y: x + 1, a, b))

    def div(self, a, b):
        a, b, k = self.unify(a, b)
        if k == 'b':
            raise TypeError('logical /')
        if k == 'i':
            self.defined.append(b != 0)
            if self.lang == 'python':
                # Python '/' on ints is true division
                ra, rb = self.to_real(a), self.to_real(b)
                return ra / rb if self.real_mode == 'real' else self.f['div'](ra, rb)
            return self.tdiv(a, b)
        if self.real_mode == 'uf':
            return self.f['div'](a, b)
        self.defined.append(b != 0)
        return a / b

    def floordiv(self, a, b):
        assert self.is_int(a) and self.is_int(b)
        self.defined.append(b != 0)
        return self.fdiv_floor(a, b)

    def power(self, a, b):
        if self.is_bool(a) or self.is_bool(b):
            raise TypeError('logical **')
        if self.is_int(b):
            self.defined.append(z3.And(b >= -PMAX, b <= PMAX))
            if self.is_real(a) and self.real_mode == 'uf':
                return self.f['powi'](a, b)
            one = self.int_lit(1) if self.is_int(a) else z3.RealVal(1)
            zero = self.int_lit(0) if self.is_int(a) else z3.RealVal(0)
            sb0 = z3.simplify(b)
            literal_nonneg = (z3.is_int_value(sb0) or z3.is_bv_value(sb0)) and \
                (sb0.as_signed_long() if z3.is_bv_value(sb0) else sb0.as_long()) >= 0
            acc = one
            chain = []
            for e in range(0, PMAX + 1):
                chain.append((e, acc))
                acc = acc * a
            res = chain[-1][1]
            for e, v in reversed(chain[:-1]):
                res = z3.If(b == e, v, res)
            if not literal_nonneg:
                # negative exponents: 1/(a**e), defined for a /= 0; integer base: truncating division, i.e.
                # 1 for a == 1, (-1)**e for a == -1, 0 otherwise (F2008 7.1.5.2.1)
                self.defined.append(z3.Or(b >= 0, a != zero))
                for e in range(1, PMAX + 1):
                    if self.is_int(a):
                        v = z3.If(a == one, one, z3.If(a == -one, one if e % 2 == 0 else -one, zero))
                    else:
                        v = z3.RealVal(1) / chain[e][1]
                    res = z3.If(b == -e, v, res)
            sb = z3.simplify(b)
            if z3.is_int_value(sb) or z3.is_bv_value(sb):
                res = z3.simplify(res)
            if self.is_int(a):
                self.setmag(res, self._m(lambda x: max(1, x) ** PMAX, a))
            return res
        a = self.to_real(a)
        sb = z3.simplify(b) if self.real_mode == 'real' else None
        if sb is not None and z3.is_rational_value(sb) and sb.denominator_as_long() == 1 \
                and 0 <= sb.numerator_as_long() <= PMAX:
            r = z3.RealVal(1)
            for _ in range(sb.numerator_as_long()):
                r = r * a
            return r
        return self.f['powr'](a, self.to_real(b))

    # ---- relations
    def cmp(self, op, a, b):
        a, b, k = self.unify(a, b)
        if k == 'b':
            if op in ('==', '.eqv.'):
                return a == b
            if op in ('!=', '.neqv.'):
                return a != b
            raise TypeError('ordering on logical')
        if k == 'r' and self.real_mode == 'uf':
            lt, le = self.f['lt'], self.f['le']
            return {'==': a == b, '!=': a != b, '<': lt(a, b), '<=': le(a, b), '>': lt(b, a), '>=': le(b, a)}[op]
        return {'==': a == b, '!=': a != b, '<': a < b, '<=': a <= b, '>': a > b, '>=': a >= b}[op]

    def land(self, *xs):
        for x in xs:
            if not self.is_bool(x):
                raise TypeError('non-logical .and.')
        return z3.And(*xs)

    def lor(self, *xs):
        for x in xs:
            if not self.is_bool(x):
                raise TypeError('non-logical .or.')
        return z3.Or(*xs)

    def lnot(self, x):
        if not self.is_bool(x):
            raise TypeError('non-logical .not.')
        return z3.Not(x)

    # ---- intrinsics
    def intrinsic(self, name, args, kwargs=None):
        name = name.lower()
        uf = self.real_mode == 'uf'
        if name in ('max', 'min', 'amax1', 'amin1', 'max0', 'min0', 'dmax1', 'dmin1'):
            base = 'max' if 'max' in name else 'min'
            r = args[0]
            for x in args[1:]:
                r, x, k = self.unify(r, x)
                if k == 'r' and uf:
                    r = self.f[base](r, x)
                else:
                    r = self.ite(r >= x, r, x) if base == 'max' else self.ite(r <= x, r, x)
            return r
        if name in ('abs', 'iabs', 'dabs'):
            a = args[0]
            if self.is_real(a) and uf:
                return self.f['abs'](a)
            return self.ite(a >= 0, a, self.neg(a))
        if name == 'mod':
            a, b, k = self.unify(args[0], args[1])
            if k == 'i':
                self.defined.append(b != 0)
                return self.trem(a, b)
            if uf:
                return self.f['mod'](a, b)
            self.defined.append(b != 0)
            q = a / b
            fl = z3.ToInt(q)
            tq = z3.If(z3.Or(q >= 0, z3.ToReal(fl) == q), fl, fl + 1)
            return a - z3.ToReal(tq) * b
        if name == 'modulo':
            a, b, k = self.unify(args[0], args[1])
            if k == 'i':
                self.defined.append(b != 0)
                if self.int_mode == 'bv':
                    return self.setmag(a % b, self.mag(b))
                return self.setmag(a - self.fdiv_floor(a, b) * b, self.mag(b))
            raise NotImplementedError('real modulo')
        if name in ('sign', 'isign', 'dsign'):
            a, b, k = self.unify(args[0], args[1])
            if k == 'r' and uf:
                return self.f['sign'](a, b)
            absa = self.ite(a >= 0, a, self.neg(a))
            return self.ite(b >= 0, absa, self.neg(absa))
        if name == 'merge':
            return self.ite(args[2], args[0], args[1])
        if name in ('int', 'ifix', 'idint'):
            return self.to_int_trunc(args[0])
        if name in ('real', 'float', 'dble', 'sngl'):
            return self.to_real(args[0])
        if name == 'nint':
            a = args[0]
            if self.is_int(a):
                return a
            if uf:
                return self.setmag(self.f['nint'](a), None)
            if self.int_mode == 'bv':
                raise NeedIntMode('nint')
            half = z3.RealVal('1/2')
            return self.setmag(z3.If(a >= 0, z3.ToInt(a + half), -z3.ToInt(-a + half)), None)
        if name in ('sqrt', 'exp', 'dsqrt', 'dexp'):
            return self.f[name.lstrip('d') if name.startswith('d') else name](self.to_real(args[0]))
        raise NotImplementedError(f'intrinsic {name}')

    def coerce_store(self, val, sort):
        """value conversion on assignment to a variable of z3 sort ``sort``"""
        if val.sort() == sort:
            return val
        if sort == self.isort:
            return self.to_int_trunc(val)
        if sort == self.R:
            return self.to_real(val)
        raise TypeError(f'cannot store {val.sort()} into {sort}')
