"""C35 machinery: the real FortranCTransformation (+ FortranISOCWrapperTransformation) is run on a Fortran routine; the
ORIGINAL is interpreted with Fortran semantics (vlib.fsmt.interp), the GENERATED C kernel with C semantics
(vlib.fsmt.csem) on the same symbolic inputs; z3 decides whether any input within the bounds makes an output differ or
the kernel leave its arrays.  A model is replayed end to end: gfortran build of the original vs gfortran build of the
generated ISO-C wrapper calling the gcc-compiled kernel."""
import os
import shutil
import subprocess
import tempfile
import time
from pathlib import Path

import z3

from loki import Sourcefile, Frontend

from vlib.fsmt.sem import Sem, NeedIntMode
from vlib.fsmt.expr import NotEncoded
from vlib.fsmt.interp import Arr, Cell
from vlib.fsmt.equiv import Prog, _interpret, driver_source
from vlib.fsmt.csem import CInterp, CArr, CRef
from vlib.fsmt.solve import check, model_value2
from vlib import replay as RP


def transpile_c(src, entry, **opts):
    """real code under test, applied as in the repository's transpile tests; returns dict of generated texts"""
    from loki.transformations.transpile import FortranCTransformation, FortranISOCWrapperTransformation  # pylint: disable=import-outside-toplevel
    sf = Sourcefile.from_source(src, frontend=Frontend.FP)
    routine = [r for r in sf.routines if r.name.lower() == entry.lower()][0]
    d = tempfile.mkdtemp(prefix='verif-c35-')
    try:
        f2c = FortranCTransformation(**opts)
        f2c.apply(source=routine, path=Path(d), role='kernel')
        f2cwrap = FortranISOCWrapperTransformation()
        f2cwrap.apply(source=routine, path=Path(d), role='kernel')
        out = {}
        for f in os.listdir(d):
            out[f] = Path(d, f).read_text()
        return out
    finally:
        shutil.rmtree(d, ignore_errors=True)


def _syntax_error(ctext):
    d = RP.scratch()
    try:
        Path(d, 'k.c').write_text(ctext)
        p = subprocess.run(['gcc', '-fsyntax-only', '-Werror=implicit-function-declaration', 'k.c'], cwd=d, capture_output=True,
                           text=True, timeout=60)
        return p.stderr if p.returncode != 0 else ''
    finally:
        shutil.rmtree(d, ignore_errors=True)


def check_c(src, entry, sizes, unwind=5, int_bound=6, timeout_ms=20000):
    t0 = time.time()
    res = {'seconds': 0.0}
    p1 = Prog.from_source(src, entry)
    files = transpile_c(src, entry)
    cname = f'{entry.lower()}_c'
    ctext = files.get(cname + '.c')
    if ctext is None:
        return {'verdict': 'notenc', 'why': f'no {cname}.c generated ({sorted(files)})', 'seconds': time.time() - t0}
    res['files'] = files
    last = None
    for real_mode in ('uf', 'real'):
        try:
            sem = Sem(real_mode)
            it1, fr1, obs1 = _interpret(sem, p1, sizes, (), unwind, int_bound)
            n1 = len(sem.defined)
            sem.lang = 'c'
            try:
                ci = CInterp(sem, ctext, cname, unwind=unwind)
            except NotEncoded as ex:
                if 'C parse' in str(ex) or 'C token' in str(ex):
                    err = _syntax_error(ctext)
                    if err:
                        # the generated kernel is not valid C (decided by gcc, confirmed again by the replay build)
                        return {'verdict': 'sat', 'model': {}, 'mode': 'structural', 'seconds': time.time() - t0, 'files': files,
                                'differences': [('generated kernel', 'compiles', err[-200:])]}
                raise
            sz = {k.lower(): v for k, v in sizes.items()}
            args, refs, arrs = {}, {}, {}
            fnames = {a.name.lower() for a in p1.entry.arguments}
            for pname, base, ptr in ci.signature():
                n = pname.lower()
                if n not in fnames:
                    raise NotEncoded(f'C parameter {pname} has no Fortran counterpart')
                obj = fr1.vars[n]
                csort = ci.sort_of(base)
                if isinstance(obj, Arr):
                    fixed = sz.get(n) if isinstance(sz.get(n), (list, tuple)) else None
                    elems = []
                    for k in range(len(obj.index_list())):
                        v = sem.int_lit(fixed[k]) if fixed is not None else it1.inputs[f'in_{n}_p{k + 1}']
                        if v.sort() == z3.BoolSort():
                            v = z3.If(v, sem.int_lit(1), sem.int_lit(0))
                        if v.sort() != csort:
                            raise NotEncoded(f'element type of {n} differs between Fortran and C')
                        elems.append(v)
                    if not ptr:
                        raise NotEncoded(f'array {n} passed by value')
                    arrs[n] = args[pname] = CArr(n, [len(elems)], elems, csort)
                elif isinstance(obj, Cell):
                    v = sem.int_lit(sz[n]) if isinstance(sz.get(n), int) and obj.sort == sem.isort else it1.inputs[f'in_{n}']
                    if v.sort() == z3.BoolSort():
                        v = z3.If(v, sem.int_lit(1), sem.int_lit(0))
                    if v.sort() != csort:
                        raise NotEncoded(f'type of {n} differs between Fortran and C')
                    if ptr:
                        refs[n] = args[pname] = CRef(n, csort, v)
                    else:
                        args[pname] = v
                else:
                    raise NotEncoded(f'argument kind of {n}')
            ci.run(args)
        except NotEncoded as ex:
            if real_mode == 'uf' and 'uninterpreted-real abstraction' in str(ex):
                continue
            if str(ex).startswith('C call '):
                err = _syntax_error(ctext)
                if err:       # call of a function that is declared nowhere (e.g. an unmapped Fortran intrinsic)
                    return {'verdict': 'sat', 'model': {}, 'mode': 'structural', 'seconds': time.time() - t0, 'files': files,
                            'differences': [('generated kernel', 'compiles', err[-200:])]}
            return {'verdict': 'notenc', 'why': str(ex), 'seconds': time.time() - t0, 'files': files}
        except (TypeError, NeedIntMode, NotImplementedError, z3.Z3Exception) as ex:
            return {'verdict': 'notenc', 'why': f'{type(ex).__name__}: {ex}', 'seconds': time.time() - t0, 'files': files}
        diffs, pairs = [], []
        for label, a in obs1:
            base = label.split('[#')[0]
            if '[#' in label:
                if base not in arrs:
                    return {'verdict': 'notenc', 'why': f'array {base} not a C parameter', 'seconds': time.time() - t0, 'files': files}
                b = arrs[base].elems[int(label.split('[#')[1].rstrip(']')) - 1]
            elif base in refs:
                b = refs[base].val
            else:
                # a scalar the original may modify is passed by value: the caller cannot see the kernel's result
                return {'verdict': 'sat', 'model': {}, 'mode': 'structural', 'seconds': time.time() - t0, 'files': files,
                        'differences': [(label, 'observable', 'passed by value to the C kernel')]}
            if sem.is_bool(a):
                b = b != sem.int_lit(0)
            if a.sort() != b.sort():
                return {'verdict': 'notenc', 'why': f'sort of {label} differs', 'seconds': time.time() - t0, 'files': files}
            pairs.append((label, a, b))
            if not a.eq(b):
                diffs.append(a != b)
        d1, d2 = list(sem.defined[:n1]), list(sem.defined[n1:])
        assume = list(sem.ranges) + d1 + [z3.Not(it1.trap), z3.Not(it1.unwind_violation), z3.Not(it1.aborted),
                                          z3.Not(ci.undef_read), z3.Not(ci.unwind_violation)]
        viol = z3.Or(ci.trap, z3.Not(z3.And(*d2)) if d2 else z3.BoolVal(False), z3.Or(*diffs) if diffs else z3.BoolVal(False))
        res['observables'] = len(pairs)
        rv, _, _ = check(assume, timeout_ms)
        if rv == 'unsat':
            return {'verdict': 'vacuous', 'why': 'no admissible input', 'trap_reasons': it1.trap_reasons[:5], 'seconds': time.time() - t0}
        ru, _, _ = check(list(sem.ranges) + [z3.Not(it1.trap), z3.Or(it1.unwind_violation, ci.unwind_violation)], timeout_ms)
        res['unwinding_complete'] = (ru == 'unsat')
        r, m, _ = check(assume + [viol], timeout_ms)
        res['mode'] = f'{real_mode}:int/real'
        if r == 'unsat':
            res['verdict'] = 'unsat' if (real_mode == 'uf' or not sem.used_real) else 'unsat-real-only'
            res['seconds'] = time.time() - t0
            return res
        last = (r, m if r == 'sat' else None, sem, it1, ci, pairs)
        if not sem.used_real:
            break
    if last is None:
        return {'verdict': 'notenc', 'why': 'no encoding applicable', 'seconds': time.time() - t0, 'files': files}
    r, m, sem, it1, ci, pairs = last
    res['verdict'] = r
    if r == 'sat':
        res['model'] = {n: model_value2(m, v) for n, v in sorted(it1.inputs.items())}
        res['differences'] = [(l, model_value2(m, a), model_value2(m, b)) for l, a, b in pairs
                              if model_value2(m, a) != model_value2(m, b)][:8]
        res['trap2'] = bool(z3.is_true(m.eval(ci.trap, model_completion=True)))
        res['trap2_reasons'] = ci.trap_reasons[:5] if res['trap2'] else []
    res['seconds'] = time.time() - t0
    return res


# ------------------------------------------------------------------------------------------------------- replay

def _run(cmd, cwd, timeout):
    return subprocess.run(cmd, cwd=cwd, capture_output=True, text=True, timeout=timeout)


def replay_c(src, entry, sizes, model, files, timeout=180, rtol=1e-6):
    """(differs: bool|None, message): original under gfortran vs generated wrapper + C kernel (gcc) under gfortran"""
    model = model or {}
    p1 = Prog.from_source(src, entry)
    try:
        decl, init, args, out = driver_source(p1.entry, sizes, model, 'orig')
    except NotEncoded as ex:
        return None, f'no replay driver: {ex}'
    e = entry.lower()
    plain = ', '.join(a.split('=')[0] for a in args)
    # modules of the source that only define types / constants (header modules): the drivers declare variables of them
    tmods = [m.name for m in p1.modules if not any(r.name.lower() == e for r in m.subroutines)]

    def driver(call, uses=''):
        lines = ['program rp', '  use iso_fortran_env'] + [f'  use {m}' for m in tmods] + ([uses] if uses else []) + \
            ['  implicit none'] + decl
        if not uses:
            lines.append(f'  external :: {e}')
        lines += init + [call]
        for o in out:
            lines.append(f"  print *, '@{o}', {o}")
        lines.append('end program rp')
        return '\n'.join(lines) + '\n'
    ok, so, se = RP.run_fortran([('prog.F90', src + '\n'), ('drv.F90', driver(f'  call {e}({plain})'))], timeout=timeout,
                                flags=('-fcheck=bounds', '-ffpe-trap=zero,invalid'))
    if not ok:
        return None, f'original does not build/run: {se[-300:]}'
    wrapper = files.get(f'{e}_fc.F90')
    if wrapper is None:
        return None, 'no ISO-C wrapper generated'
    d = RP.scratch()
    try:
        for fn, text in files.items():
            Path(d, fn).write_text(text)
        Path(d, 'drv.F90').write_text(driver(f'  call {e}_fc({plain})', uses=f'  use {e}_fc_mod'))
        p = _run(['gcc', '-O0', '-c', f'{e}_c.c', '-o', 'kern_c.o', '-fsanitize=address,undefined', '-fno-sanitize-recover=all', '-g'], d, timeout)
        if p.returncode != 0:
            return True, f'generated C kernel does not compile: {p.stderr[-300:]}'
        extra = []
        if tmods:
            Path(d, 'prog.F90').write_text(src + '\n')      # the type modules the wrapper and the driver use
            extra = ['prog.F90']
        p = _run(['gfortran', '-O0', '-ffree-line-length-none'] + extra + [f'{e}_fc.F90', 'drv.F90', 'kern_c.o', '-o', 'a.out', '-lm',
                  '-fsanitize=address,undefined'], d, timeout)
        if p.returncode != 0:
            return True, f'generated ISO-C wrapper does not build against the original call: {p.stderr[-400:]}'
        env = dict(os.environ, ASAN_OPTIONS='detect_leaks=0')
        r = subprocess.run(['./a.out'], cwd=d, capture_output=True, text=True, timeout=timeout, env=env)
        if r.returncode != 0:
            return True, f'transpiled kernel fails at run time (original runs): {(r.stderr or r.stdout)[-300:]}'
        so2 = r.stdout
    except subprocess.TimeoutExpired:
        return None, 'replay timed out'
    finally:
        shutil.rmtree(d, ignore_errors=True)

    def parse(text):
        o = {}
        for line in text.splitlines():
            t = line.split()
            if t and t[0].startswith('@'):
                o[t[0][1:].lower()] = t[1:]
        return o
    w, g = parse(so), parse(so2)
    for n, wv in w.items():
        gv = g.get(n)
        if gv is None or len(gv) != len(wv):
            return True, f'outputs of {n} differ in shape: {wv} vs {gv}'
        for k, (x, y) in enumerate(zip(wv, gv)):
            if x == y:
                continue
            try:
                fx, fy = float(x), float(y)
                if abs(fx - fy) <= rtol * max(1.0, abs(fx), abs(fy)):
                    continue
            except ValueError:
                pass
            return True, f'{n}#{k + 1}: original {x} vs transpiled {y} (inputs {model})'
    return False, f'outputs agree: {g}'
