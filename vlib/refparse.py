"""Independent reference parsers (written from the language standards, no Loki code) for Fortran and C
expression text -> tiny AST, plus AST -> z3 through vlib.fsmt.sem.Sem.

AST: ('int', v) ('real', text) ('bool', b) ('var', name) ('call', name, [args]) ('neg', x) ('pos', x) ('not', x)
     ('bin', op, l, r) with op in + - * / ** == != < <= > >= and or eqv neqv
"""
import re
import z3


class RefParseError(Exception):
    pass


_F_TOK = re.compile(r"""\s*(?:
    (?P<real>(?:\d+\.\d*(?:[edED][+-]?\d+)?|\.\d+(?:[edED][+-]?\d+)?|\d+[edED][+-]?\d+)(?:_\w+)?)
  | (?P<int>\d+(?:_\w+)?)
  | (?P<dot>\.(?:and|or|not|eqv|neqv|true|false|eq|ne|lt|le|gt|ge)\.(?:_\w+)?)
  | (?P<name>[A-Za-z]\w*(?:%[A-Za-z]\w*)*)
  | (?P<op>\*\*|==|/=|<=|>=|//|[-+*/<>(),])
)""", re.X | re.I)

_DOT_CMP = {'.eq.': '==', '.ne.': '!=', '.lt.': '<', '.le.': '<=', '.gt.': '>', '.ge.': '>='}


def _ftokens(text):
    pos, out = 0, []
    text = text.rstrip()
    while pos < len(text):
        m = _F_TOK.match(text, pos)
        if not m or m.end() == pos:
            raise RefParseError(f'bad token at {text[pos:]!r}')
        kind = m.lastgroup
        val = m.group(kind)
        # a real like "1." followed by "and." must not swallow the dot of .and. : handled by regex order (real first)
        # but "1.eq.2" is ambiguous in Fortran lexing too; we re-lex conservatively
        if kind == 'real' and re.match(r'\d+\.(?:and|or|eqv|neqv|eq|ne|lt|le|gt|ge)\.', text[m.start(kind):], re.I):
            m2 = re.match(r'\d+', text[m.start(kind):])
            kind, val = 'int', m2.group(0)
            pos = m.start('real') + len(val)
        else:
            pos = m.end()
        out.append((kind, val))
    out.append(('end', ''))
    return out


class FortranExprParser:
    """Fortran 2008 R7xx expression grammar (levels 1-5), numeric/logical subset."""

    def __init__(self, text):
        self.toks = _ftokens(text)
        self.i = 0

    def peek(self):
        return self.toks[self.i]

    def next(self):
        t = self.toks[self.i]
        self.i += 1
        return t

    def accept(self, kind, val=None):
        k, v = self.peek()
        if k == kind and (val is None or v.lower() == val):
            self.i += 1
            return True
        return False

    def parse(self):
        e = self.equiv()
        if self.peek()[0] != 'end':
            raise RefParseError(f'trailing {self.peek()}')
        return e

    def equiv(self):          # level-5: equiv-operand [ .eqv.|.neqv. equiv-operand ]... (left assoc)
        l = self.or_operand()
        while self.peek()[0] == 'dot' and self.peek()[1].lower() in ('.eqv.', '.neqv.'):
            op = self.next()[1].lower().strip('.')
            l = ('bin', op, l, self.or_operand())
        return l

    def or_operand(self):
        l = self.and_operand()
        while self.peek() [0] == 'dot' and self.peek()[1].lower() == '.or.':
            self.next()
            l = ('bin', 'or', l, self.and_operand())
        return l

    def and_operand(self):
        l = self.not_operand()
        while self.peek()[0] == 'dot' and self.peek()[1].lower() == '.and.':
            self.next()
            l = ('bin', 'and', l, self.not_operand())
        return l

    def not_operand(self):
        if self.peek()[0] == 'dot' and self.peek()[1].lower() == '.not.':
            self.next()
            return ('not', self.level4())
        return self.level4()

    def level4(self):         # level-3 [ rel-op level-3 ]  (non-associative)
        l = self.level2()
        k, v = self.peek()
        op = None
        if k == 'op' and v in ('==', '/=', '<', '<=', '>', '>='):
            op = '!=' if v == '/=' else v
        elif k == 'dot' and v.lower() in _DOT_CMP:
            op = _DOT_CMP[v.lower()]
        if op:
            self.next()
            r = self.level2()
            return ('bin', op, l, r)
        return l

    def level2(self):         # [[level-2] add-op] add-operand, left assoc; leading sign applies to first add-operand
        k, v = self.peek()
        if k == 'op' and v in '+-' and v != '':
            self.next()
            t = self.add_operand()
            l = ('neg', t) if v == '-' else ('pos', t)
        else:
            l = self.add_operand()
        while self.peek()[0] == 'op' and self.peek()[1] in ('+', '-'):
            op = self.next()[1]
            l = ('bin', op, l, self.add_operand())
        return l

    def add_operand(self):    # [add-operand mult-op] mult-operand, left assoc
        l = self.mult_operand()
        while self.peek()[0] == 'op' and self.peek()[1] in ('*', '/'):
            op = self.next()[1]
            l = ('bin', op, l, self.mult_operand())
        return l

    def mult_operand(self):   # level-1 [ ** mult-operand ]  right assoc
        l = self.primary()
        if self.peek() == ('op', '**'):
            self.next()
            return ('bin', '**', l, self.mult_operand())
        return l

    def primary(self):
        k, v = self.next()
        if k == 'int':
            return ('int', int(v.split('_')[0]))
        if k == 'real':
            return ('real', re.sub(r'_\w+$', '', v))
        if k == 'dot' and v.lower().startswith(('.true.', '.false.')):
            return ('bool', v.lower().startswith('.true.'))
        if k == 'name':
            if self.accept('op', '('):
                args = []
                if not self.accept('op', ')'):
                    while True:
                        args.append(self.equiv())
                        if self.accept('op', ')'):
                            break
                        if not self.accept('op', ','):
                            raise RefParseError('expected , or )')
                return ('call', v, args)
            return ('var', v)
        if (k, v) == ('op', '('):
            e = self.equiv()
            if not self.accept('op', ')'):
                raise RefParseError('expected )')
            return ('paren', e)
        raise RefParseError(f'unexpected {k} {v!r}')


def parse_fortran(text):
    return FortranExprParser(text).parse()


# ---------------------------------------------------------------- C

_C_TOK = re.compile(r"""\s*(?:
    (?P<real>(?:\d+\.\d*(?:[eE][+-]?\d+)?|\.\d+(?:[eE][+-]?\d+)?|\d+[eE][+-]?\d+)[fFlL]?)
  | (?P<int>\d+[uUlL]*)
  | (?P<name>[A-Za-z_]\w*(?:(?:\.|->)[A-Za-z_]\w*)*)
  | (?P<op>&&|\|\||==|!=|<=|>=|[-+*/%<>!(),\[\]])
)""", re.X)


def _ctokens(text):
    pos, out = 0, []
    text = text.rstrip()
    while pos < len(text):
        m = _C_TOK.match(text, pos)
        if not m or m.end() == pos:
            raise RefParseError(f'bad C token at {text[pos:]!r}')
        out.append((m.lastgroup, m.group(m.lastgroup)))
        pos = m.end()
    out.append(('end', ''))
    return out


class CExprParser:
    """C11 6.5 expression grammar, arithmetic/relational/logical subset."""
    LEVELS = [['||'], ['&&'], ['==', '!='], ['<', '<=', '>', '>='], ['+', '-'], ['*', '/', '%']]

    def __init__(self, text):
        self.toks = _ctokens(text)
        self.i = 0

    def peek(self):
        return self.toks[self.i]

    def next(self):
        t = self.toks[self.i]
        self.i += 1
        return t

    def parse(self):
        e = self.binary(0)
        if self.peek()[0] != 'end':
            raise RefParseError(f'trailing {self.peek()}')
        return e

    def binary(self, lvl):
        if lvl == len(self.LEVELS):
            return self.unary()
        l = self.binary(lvl + 1)
        while self.peek()[0] == 'op' and self.peek()[1] in self.LEVELS[lvl]:
            op = self.next()[1]
            r = self.binary(lvl + 1)
            op = {'||': 'or', '&&': 'and'}.get(op, op)
            l = ('bin', op, l, r)
        return l

    def unary(self):
        k, v = self.peek()
        if k == 'op' and v in ('-', '+', '!'):
            self.next()
            x = self.unary()
            return {'-': ('neg', x), '+': ('pos', x), '!': ('not', x)}[v]
        return self.postfix()

    def postfix(self):
        k, v = self.next()
        if k == 'int':
            return ('int', int(re.sub(r'[uUlL]+$', '', v)))
        if k == 'real':
            return ('real', re.sub(r'[fFlL]$', '', v))
        if k == 'name':
            if v in ('true', 'false'):
                return ('bool', v == 'true')
            if self.peek() == ('op', '('):
                self.next()
                args = []
                if self.peek() == ('op', ')'):
                    self.next()
                else:
                    while True:
                        args.append(self.binary(0))
                        k2, v2 = self.next()
                        if (k2, v2) == ('op', ')'):
                            break
                        if (k2, v2) != ('op', ','):
                            raise RefParseError('expected , or )')
                return ('call', v, args)
            e = ('var', v)
            while self.peek() == ('op', '['):
                self.next()
                idx = self.binary(0)
                if self.next() != ('op', ']'):
                    raise RefParseError('expected ]')
                e = ('index', e, idx)
            return e
        if (k, v) == ('op', '('):
            e = self.binary(0)
            if self.next() != ('op', ')'):
                raise RefParseError('expected )')
            return ('paren', e)
        raise RefParseError(f'unexpected {k} {v!r}')


def parse_c(text):
    return CExprParser(text).parse()


# ---------------------------------------------------------------- AST -> z3

def ast_to_z3(ast, sem, env, call=None):
    """env: lower-case name -> z3 term"""
    t = ast[0]
    if t == 'int':
        return sem.int_lit(ast[1])
    if t == 'real':
        return sem.real_lit(ast[1])
    if t == 'bool':
        return z3.BoolVal(ast[1])
    if t == 'var':
        name = ast[1].lower() if sem.lang == 'fortran' else ast[1]
        if name not in env:
            raise RefParseError(f'unbound {name}')
        return env[name]
    if t == 'paren':
        return ast_to_z3(ast[1], sem, env, call)
    if t == 'neg':
        return sem.neg(ast_to_z3(ast[1], sem, env, call))
    if t == 'pos':
        return ast_to_z3(ast[1], sem, env, call)
    if t == 'not':
        return sem.lnot(ast_to_z3(ast[1], sem, env, call))
    if t == 'call':
        args = [ast_to_z3(a, sem, env, call) for a in ast[2]]
        if call is not None:
            r = call(ast[1], args)
            if r is not None:
                return r
        name = ast[1].lower()
        if sem.lang == 'c':
            name = {'fmax': 'max', 'fmin': 'min', 'fabs': 'abs', 'fmod': 'mod', 'copysign': 'sign'}.get(name, name)
            if name == 'pow':
                return sem.power(args[0], args[1])
        return sem.intrinsic(name, args)
    if t == 'bin':
        op = ast[1]
        l, r = ast_to_z3(ast[2], sem, env, call), ast_to_z3(ast[3], sem, env, call)
        if op == '+':
            return sem.add(l, r)
        if op == '-':
            return sem.sub(l, r)
        if op == '*':
            return sem.mul(l, r)
        if op == '/':
            return sem.div(l, r)
        if op == '**':
            return sem.power(l, r)
        if op == '%':
            return sem.intrinsic('mod', [l, r])
        if op in ('==', '!=', '<', '<=', '>', '>='):
            return sem.cmp(op, l, r)
        if op == 'and':
            return sem.land(l, r)
        if op == 'or':
            return sem.lor(l, r)
        if op == 'eqv':
            return sem.cmp('==', l, r)
        if op == 'neqv':
            return sem.cmp('!=', l, r)
    raise RefParseError(f'ast node {ast!r}')


def ast_fullparen(ast, lang='fortran'):
    """Print the AST fully parenthesised in the target language (used for gfortran/gcc replays)."""
    t = ast[0]
    if t == 'int':
        return str(ast[1]) if ast[1] >= 0 else f'({ast[1]})'
    if t == 'real':
        return ast[1]
    if t == 'bool':
        return ('.true.' if ast[1] else '.false.') if lang == 'fortran' else ('1' if ast[1] else '0')
    if t == 'var':
        return ast[1]
    if t == 'paren':
        return ast_fullparen(ast[1], lang)
    if t in ('neg', 'pos'):
        return f"({'-' if t == 'neg' else '+'}{ast_fullparen(ast[1], lang)})"
    if t == 'not':
        return f"({'.not.' if lang == 'fortran' else '!'}{ast_fullparen(ast[1], lang)})"
    if t == 'call':
        return f"{ast[1]}({', '.join(ast_fullparen(a, lang) for a in ast[2])})"
    if t == 'bin':
        op = ast[1]
        if lang == 'fortran':
            op = {'!=': '/=', 'and': '.and.', 'or': '.or.', 'eqv': '.eqv.', 'neqv': '.neqv.'}.get(op, op)
        else:
            op = {'and': '&&', 'or': '||'}.get(op, op)
        return f'({ast_fullparen(ast[2], lang)} {op} {ast_fullparen(ast[3], lang)})'
    raise RefParseError(f'ast node {ast!r}')
