"""Shared plumbing for all checks: context, verdict accounting, known findings, evidence, exit codes."""
import json
import os
import sys
import time
import hashlib
import traceback
import fnmatch
import multiprocessing as mp
from pathlib import Path

VERIF = Path(__file__).resolve().parent.parent
EVID = VERIF / 'evidence'
REPLAYS = EVID / 'replays'
KNOWN = VERIF / 'known_findings.json'

EXIT_OK, EXIT_VIOLATION, EXIT_HARNESS = 0, 1, 3


class HarnessError(Exception):
    """The machinery (not Loki) is wrong or inconclusive in a way that must not be reported as a pass or a violation."""


def load_known(prop):
    if not KNOWN.exists():
        return []
    data = json.loads(KNOWN.read_text())
    return [e for e in data.get('known', []) if e['property'] == prop]


class Ctx:
    """Accumulates what one run of one check covered."""

    def __init__(self, prop, tier, seed, level):
        self.prop, self.tier, self.seed, self.level = prop, tier, seed, level
        self.t0 = time.time()
        self.verdicts = {}            # verdict -> count   (unsat / sat / unknown / confirmed / refuted / ...)
        self.evaluations = 0          # queries / conditions posed
        self.nontrivial = set()       # keys of distinct non-trivial obligations
        self.samples = []
        self.solver_s = 0.0
        self.functions = []           # functions of /repo encoded / executed symbolically
        self.bounds = {}
        self.assumptions = []
        self.violations = []          # dicts: {signature, what, replay}
        self.known_hits = {}          # signature -> example
        self.inconclusive = []
        self.not_encoded = []
        self.unreproduced = []
        self.extra = {}
        self.rule = ''
        self.known = load_known(prop)
        self.known_sigs = {e['signature']: e for e in self.known}
        self.programs = 0
        self.disagreements_checked = 0
        self.traces_validated = 0

    # --- accounting
    def verdict(self, v, n=1):
        self.verdicts[v] = self.verdicts.get(v, 0) + n
        self.evaluations += n

    def sample(self, s, limit=12):
        if len(self.samples) < limit:
            self.samples.append(s)

    def obligation(self, key):
        self.nontrivial.add(key if isinstance(key, str) else json.dumps(key, sort_keys=True, default=str))

    # --- outcomes
    def candidate(self, signature, what, replay_data):
        """A *replayed and reproduced* counterexample.  Known signature -> KNOWN-FINDING, else VIOLATION."""
        self.disagreements_checked += 1
        for ks in self.known_sigs:
            # a known signature may be a glob over the check-computed signature (the check documents its fields)
            if signature == ks or fnmatch.fnmatchcase(signature, ks):
                self.known_hits.setdefault(ks, what)
                return False
        for v in self.violations:
            if v['signature'] == signature and len([w for w in self.violations if w['signature'] == signature]) >= 3:
                return True  # keep at most 3 replays per signature
        REPLAYS.mkdir(parents=True, exist_ok=True)
        h = hashlib.sha1(json.dumps(replay_data, sort_keys=True, default=str).encode()).hexdigest()[:10]
        path = REPLAYS / f'{self.prop}-{h}.json'
        path.write_text(json.dumps({'property': self.prop, 'signature': signature, 'what': what,
                                    'replay': replay_data}, indent=1, default=str))
        self.violations.append({'signature': signature, 'what': what, 'replay': str(path)})
        return True

    def unrepro(self, what):
        self.unreproduced.append(what)

    def inconcl(self, what):
        self.inconclusive.append(what)

    # --- finish
    def finish(self):
        wall = time.time() - self.t0
        cov = {
            'evaluations': max(self.evaluations, 0),
            'distinct_nontrivial': len(self.nontrivial),
            'rule': self.rule,
            'samples': self.samples or ['(none)'],
            'queries_by_verdict': self.verdicts,
            'solver_time_s': round(self.solver_s, 3),
            'functions_encoded': self.functions,
            'bounds': self.bounds,
            'inconclusive': self.inconclusive[:40],
            'inconclusive_count': len(self.inconclusive),
            'not_encoded': self.not_encoded[:40],
            'not_encoded_count': len(self.not_encoded),
            'unreproduced': self.unreproduced[:20],
            'known_findings_hit': self.known_hits,
            'violations': self.violations[:20],
            'programs': self.programs,
            'disagreements_checked': self.disagreements_checked,
            'traces_validated_against_impl': self.traces_validated,
            'states': max(len(self.nontrivial), 1),
            'transitions': max(self.evaluations, 1),
            'explanation': self.rule,
        }
        cov.update(self.extra)
        ev = {
            'property_id': self.prop, 'tier': self.tier, 'seed': self.seed, 'level': self.level,
            'coverage': cov, 'assumptions': self.assumptions, 'wall_s': round(wall, 2),
            'violations': len(self.violations),
        }
        EVID.mkdir(exist_ok=True)
        (EVID / f'{self.prop}.json').write_text(json.dumps(ev, indent=1, default=str) + '\n')
        for sig, what in sorted(self.known_hits.items()):
            print(f'KNOWN-FINDING: property={self.prop} {sig}: {what}')
        for v in self.violations:
            print(f"VIOLATION property={self.prop} replay={v['replay']}")
            print(f"  {v['signature']}: {v['what']}")
        stale = [s for s in self.known_sigs if s not in self.known_hits]
        if stale:
            print(f'note: known finding(s) not exercised/reproduced in this run: {stale}')
        print(f'{self.prop} [{self.tier}] evaluations={self.evaluations} nontrivial={len(self.nontrivial)} '
              f'verdicts={self.verdicts} inconclusive={len(self.inconclusive)} not_encoded={len(self.not_encoded)} '
              f'solver_s={self.solver_s:.1f} wall_s={wall:.1f}')
        if self.violations:
            return EXIT_VIOLATION
        if self.unreproduced:
            print(f'HARNESS-ERROR: {len(self.unreproduced)} solver model(s) did not reproduce on the real code: '
                  f'{self.unreproduced[:3]}', file=sys.stderr)
            return EXIT_HARNESS
        if self.evaluations == 0 or len(self.nontrivial) < 2:
            print('HARNESS-ERROR: nothing explored', file=sys.stderr)
            return EXIT_HARNESS
        return EXIT_OK


def _call(args):
    f, item = args
    try:
        return ('ok', f(item))
    except Exception:  # pylint: disable=broad-except
        return ('err', traceback.format_exc())


def pmap(f, items, workers=None, chunksize=1):
    """Fork-based parallel map preserving order; f must be a module-level function.  Errors -> HarnessError."""
    items = list(items)
    workers = workers or min(16, os.cpu_count() or 4)
    if workers <= 1 or len(items) <= 1:
        res = [_call((f, i)) for i in items]
    else:
        with mp.get_context('fork').Pool(workers) as pool:
            res = pool.map(_call, [(f, i) for i in items], chunksize=chunksize)
    out = []
    for tag, r in res:
        if tag == 'err':
            raise HarnessError(r)
        out.append(r)
    return out


def rotate(items, seed, k):
    """Deterministic slice of size k from items, rotated by seed (quick tier)."""
    items = list(items)
    if k >= len(items):
        return items
    start = (seed * 7919) % len(items)
    return [items[(start + i * max(1, len(items) // k)) % len(items)] for i in range(k)]
