#!/bin/sh
# Build the overlay venv used by every check: /venv (repo deps, loki editable) + crosshair-tool + z3-solver
# from the offline wheelhouse.  Idempotent; offline.
set -e
HERE="$(cd "$(dirname "$0")" && pwd)"
V="$HERE/.venv"
if [ -x "$V/bin/python" ] && "$V/bin/python" -c "import crosshair, z3, loki" >/dev/null 2>&1; then
  exit 0
fi
rm -rf "$V"
/venv/bin/python -m venv "$V"
SP="$("$V/bin/python" -c 'import site; print(site.getsitepackages()[0])')"
printf '%s\n%s\n' "/venv/lib/python3.12/site-packages" "/repo" > "$SP/_verif_overlay.pth"
PIP_NO_INDEX=1 "$V/bin/pip" install -q --no-index --find-links /opt/veriftools/wheels crosshair-tool z3-solver
"$V/bin/python" -c "import crosshair, z3, loki; print('overlay ok', z3.get_version_string())"
