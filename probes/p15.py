from loki.tools.strings import JoinableStringList

def f_one(n1: int) -> bool:
    """
    pre: 1 <= n1 <= 10
    post: _
    """
    width = 12
    items = ['a' * n1, 'b' * 3, 'c' * 4]
    cont = ' &\n& '
    s = str(JoinableStringList(items, sep=', ', width=width, cont=cont))
    ref = ', '.join(items)
    lines = s.split('\n')
    budget = width - 2 - 2 - 2
    joined = s.replace(cont, '')
    if joined != ref:
        return False
    if n1 > budget:
        return True
    return all(len(l) <= width for l in lines)
