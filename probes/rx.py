import z3, re
import re._parser as sp
import re._constants as sc

ANY = z3.Range(chr(1), chr(126))
ANY_NO_NL = z3.Union(z3.Range(chr(1), chr(9)), z3.Range(chr(11), chr(126)))
EPS = z3.Re('')
WORD = z3.Union(z3.Range('a','z'), z3.Range('A','Z'), z3.Range('0','9'), z3.Re('_'))

class RxUnsupported(Exception): pass

def cls_item(op, av, ic):
    if op == sc.LITERAL:
        ch = chr(av)
        if ic and ch.isalpha():
            return z3.Union(z3.Re(ch.lower()), z3.Re(ch.upper()))
        return z3.Re(ch)
    if op == sc.RANGE:
        return z3.Range(chr(av[0]), chr(av[1]))
    if op == sc.CATEGORY:
        if av == sc.CATEGORY_SPACE: return z3.Union(*[z3.Re(c) for c in ' \t\n\r\f\v'])
        if av == sc.CATEGORY_NOT_SPACE: return z3.Intersect(ANY, z3.Complement(z3.Union(*[z3.Re(c) for c in ' \t\n\r\f\v'])))
        if av == sc.CATEGORY_WORD: return WORD
        if av == sc.CATEGORY_DIGIT: return z3.Range('0','9')
    raise RxUnsupported((op, av))

def tr(items, flags, k):
    ic = bool(flags & re.I)
    rest = k
    for op, av in reversed(list(items)):
        if op in (sc.LITERAL, sc.CATEGORY):
            rest = z3.Concat(cls_item(op, av, ic), rest)
        elif op == sc.NOT_LITERAL:
            rest = z3.Concat(z3.Intersect(ANY, z3.Complement(cls_item(sc.LITERAL, av, ic))), rest)
        elif op == sc.ANY:
            rest = z3.Concat(ANY if flags & re.S else ANY_NO_NL, rest)
        elif op == sc.IN:
            neg = av and av[0][0] == sc.NEGATE
            its = [cls_item(o, a, ic) for o, a in av if o != sc.NEGATE]
            u = z3.Union(*its) if len(its) > 1 else its[0]
            rest = z3.Concat(z3.Intersect(ANY, z3.Complement(u)) if neg else u, rest)
        elif op in (sc.MAX_REPEAT, sc.MIN_REPEAT):
            lo, hi, sub = av
            r = tr(sub, flags, EPS)
            if hi == sc.MAXREPEAT:
                rep = z3.Star(r) if lo == 0 else (z3.Plus(r) if lo == 1 else z3.Concat(z3.Loop(r, lo, lo), z3.Star(r)))
            elif (lo, hi) == (0, 1):
                rep = z3.Option(r)
            else:
                rep = z3.Loop(r, lo, hi)
            rest = z3.Concat(rep, rest)
        elif op == sc.SUBPATTERN:
            rest = tr(av[3], flags, rest)
        elif op == sc.BRANCH:
            rest = z3.Union(*[tr(b, flags, rest) for b in av[1]])
        elif op == sc.AT:
            if av in (sc.AT_END, sc.AT_END_STRING):
                # '$' : rest must be empty or a single trailing newline
                rest = z3.Intersect(rest, z3.Union(EPS, z3.Re('\n')))
            elif av in (sc.AT_BEGINNING, sc.AT_BEGINNING_STRING):
                pass  # caller anchors
            else:
                raise RxUnsupported(av)
        elif op in (sc.ASSERT, sc.ASSERT_NOT):
            direction, sub = av
            if direction != 1: raise RxUnsupported('lookbehind')
            la = z3.Concat(tr(sub, flags, EPS), z3.Star(ANY))
            rest = z3.Intersect(rest, la if op == sc.ASSERT else z3.Complement(la))
        else:
            raise RxUnsupported(op)
    return rest

def pattern_to_z3(pat, suffix_any=True):
    """language of strings s such that pat.match(s) succeeds at position 0 (prefix match)"""
    return tr(sp.parse(pat.pattern, pat.flags), pat.flags, z3.Star(ANY) if suffix_any else EPS)
