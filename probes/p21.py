from loki import Subroutine, Dimension, fgen
from loki.transformations.single_column import SCCVectorPipeline, SCCHoistPipeline
horizontal = Dimension(name='horizontal', size='nlon', index='jl', bounds=('start', 'end'), aliases=('nproma',))
vertical = Dimension(name='vertical', size='nz', index='jk')
blocking = Dimension(name='blocking', size='nb', index='b')
fcode_driver = """
  SUBROUTINE column_driver(nlon, nz, q, nb)
    INTEGER, INTENT(IN)   :: nlon, nz, nb
    REAL, INTENT(INOUT)   :: q(nlon,nz,nb)
    INTEGER :: b, start, end
    start = 1
    end = nlon
    do b=1, nb
      call compute_column(start, end, nlon, nz, q(:,:,b))
    end do
  END SUBROUTINE column_driver
"""
fcode_kernel = """
  SUBROUTINE compute_column(start, end, nlon, nz, q)
    INTEGER, INTENT(IN) :: start, end
    INTEGER, INTENT(IN) :: nlon, nz
    REAL, INTENT(INOUT) :: q(nlon,nz)
    REAL :: t(nlon,nz)
    REAL :: s(nlon)
    INTEGER :: jl, jk
    REAL :: c
    c = 5.345
    DO jk = 2, nz
      DO jl = start, end
        t(jl, jk) = c * jk
        q(jl, jk) = q(jl, jk-1) + t(jl, jk) * c
      END DO
    END DO
    s(start:end) = q(start:end, nz)
    DO JL = START, END
      Q(JL, NZ) = Q(JL, NZ) * C + s(jl)
    END DO
  END SUBROUTINE compute_column
"""
for P in (SCCVectorPipeline,):
    kernel = Subroutine.from_source(fcode_kernel)
    driver = Subroutine.from_source(fcode_driver)
    driver.enrich(kernel)
    kw = dict(horizontal=horizontal, block_dim=blocking, directive='openacc')
    try:
        p = P(**kw)
        p.apply(driver, role='driver', targets=['compute_column'])
        p.apply(kernel, role='kernel')
        print(fgen(driver)); print(fgen(kernel))
    except Exception as e:
        import traceback; traceback.print_exc()
