from loki.tools.strings import JoinableStringList

def f_two(n1: int, n2: int) -> bool:
    """
    pre: 1 <= n1 <= 10 and 1 <= n2 <= 10
    post: _
    """
    width = 12
    items = ['a' * n1, 'b' * n2, 'c' * 4]
    cont = ' &\n& '
    s = str(JoinableStringList(items, sep=', ', width=width, cont=cont))
    ref = ', '.join(items)
    lines = s.split('\n')
    budget = width - 2 - 2 - 2
    joined = s.replace(cont, '')
    if joined != ref:
        return False
    if max(n1, n2) > budget:
        return True
    return all(len(l) <= width for l in lines)

def f_w(n1: int, width: int) -> bool:
    """
    pre: 1 <= n1 <= 12 and 9 <= width <= 16
    post: _
    """
    items = ['a' * n1, 'b' * 5, 'c' * 4]
    cont = ' &\n& '
    s = str(JoinableStringList(items, sep=', ', width=width, cont=cont))
    ref = ', '.join(items)
    lines = s.split('\n')
    budget = width - 2 - 2 - 2
    joined = s.replace(cont, '')
    if joined != ref:
        return False
    if max(n1, 5) > budget:
        return True
    return all(len(l) <= width for l in lines)
