from loki.tools.strings import JoinableStringList

def f_wrap(n1: int, n2: int, n3: int, n4: int, width: int) -> bool:
    """
    pre: 1 <= n1 <= 14 and 1 <= n2 <= 14 and 1 <= n3 <= 14 and 1 <= n4 <= 14 and 9 <= width <= 14
    post: _
    """
    items = ['a' * n1, 'b' * n2, 'c' * n3, 'd'*n4]
    cont = ' &\n& '
    s = str(JoinableStringList(items, sep=', ', width=width, cont=cont))
    ref = str(JoinableStringList(items, sep=', ', width=1000, cont=cont))
    lines = s.split('\n')
    budget = width - 2 - 2 - 2
    joined = s.replace(cont, '')
    if joined != ref:
        return False
    if max(n1, n2, n3, n4) > budget:
        return True
    return all(len(l) <= width for l in lines)

def f_nested(n1: int, n2: int, n3: int, n4: int, width: int, sepa: bool) -> bool:
    """
    pre: 1 <= n1 <= 10 and 1 <= n2 <= 10 and 1 <= n3 <= 10 and 1 <= n4 <= 10 and 10 <= width <= 14
    post: _
    """
    cont = ' &\n& '
    inner = JoinableStringList(['b' * n2, 'c' * n3], sep=', ', width=width, cont=cont, separable=sepa)
    items = ['a' * n1 + '(', inner, ')' + 'd'*n4]
    s = str(JoinableStringList(items, sep='', width=width, cont=cont))
    lines = s.split('\n')
    joined = s.replace(cont, '')
    ref = 'a'*n1 + '(' + 'b'*n2 + ', ' + 'c'*n3 + ')' + 'd'*n4
    if joined != ref:
        return False
    budget = width - 2 - 2 - 2 - 1
    if max(n1, n2, n3, n4) > budget:
        return True
    return all(len(l) <= width for l in lines)
