import time
from loki import Subroutine, fgen
from loki.transformations.transform_loop import do_loop_unroll
from loki.transformations.constant_propagation import do_constant_propagation
from fsym import *
SRC = """
subroutine unr(a, s)
  integer, intent(inout) :: a(6)
  integer, intent(inout) :: s
  integer :: i
  !$loki loop-unroll
  do i=5,1,-2
    s = s + a(i) * i
    a(i) = s
  end do
end subroutine unr
"""
r1 = Subroutine.from_source(SRC)
r2 = r1.clone()
do_loop_unroll(r2)
print(fgen(r2.body))
print(equivalent(r1, r2, [r1], [r2], {}))
SRC = """
subroutine cp(a, s, n)
  integer, intent(inout) :: a(4)
  integer, intent(inout) :: s
  integer, intent(in) :: n
  integer :: i, k
  k = 3
  if (n > 0) then
    k = k + 1
  end if
  do i=1,4
    a(i) = a(i) + k
    k = 2
  end do
  s = k / 2 + s
end subroutine cp
"""
r1 = Subroutine.from_source(SRC)
r2 = r1.clone()
try:
    do_constant_propagation(r2)
    print(fgen(r2.body))
    print(equivalent(r1, r2, [r1], [r2], {}))
except Exception as e:
    import traceback; traceback.print_exc()
