from loki.frontend.source import Source, join_source_list
def consistent(src, text_lines):
    l0, l1 = src.lines
    if l1 is None: l1 = l0
    if l0 < 1 or l1 > len(text_lines): return False
    return src.string.split('\n') == text_lines[l0-1:l1]

def f_span(text: str, i: int, j: int) -> bool:
    """
    pre: len(text) <= 5 and all(c in 'a\\n' for c in text) and 0 <= i <= j <= len(text)
    pre: i == 0 or text[i-1] == '\\n'
    pre: j == len(text) or text[j] == '\\n'
    post: _
    """
    tl = text.split('\n')
    src = Source(lines=(1, len(tl)), string=text)
    s2 = src.clone_with_span((i, j))
    return consistent(s2, tl)

def f_lines(text: str) -> bool:
    """
    pre: len(text) <= 5 and all(c in 'a\\n' for c in text)
    post: _
    """
    tl = text.split('\n')
    src = Source(lines=(1, len(tl)), string=text)
    return all(consistent(s, tl) for s in src.clone_lines())
