import operator as _op
from loki.expression import symbols as sym
from loki.expression.symbolic import simplify, symbolic_op, get_pyrange, Simplification

def ev(e, env):
    # Fortran int semantics evaluator
    if isinstance(e, int): return e
    if isinstance(e, sym.IntLiteral): return e.value
    if isinstance(e, sym.Sum): 
        r = 0
        for c in e.children: r = r + ev(c, env)
        return r
    if isinstance(e, sym.Product):
        r = 1
        for c in e.children: r = r * ev(c, env)
        return r
    if isinstance(e, sym.Quotient):
        n = ev(e.numerator, env); d = ev(e.denominator, env)
        q = abs(n)//abs(d)
        return q if (n<0)==(d<0) else -q
    if isinstance(e, (sym.Scalar, sym.DeferredTypeSymbol)): return env[e.name]
    raise TypeError(type(e))

def f_sum(a: int, b: int, x: int) -> bool:
    """
    pre: -8 <= a <= 8 and -8 <= b <= 8 and b != 0
    post: _
    """
    v = sym.Variable(name='x')
    e = sym.Quotient(sym.Sum((v, sym.IntLiteral(a))), sym.IntLiteral(b))
    s = simplify(e)
    return ev(e, {'x': x}) == ev(s, {'x': x})

def f_range(a: int, b: int, c: int) -> bool:
    """
    pre: -4 <= a <= 4 and -4 <= b <= 4 and c != 0 and -3 <= c <= 3
    post: _
    """
    r = get_pyrange(sym.LoopRange((sym.IntLiteral(a), sym.IntLiteral(b), sym.IntLiteral(c))))
    # Fortran trip count
    n = (b - a + c)
    q = abs(n)//abs(c)
    q = q if (n<0)==(c<0) else -q
    cnt = max(0, q)
    return len(r) == cnt
