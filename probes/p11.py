import z3, time
from rx import *
from loki.frontend.preprocessing import sanitize_registry
from loki.frontend.util import FP
for name in ('OPEN_NEWUNIT', 'CONVERT_ENDIAN'):
    rule = sanitize_registry[FP][name]
    R = pattern_to_z3(rule.match)
    S = z3.String('S')
    noq = z3.Star(z3.Intersect(ANY_NO_NL, z3.Complement(z3.Re("'"))))
    for tpl in [("x = '", "'"), ("  open(10, file='", "')"), ("  open(10, file='a') ! ", "")]:
        line = z3.Concat(z3.StringVal(tpl[0]), S, z3.StringVal(tpl[1]))
        s = z3.Solver()
        s.add(z3.InRe(S, noq), z3.Length(S) <= 30)
        s.add(z3.InRe(line, R))
        t0 = time.time(); r = s.check(); print(name, tpl, r, round(time.time() - t0, 3), s.model()[S] if str(r)=='sat' else '')
