"""Prototype: bounded symbolic interpreter of Loki IR under Fortran semantics -> z3."""
import itertools
import z3
from loki import ir, Subroutine, FindNodes
from loki.expression import symbols as sym
from loki.expression import operations as ops
from loki.types import BasicType


class Unsupported(Exception):
    pass


def fdiv(a, b):
    """Fortran integer division truncating toward zero (z3 '/' on Int is floor/euclid)."""
    q = z3.If(b > 0, a / b, -(a / -b))  # euclidean for positive divisor -> floor-ish
    # z3 Int div is Euclidean: a = b*q + r, 0 <= r < |b|. Build trunc from abs values.
    absq = z3.If(a >= 0, a, -a) / z3.If(b >= 0, b, -b)
    return z3.If((a >= 0) == (b > 0), absq, -absq)


class Arr:
    def __init__(self, name, bounds, sort, elems=None):
        self.name, self.bounds, self.sort = name, bounds, sort
        self.elems = elems if elems is not None else {}

    def indices(self):
        # column-major order
        rngs = [range(lo, hi + 1) for lo, hi in self.bounds]
        return [tuple(reversed(t)) for t in itertools.product(*reversed(rngs))]

    def copy(self):
        return Arr(self.name, self.bounds, self.sort, dict(self.elems))


class State:
    def __init__(self):
        self.vars = {}      # name -> z3 expr | Arr
        self.trap = z3.BoolVal(False)

    def copy(self):
        s = State()
        s.vars = {k: (v.copy() if isinstance(v, Arr) else v) for k, v in self.vars.items()}
        s.trap = self.trap
        return s


def merge(cond, s1, s2):
    """state = cond ? s1 : s2"""
    out = State()
    for k in s1.vars:
        a, b = s1.vars[k], s2.vars[k]
        if isinstance(a, Arr):
            r = a.copy()
            for idx in a.elems:
                if a.elems[idx] is not b.elems[idx]:
                    r.elems[idx] = z3.If(cond, a.elems[idx], b.elems[idx])
            out.vars[k] = r
        else:
            out.vars[k] = a if a is b else z3.If(cond, a, b)
    out.trap = z3.If(cond, s1.trap, s2.trap)
    return out


class Interp:
    def __init__(self, routines, sizes):
        self.routines = {r.name.lower(): r for r in routines}
        self.sizes = sizes
        self.fresh = itertools.count()

    # ---- expressions
    def concrete(self, e):
        e = z3.simplify(e)
        if z3.is_int_value(e):
            return e.as_long()
        raise Unsupported(f'non-concrete {e}')

    def ev(self, e, st, pc):
        if isinstance(e, int):
            return z3.IntVal(e)
        if isinstance(e, sym.IntLiteral):
            return z3.IntVal(e.value)
        if isinstance(e, sym.FloatLiteral):
            return z3.RealVal(str(float(e.value.lower().replace('d', 'e'))))
        if isinstance(e, sym.LogicLiteral):
            return z3.BoolVal(e.value)
        if isinstance(e, sym.Sum):
            vals = [self.ev(c, st, pc) for c in e.children]
            r = vals[0]
            for v in vals[1:]:
                r = self.arith(r, v, lambda a, b: a + b)
            return r
        if isinstance(e, sym.Product):
            vals = [self.ev(c, st, pc) for c in e.children]
            r = vals[0]
            for v in vals[1:]:
                r = self.arith(r, v, lambda a, b: a * b)
            return r
        if isinstance(e, sym.Quotient):
            a, b = self.ev(e.numerator, st, pc), self.ev(e.denominator, st, pc)
            if a.sort() == z3.IntSort() and b.sort() == z3.IntSort():
                st.trap = z3.Or(st.trap, z3.And(pc, b == 0))
                return fdiv(a, b)
            return self.arith(a, b, lambda x, y: x / y)
        if isinstance(e, sym.Comparison):
            a, b = self.ev(e.left, st, pc), self.ev(e.right, st, pc)
            a, b = self.coerce(a, b)
            return {'==': a == b, '!=': a != b, '<': a < b, '<=': a <= b, '>': a > b, '>=': a >= b}[e.operator]
        if isinstance(e, sym.LogicalAnd):
            return z3.And(*[self.ev(c, st, pc) for c in e.children])
        if isinstance(e, sym.LogicalOr):
            return z3.Or(*[self.ev(c, st, pc) for c in e.children])
        if isinstance(e, sym.LogicalNot):
            return z3.Not(self.ev(e.child, st, pc))
        if isinstance(e, sym.Array):
            arr = st.vars[e.name.lower()]
            if e.dimensions:
                idx = tuple(self.ev(d, st, pc) for d in e.dimensions)
                return self.select(arr, idx, st, pc)
            raise Unsupported('whole array in scalar context')
        if isinstance(e, (sym.Scalar, sym.DeferredTypeSymbol)):
            return st.vars[e.name.lower()]
        if isinstance(e, sym.InlineCall):
            name = e.function.name.lower()
            args = [self.ev(a, st, pc) for a in e.parameters]
            if name == 'max':
                a, b = self.coerce(*args); return z3.If(a >= b, a, b)
            if name == 'min':
                a, b = self.coerce(*args); return z3.If(a <= b, a, b)
            if name == 'abs':
                return z3.If(args[0] >= 0, args[0], -args[0])
            raise Unsupported(f'call {name}')
        raise Unsupported(f'expr {type(e)}')

    def coerce(self, a, b):
        if a.sort() != b.sort():
            if a.sort() == z3.IntSort(): a = z3.ToReal(a)
            if b.sort() == z3.IntSort(): b = z3.ToReal(b)
        return a, b

    def arith(self, a, b, f):
        a, b = self.coerce(a, b)
        return f(a, b)

    def select(self, arr, idx, st, pc):
        cidx = []
        for i in idx:
            s = z3.simplify(i)
            cidx.append(s.as_long() if z3.is_int_value(s) else None)
        if None not in cidx:
            t = tuple(cidx)
            if t not in arr.elems:
                st.trap = z3.Or(st.trap, pc)
                return z3.FreshConst(arr.sort)
            return arr.elems[t]
        # symbolic index: ite chain
        res = z3.FreshConst(arr.sort)
        inb = z3.BoolVal(False)
        for t, v in arr.elems.items():
            c = z3.And(*[i == k for i, k in zip(idx, t)])
            res = z3.If(c, v, res)
            inb = z3.Or(inb, c)
        st.trap = z3.Or(st.trap, z3.And(pc, z3.Not(inb)))
        return res

    def store(self, arr, idx, val, st, pc):
        if val.sort() != arr.sort:
            val = z3.ToReal(val) if arr.sort == z3.RealSort() else z3.ToInt(val)
        cidx = []
        for i in idx:
            s = z3.simplify(i)
            cidx.append(s.as_long() if z3.is_int_value(s) else None)
        if None not in cidx:
            t = tuple(cidx)
            if t not in arr.elems:
                st.trap = z3.Or(st.trap, pc)
                return
            arr.elems[t] = z3.If(pc, val, arr.elems[t]) if not z3.is_true(pc) else val
            return
        inb = z3.BoolVal(False)
        for t in list(arr.elems):
            c = z3.And(*[i == k for i, k in zip(idx, t)])
            arr.elems[t] = z3.If(z3.And(pc, c), val, arr.elems[t])
            inb = z3.Or(inb, c)
        st.trap = z3.Or(st.trap, z3.And(pc, z3.Not(inb)))

    # ---- sections
    def section_indices(self, var, st, pc):
        """Return list of index tuples (concrete) denoted by array reference with ranges; None if scalar ref."""
        arr = st.vars[var.name.lower()]
        dims = var.dimensions or tuple(sym.RangeIndex((None, None)) for _ in arr.bounds)
        axes = []
        has_range = False
        for d, (lo, hi) in zip(dims, arr.bounds):
            if isinstance(d, sym.RangeIndex):
                has_range = True
                l = self.concrete(self.ev(d.lower, st, pc)) if d.lower is not None else lo
                u = self.concrete(self.ev(d.upper, st, pc)) if d.upper is not None else hi
                s = self.concrete(self.ev(d.step, st, pc)) if d.step is not None else 1
                axes.append([('c', k) for k in range(l, u + (1 if s > 0 else -1), s)])
            else:
                axes.append([('e', d)])
        if not has_range:
            return None
        combos = [tuple(reversed(t)) for t in itertools.product(*reversed(axes))]
        return combos

    def ev_elemental(self, e, st, pc, nelem, k):
        """Evaluate expression e for the k-th element of the conforming section."""
        if isinstance(e, sym.Array) and (st.vars.get(e.name.lower()) is not None) and isinstance(st.vars[e.name.lower()], Arr):
            combos = self.section_indices(e, st, pc)
            if combos is not None:
                assert len(combos) == nelem, (len(combos), nelem, str(e))
                idx = tuple(z3.IntVal(v) if kind == 'c' else self.ev(v, st, pc) for kind, v in combos[k])
                return self.select(st.vars[e.name.lower()], idx, st, pc)
            return self.ev(e, st, pc)
        if isinstance(e, (sym.Sum, sym.Product)):
            vals = [self.ev_elemental(c, st, pc, nelem, k) for c in e.children]
            r = vals[0]
            for v in vals[1:]:
                r = self.arith(r, v, (lambda a, b: a + b) if isinstance(e, sym.Sum) else (lambda a, b: a * b))
            return r
        return self.ev(e, st, pc)

    # ---- statements
    def run_body(self, body, st, pc):
        for n in body:
            st = self.run(n, st, pc)
        return st

    def run(self, n, st, pc):
        if isinstance(n, (tuple, list)):
            return self.run_body(n, st, pc)
        if isinstance(n, (ir.Comment, ir.CommentBlock, ir.Pragma, ir.VariableDeclaration, ir.Import)):
            return st
        if isinstance(n, ir.Section):
            if isinstance(n, ir.Associate):
                raise Unsupported('associate')
            return self.run_body(n.body, st, pc)
        if isinstance(n, ir.Assignment):
            lhs = n.lhs
            if isinstance(lhs, sym.Array):
                arr = st.vars[lhs.name.lower()]
                combos = self.section_indices(lhs, st, pc)
                if combos is not None:
                    # Fortran: evaluate full RHS first
                    vals = [self.ev_elemental(n.rhs, st, pc, len(combos), k) for k in range(len(combos))]
                    for k, c in enumerate(combos):
                        idx = tuple(z3.IntVal(v) if kind == 'c' else self.ev(v, st, pc) for kind, v in c)
                        self.store(arr, idx, vals[k], st, pc)
                    return st
                idx = tuple(self.ev(d, st, pc) for d in lhs.dimensions)
                self.store(arr, idx, self.ev(n.rhs, st, pc), st, pc)
                return st
            val = self.ev(n.rhs, st, pc)
            old = st.vars[lhs.name.lower()]
            if val.sort() != old.sort():
                val = z3.ToReal(val) if old.sort() == z3.RealSort() else z3.ToInt(val)
            st.vars[lhs.name.lower()] = val if z3.is_true(pc) else z3.If(pc, val, old)
            return st
        if isinstance(n, ir.Conditional):
            c = self.ev(n.condition, st, pc)
            s1 = self.run_body(n.body, st.copy(), z3.And(pc, c))
            s2 = self.run_body(n.else_body or (), st.copy(), z3.And(pc, z3.Not(c)))
            return merge(c, s1, s2)
        if isinstance(n, ir.Loop):
            lo = self.concrete(self.ev(n.bounds.start, st, pc))
            hi = self.concrete(self.ev(n.bounds.stop, st, pc))
            step = self.concrete(self.ev(n.bounds.step, st, pc)) if n.bounds.step is not None else 1
            cnt = max(0, (hi - lo + step) // step) if step > 0 else max(0, (lo - hi - step) // (-step))
            v = n.variable.name.lower()
            for k in range(cnt):
                st.vars[v] = z3.IntVal(lo + k * step)
                st = self.run_body(n.body, st, pc)
            st.vars[v] = z3.IntVal(lo + cnt * step)
            return st
        if isinstance(n, ir.CallStatement):
            return self.call(n, st, pc)
        raise Unsupported(f'node {type(n)}')

    def call(self, n, st, pc):
        callee = self.routines[str(n.name).lower()]
        frame = State()
        frame.trap = st.trap
        binds = []
        amap = dict(zip([a.name.lower() for a in callee.arguments], n.arguments))
        for k, v in n.kwarguments or ():
            amap[k.lower()] = v
        # bind scalars first (sizes needed for array bounds)
        for a in callee.arguments:
            actual = amap[a.name.lower()]
            if not isinstance(a, sym.Array):
                frame.vars[a.name.lower()] = self.ev(actual, st, pc)
                binds.append((a, actual))
        for a in callee.arguments:
            actual = amap[a.name.lower()]
            if isinstance(a, sym.Array):
                src = st.vars[actual.name.lower()]
                if actual.dimensions:
                    raise Unsupported('array section/element actual')
                frame.vars[a.name.lower()] = src  # by reference (same bounds assumed)
        self.declare_locals(callee, frame, skip=set(frame.vars))
        frame = self.run_body(callee.body.body, frame, pc)
        st.trap = frame.trap
        for a, actual in binds:
            if str(a.type.intent).lower() in ('out', 'inout') and isinstance(actual, (sym.Scalar, sym.Array)):
                if isinstance(actual, sym.Array):
                    arr = st.vars[actual.name.lower()]
                    self.store(arr, tuple(self.ev(d, st, pc) for d in actual.dimensions), frame.vars[a.name.lower()], st, pc)
                else:
                    st.vars[actual.name.lower()] = frame.vars[a.name.lower()]
        return st

    def sort_of(self, v):
        d = v.type.dtype
        return {BasicType.INTEGER: z3.IntSort(), BasicType.REAL: z3.RealSort(), BasicType.LOGICAL: z3.BoolSort()}[d]

    def declare_locals(self, routine, st, skip=(), prefix=''):
        for v in routine.variables:
            name = v.name.lower()
            if name in skip:
                continue
            if isinstance(v, sym.Array):
                bounds = []
                for d in v.shape:
                    if isinstance(d, sym.RangeIndex):
                        bounds.append((self.concrete(self.ev(d.lower, st, z3.BoolVal(True))),
                                       self.concrete(self.ev(d.upper, st, z3.BoolVal(True)))))
                    else:
                        bounds.append((1, self.concrete(self.ev(d, st, z3.BoolVal(True)))))
                arr = Arr(name, bounds, self.sort_of(v))
                for idx in arr.indices():
                    arr.elems[idx] = z3.Const(f'{prefix}{name}_{"_".join(map(str, idx))}', arr.sort)
                st.vars[name] = arr
            else:
                if name in self.sizes:
                    st.vars[name] = z3.IntVal(self.sizes[name])
                else:
                    st.vars[name] = z3.Const(f'{prefix}{name}', self.sort_of(v))

    def run_routine(self, routine):
        st = State()
        # scalars first
        scal = [v for v in routine.variables if not isinstance(v, sym.Array)]
        arrs = [v for v in routine.variables if isinstance(v, sym.Array)]
        class R:  # tiny shim for ordering
            variables = scal + arrs
        self.declare_locals(R, st, prefix='in_')
        st = self.run_body(routine.body.body, st, z3.BoolVal(True))
        return st


def outputs(routine, st):
    outs = []
    for a in routine.arguments:
        if str(a.type.intent).lower() in ('out', 'inout'):
            v = st.vars[a.name.lower()]
            if isinstance(v, Arr):
                outs += [(f'{a.name}{idx}', v.elems[idx]) for idx in v.indices()]
            else:
                outs.append((a.name, v))
    return outs


def equivalent(r1, r2, routines1, routines2, sizes):
    s1 = Interp(routines1, sizes).run_routine(r1)
    s2 = Interp(routines2, sizes).run_routine(r2)
    o1, o2 = outputs(r1, s1), outputs(r2, s2)
    assert [n for n, _ in o1] == [n for n, _ in o2]
    s = z3.Solver()
    s.add(z3.Not(s1.trap))
    s.add(z3.Or(s2.trap, *[a != b for (_, a), (_, b) in zip(o1, o2)]))
    r = s.check()
    return str(r), (s.model() if str(r) == 'sat' else None)
