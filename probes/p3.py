from loki.types.symbol_table import SymbolTable, SymbolAttributes
from loki.types import BasicType
POOL = ['a', 'A', 'b', 'B', 'aB(1)']
def f_idx(i: int, j: int) -> bool:
    """
    pre: 0 <= i < 5 and 0 <= j < 5
    post: _
    """
    st = SymbolTable()
    st[POOL[i]] = SymbolAttributes(BasicType.INTEGER)
    k = POOL[j]
    return (k in st) == (POOL[i].lower().partition('(')[0] == k.lower().partition('(')[0])

def f_str(s: str, t: str) -> bool:
    """
    pre: len(s) <= 2 and len(t) <= 2 and len(s) > 0 and len(t) > 0
    post: _
    """
    st = SymbolTable()
    st[s] = SymbolAttributes(BasicType.INTEGER)
    return (t in st) == (s.lower().partition('(')[0] == t.lower().partition('(')[0])

def f_del(i: int, j: int) -> bool:
    """
    pre: 0 <= i < 5 and 0 <= j < 5
    post: _
    """
    st = SymbolTable()
    st[POOL[i]] = SymbolAttributes(BasicType.INTEGER)
    k = POOL[j]
    if k in st:
        try:
            del st[k]
        except KeyError:
            return False
        return k not in st
    return True
