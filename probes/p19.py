from loki.expression import symbols as sym
from loki.types import BasicType, SymbolAttributes, DerivedType, ProcedureType, Scope
from loki.batch.configure import SchedulerConfig
from loki.batch.item import Item

NAMES = ['v', 'V']
def f_cls(t: int, shp: bool, dims: bool, scoped: bool, nm: int) -> bool:
    """
    pre: 0 <= t < 5 and 0 <= nm < 2
    post: _
    """
    scope = Scope()
    i = sym.Variable(name='i')
    types = [None, SymbolAttributes(BasicType.INTEGER), SymbolAttributes(BasicType.DEFERRED),
             SymbolAttributes(DerivedType('tt')), SymbolAttributes(ProcedureType('v', is_function=False))]
    ty = types[t]
    if ty is not None and shp:
        ty = ty.clone(shape=(sym.IntLiteral(3),))
    kw = {'name': NAMES[nm]}
    if scoped:
        kw['scope'] = scope
    if ty is not None:
        kw['type'] = ty
    if dims:
        kw['dimensions'] = (i,)
    v = sym.Variable(**kw)
    if t == 4:
        return isinstance(v, sym.ProcedureSymbol)
    if dims or (ty is not None and shp):
        return isinstance(v, sym.Array)
    if t in (1, 3):
        return isinstance(v, sym.Scalar)
    return isinstance(v, sym.DeferredTypeSymbol)

ITEMS = ['mod#r', 'MOD#R', 'r', 'R', 'mod#t%p', 'other#r']
KEYS = ['r', 'R', 'mod#r', 'Mod#R', 'mod', 't', 'mod#t', 'x']
def f_match(i: int, k: int, parents: bool) -> bool:
    """
    pre: 0 <= i < 6 and 0 <= k < 8
    post: _
    """
    name, key = ITEMS[i], KEYS[k]
    got = SchedulerConfig.match_item_keys(name, [key], match_item_parents=parents)
    n = name.lower(); ky = key.lower()
    scope, _, local = n.rpartition('#') if n.count('#') == 1 else ('', '', n)
    cands = {n, local}
    if parents:
        if scope: cands.add(scope)
        if '%' in local:
            tname = local.split('%')[0]
            cands |= {tname, f'{scope}#{tname}'}
    return (len(got) == 1) == (ky in cands)

def f_item(i: int, j: int) -> bool:
    """
    pre: 0 <= i < 6 and 0 <= j < 6
    post: _
    """
    a, b = Item(ITEMS[i], source=None), Item(ITEMS[j], source=None)
    if (a == b) != (ITEMS[i].lower() == ITEMS[j].lower()):
        return False
    return (a != b) or hash(a) == hash(b)
