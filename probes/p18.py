from loki.expression import symbols as sym
from loki.types.symbol_table import SymbolTable, SymbolAttributes
from loki.types import BasicType
from loki.tools.util import CaseInsensitiveDict

def mk():
    a, A = sym.Variable(name='a'), sym.Variable(name='A')
    i = sym.Variable(name='i')
    return [
        a, A, sym.Variable(name='b'),
        sym.Variable(name='a', dimensions=(i,)), sym.Variable(name='A', dimensions=(sym.Variable(name='I'),)),
        sym.IntLiteral(1), sym.IntLiteral(1, kind=sym.Variable(name='jpim')), sym.FloatLiteral('1.0'), sym.FloatLiteral('1.0', kind=sym.Variable(name='JPRB')),
        sym.FloatLiteral('1.0', kind=sym.Variable(name='jprb')),
        sym.Sum((a, sym.IntLiteral(1))), sym.Sum((A, sym.IntLiteral(1))), sym.Product((a, i)), sym.Quotient(a, i),
        sym.LogicLiteral('true'), sym.LogicLiteral('.TRUE.'), sym.StringLiteral('a'), sym.StringLiteral('A'),
        sym.RangeIndex((sym.IntLiteral(2), a)), sym.RangeIndex((sym.IntLiteral(2), A)),
        sym.InlineCall(sym.Variable(name='f'), parameters=(a,)), sym.InlineCall(sym.Variable(name='F'), parameters=(A,)),
        sym.Cast('real', a), sym.Cast('REAL', A),
        sym.Comparison(a, '==', i), sym.LogicalNot(a),
    ]
POOL = None

def f_eq(i: int, j: int) -> bool:
    """
    pre: 0 <= i < 26 and 0 <= j < 26
    post: _
    """
    P = mk()
    x, y = P[i], P[j]
    e1 = (x == y)
    e2 = (y == x)
    if e1 != e2:
        return False
    if e1 and hash(x) != hash(y):
        return False
    return True

KEYS = ['a', 'A', 'b', 'B', 'a(1)']
def f_step(p0: bool, p1: bool, c0: bool, c1: bool, op: int, k: int) -> bool:
    """
    pre: 0 <= op < 6 and 0 <= k < 5
    post: _
    """
    parent = SymbolTable()
    child = SymbolTable(parent=parent)
    ref_p, ref_c = {}, {}
    I, R = SymbolAttributes(BasicType.INTEGER), SymbolAttributes(BasicType.REAL)
    if p0: parent['a'] = I; ref_p['a'] = I
    if p1: parent['b'] = I; ref_p['b'] = I
    if c0: child['a'] = R; ref_c['a'] = R
    if c1: child['b'] = R; ref_c['b'] = R
    key = KEYS[k]
    ck = key.lower().partition('(')[0]
    if op == 0:
        return (key in child) == (ck in ref_c)
    if op == 1:
        v = child.lookup(key)
        exp = ref_c.get(ck, ref_p.get(ck))
        return (v is None and exp is None) or (v is not None and exp is not None and v.dtype == exp.dtype)
    if op == 2:
        child[key] = I
        return child.get(ck).dtype == BasicType.INTEGER and len(child) == len(set(ref_c) | {ck})
    if op == 3:
        v = child.get(key)
        exp = ref_c.get(ck)
        return (v is None) == (exp is None)
    if op == 4:
        child.setdefault(key, I)
        return child.get(ck).dtype == (ref_c[ck].dtype if ck in ref_c else BasicType.INTEGER)
    if op == 5:
        c2 = child.clone()
        c2[key] = I
        return (child.get(ck) is None) == (ck not in ref_c)
    return True
