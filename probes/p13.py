import operator as op
from loki.expression import symbols as sym
from loki.expression.symbolic import symbolic_op, simplify
n, m = sym.Variable(name='n'), sym.Variable(name='m')
one = sym.IntLiteral(1)
for name, a, b in [('n vs n+1', n, sym.Sum((n, one))), ('n vs m', n, m), ('n vs n', n, n), ('n*m vs 0', sym.Product((n,m)), sym.IntLiteral(0)),
                   ('2n vs n', sym.Product((2,n)), n), ('n+1 vs n+1', sym.Sum((n,one)), sym.Sum((n,one))), ('n/2 vs n/2+1', sym.Quotient(n,2), sym.Sum((sym.Quotient(n,2),one))),
                   ('(n+1)/2 vs n/2', sym.Quotient(sym.Sum((n,one)),sym.IntLiteral(2)), sym.Quotient(n,sym.IntLiteral(2))), ('-n vs 0', sym.Product((-1,n)), sym.IntLiteral(0))]:
    for o in (op.eq, op.ne, op.lt, op.le, op.gt, op.ge):
        try:
            r = symbolic_op(a, o, b)
        except Exception as e:
            r = type(e).__name__
        print(name, o.__name__, r, end=' | ')
    print()
