import time
from loki import Subroutine, Sourcefile, fgen
from loki.transformations.array_indexing import resolve_vector_notation
from loki.transformations.inline import inline_member_procedures, inline_internal_procedures
from fsym import *

SRC1 = """
subroutine vec(n, a, b)
  integer, intent(in) :: n
  integer, intent(inout) :: a(n), b(n)
  a(2:n) = a(1:n-1) + b(2:n)
  b(:) = a(:) * 2
end subroutine vec
"""
t0 = time.time()
r1 = Subroutine.from_source(SRC1)
r2 = r1.clone()
resolve_vector_notation(r2)
print(fgen(r2.body))
print(equivalent(r1, r2, [r1], [r2], {'n': 4}), time.time() - t0)

SRC2 = """
subroutine outer(n, a, x)
  integer, intent(in) :: n
  integer, intent(inout) :: a(n)
  integer, intent(inout) :: x
  integer :: i, tmp
  tmp = x
  do i=1,n
    call inner(a(i), tmp)
  end do
  x = tmp
contains
  subroutine inner(v, acc)
    integer, intent(inout) :: v
    integer, intent(inout) :: acc
    integer :: tmp
    tmp = v / 2
    if (tmp > acc) then
      acc = tmp
    else
      v = v + acc
    end if
  end subroutine inner
end subroutine outer
"""
t0 = time.time()
r1 = Subroutine.from_source(SRC2)
r2 = r1.clone()
inline_internal_procedures(r2)
print(fgen(r2.body))
print(equivalent(r1, r2, [r1] + list(r1.members), [r2], {'n': 3}), time.time() - t0)
