from loki import Subroutine, fgen
def t(stmt):
    src = f"""
subroutine s(u)
  integer :: u
  character(len=40) :: c
  {stmt}
  print *, c
end subroutine s
"""
    try:
        r = Subroutine.from_source(src)
        out = fgen(r.body)
        print(repr(stmt), '=>', repr(out.splitlines()[0]))
    except Exception as e:
        print(repr(stmt), 'ERR', type(e).__name__, str(e)[:100].replace('\n',' '))
t("c = 'see __FILE__ here'")
t('c = "see __FILE__ here"')
t('c = "line __LINE__"')
t("c = 'a @PROCESS b'")
t("open(10, file='nEWUnIt=')")
t("open(11, file='a') ! ,CONVERT=\"BIG_ENDIAN\"")
t("open(12, file='x,CONVERT=\"BIG_ENDIAN\"y')")
t("open(newunit=u, file='a')")
t("c = '__DATE__'  ! __DATE__")
