from loki import Subroutine, fgen, FindNodes, Assignment, CallStatement, MaskedStatement
from loki.analyse import dataflow_analysis_attached
from loki.expression.parser import parse_expr
# C07 oracle
r = Subroutine.from_source("""
subroutine s(a,b,c,d,r)
  integer :: a,b,c,d,r
  r = -a**b
  r = a*b/c/d
  r = a*(-b)
end subroutine s
""")
for a in FindNodes(Assignment).visit(r.body):
    print(repr(a.rhs)[:200])
try:
    r = Subroutine.from_source("""
subroutine s(a,b,r)
  integer :: a,b,r
  r = a*-b
end subroutine s
""")
    print('a*-b parsed:', fgen(r.body))
except Exception as e:
    print('a*-b', type(e).__name__)

# C26
kernel = Subroutine.from_source("""
subroutine k(x, y, z)
  integer :: x
  integer, intent(in) :: y
  integer, intent(out) :: z
  x = y
  z = y
end subroutine k
""")
drv = Subroutine.from_source("""
subroutine d(a, b, c, m, n)
  integer, intent(inout) :: a, b, c
  integer, intent(in) :: n
  integer, intent(inout) :: m(n)
  integer :: t(n)
  call k(a, b, c)
  where (m > 0)
    t = 1
  elsewhere
    m = t
  end where
end subroutine d
""")
drv.enrich(kernel)
with dataflow_analysis_attached(drv):
    for n in FindNodes(CallStatement).visit(drv.body) + FindNodes(MaskedStatement).visit(drv.body):
        print(type(n).__name__, 'defines', [str(s) for s in n.defines_symbols], 'uses', [str(s) for s in n.uses_symbols])
