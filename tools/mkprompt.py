#!/usr/bin/env python3
"""print the seed-agent prompt for a property: tools/mkprompt.py <id> [extra text]"""
import json, sys
props = {json.loads(l)['id']: json.loads(l) for l in open('/verif/properties.jsonl')}
pid = sys.argv[1]; wt = f'/tmp/wt_{pid}'
p = props[pid]
extra = sys.argv[2] if len(sys.argv) > 2 else ''
print(f'''You are testing how well a verification effort catches regressions in the Python project ecmwf-ifs/loki (a Fortran source-to-source compiler). You have your own scratch git worktree of the repository at {wt} (python: /venv/bin/python; run things from inside the worktree with PYTHONPATH={wt} so that the worktree's `loki` package is imported, e.g. `cd {wt} && PYTHONPATH={wt} /venv/bin/python -m pytest loki/expression/tests -q -p no:cacheprovider -n 8`). Work ONLY inside {wt}; never touch /repo or /verif (do not read /verif either). No network.

Property that must hold for loki ({pid}: {p['title']}):
"{p['statement']}"
Quantifier: {p['quantifier']['text']}
Code anchors: {', '.join(p['anchors']['files'])}; mechanisms: {'; '.join(m['name'] + ' @ ' + m.get('where', '') for m in p['anchors']['mechanism'])}
{extra}

Your task: produce ONE realistic change (a plausible bug a developer could introduce: a refactoring slip, an off-by-one, a wrong condition/sign, a missed case, two sites that each look fine alone) to the loki source in {wt} that BREAKS this property, while
 (a) the code still imports/compiles,
 (b) the existing test suite still passes: run the test directories covering the files you touched and everything that uses them (e.g. `PYTHONPATH={wt} /venv/bin/python -m pytest loki -q -p no:cacheprovider -n 8 --timeout=900`) and compare with the unmodified state (some tests fail already at baseline, mostly f2py/compiler-environment related: only *newly* failing tests count; to compare with the unmodified state use `git diff > /tmp/my_{pid}.diff; git apply -R /tmp/my_{pid}.diff; ...; git apply /tmp/my_{pid}.diff` -- do NOT use `git stash`, the stash is shared with other worktrees), and
 (c) the breakage needs something specific to manifest (an unusual input, a particular value/sign/length, a particular combination or sequence of operations, a rarely used option), i.e. NOT something ordinary use or the existing tests would expose at once. Prefer subtle semantic breakage over crashes.
Do not modify any test files. Keep the change small (a few lines).

Deliver, inside {wt}:
 1. `{wt}/seed/patch.diff`: output of `git diff` for your source change only (the seed/ directory itself must not be part of the diff).
 2. `{wt}/seed/demo.py`: a small standalone program (run as `cd {wt} && PYTHONPATH={wt} /venv/bin/python seed/demo.py`) that exits 0 on the unmodified code and exits non-zero (with a clear message) with your change applied. It must demonstrate a violation of the property as stated (compare computed values / outputs / behaviours), not just detect that the source text changed.
 3. `{wt}/seed/meta.json`: {{"property": "{pid}", "summary": "...", "needs_to_manifest": "...", "files_changed": [...], "tests_run": "command + result summary"}}.
Leave the change APPLIED in the worktree when you finish. Verify yourself that demo.py passes with the change removed (`git apply -R seed/patch.diff`; seed/ is untracked so it stays) and fails with the change applied (`git apply seed/patch.diff`). In your final answer, summarise the change, what it needs to manifest, and the exact test commands you ran with their pass/fail counts.''')
