# executed by gen_manifest.py; uses claim(...) and NA[...]
claim('C06', 'model_checking',
      'Bounded solver check: for every tree of a stated finite family (depth<=3/4, incl. trees produced by the real SubstituteExpressions and simplify) and both backends, z3 shows there is no valuation (|ints|,|reals|<=6, exponents 0..3) at which the emitted text, re-read by an independent standard-conformant reference parser, differs from the tree; sat models are replayed with gfortran/gcc before being reported.',
      'Trusted: vlib/refparse.py (Fortran R7xx / C 6.5 precedence), vlib/fsmt/sem.py value semantics, z3; integer overflow and FP rounding outside the claim (UF pass reported separately).',
      'SMT equivalence (z3) of expression tree vs re-parsed backend text, compiler replay', 'E-SMT', 'DESIGN.md#C06')

NA.update({
 'C19': 'planned (regex -> z3 against reference statement grammars) but not built in the time available; not replaced by another technique',
 'C02': 'pure text/structure identity over programs: no value domain for a solver (behavioural shadow covered by C01)',
 'C14': 'tree/node-identity property; CrossHair cannot execute Transformer (proxy intolerance on node hashing) and a hand encoding would model, not run, the code',
 'C15': 'pure structural search result; visitors not executable symbolically, no value domain',
 'C22': 'graph traversal order over networkx objects and files; no value domain',
 'C24': 'file-system effects of whole scheduler runs; plan and write share one path function, nothing for a solver to decide',
 'C25': 'project-level graph/source consistency plus compile-and-link; no value domain',
 'C40': 'textual idempotence of transformations over programs; solver adds nothing',
 'C41': 'scope-chain/declaration well-formedness plus compiler acceptance; no value domain',
 'C42': 'real OS processes, Manager dict, ProcessPoolExecutor: interleavings behind IPC boundaries unreachable for symbolic execution of the real code',
 'C44': 'process pool / futures / compiler subprocesses; a TLA+/Promela model would be a different technique family',
})
claim('C07', 'model_checking',
      'Bounded solver check: for every string of a stated finite family of well-formed Fortran expressions (all chains of <=3/4 binary operators with signs and parentheses, both comparison spellings, logical operators, kinds, subscripts, components, intrinsics) z3 shows parse_expr\'s tree and the FP frontend\'s tree for the same text have equal value for every valuation in the bound; the frontend oracle is itself cross-checked per string against an independent reference parser; sat models are replayed with gfortran.',
      'Trusted: value semantics in vlib/fsmt/sem.py, z3, gfortran for replay. Outside: strings/array constructors, overflow, FP rounding.',
      'SMT equivalence (z3, Int/Real and sized bit-vector encodings) of parser tree vs frontend tree, compiler replay', 'E-SMT', 'DESIGN.md#C07')
claim('C08', 'model_checking',
      'Bounded solver check: the real simplify() is run on every tree of a stated typed family (arithmetic depth<=2/3 over ints and reals, literal-heavy shapes with values -3..6, comparisons, logical trees) for subsets of the Simplification flags (all 32 in the thorough tier) and z3 decides whether any valuation (|v|<=6, non-zero divisors) separates tree and result, under truncating INTEGER division for integer trees and exact reals for real trees; sat models are replayed with gfortran. Thorough tier adds CrossHair conditions with symbolic literal values.',
      'Trusted: vlib/fsmt value semantics, z3, gfortran replay. Reals are exact (re-association is not a violation). A crash of simplify is recorded but is not a value change.',
      'SMT equivalence (z3 Int/BV/Real) of tree vs simplify(tree), rational-reading discriminator query, compiler replay', 'E-SMT', 'DESIGN.md#C08')
claim('C10', 'model_checking',
      '(A) CrossHair executes the real get_pyrange with symbolic start/stop (|.|<=6/9) per step of a grid and confirms over all paths that the sequence equals the Fortran DO sequence; (B) get_pyrange is re-translated from its source (ast->z3) on every run and z3 proves length and k-th element equal the Fortran trip-count semantics for unbounded start/stop per step; (C) the trees returned by num_iterations/normalized/iteration_number/iteration_index are encoded and z3 proves agreement with the visited sequence for every non-empty loop with |s|,|e|,|st|<=8.',
      'Trusted: CrossHair/z3, vlib/pyast.py translation (CPython range formulas), vlib/fsmt semantics. Steps come from a concrete grid in (A)/(B).',
      'CrossHair symbolic execution + ast->z3 translation + SMT equivalence of helper expression trees', 'E-XH', 'DESIGN.md#C10')
claim('C09', 'model_checking',
      'Bounded solver check: the real symbolic_op is called on every ordered pair of a stated family of integer expression trees (31 quick / 39 thorough) with all six operators; for every Boolean answer z3 searches a valuation (|n|,|m|,|k|<=8) contradicting it; sat models are replayed by concrete evaluation against the real call. Pairs for which symbolic_op raises TypeError carry no claim.',
      'Trusted: vlib/fsmt integer semantics, z3.',
      'SMT search (z3) for a valuation contradicting each definite answer of symbolic_op', 'E-SMT', 'DESIGN.md#C09')
claim('C12', 'model_checking',
      'CrossHair (symbolic execution with z3) runs the real SymbolTable / Scope / CaseInsensitiveDict / CaseInsensitiveDefaultDict through ONE operation from an arbitrary valid pre-state (symbolic Booleans decide the content of a 2-3 level chain) with the key spelling selected by a symbolic index into a pool of case/dimension variants, and confirms over all paths that result and complete post-state equal a reference mapping keyed by the case-folded name; one step from any valid state covers operation sequences of any length within the pools.',
      'Trusted: CrossHair 0.0.110 + z3; the reference mapping in harness/C12_tables.py. Bounds: names a,b,c; 6/8 spellings; 2-3 levels. Reachability twin per condition.',
      'CrossHair symbolic execution, one inductive step against a reference mapping', 'E-XH', 'DESIGN.md#C12')
claim('C13', 'model_checking',
      'CrossHair confirms over all paths of the real Variable factory that the class of the created symbol follows the documented tier table for every combination of declared type (7 kinds), shape, subscripts, explicit/looked-up type, scope nesting and name spelling, and that a type update through a scope is seen by attached symbols of any spelling and not by detached ones.',
      'Trusted: CrossHair + z3; tier table transcribed from the docstring. Outside: derived-type member resolution through typedefs.',
      'CrossHair symbolic execution over pool-indexed type/shape/scope choices', 'E-XH', 'DESIGN.md#C13')
claim('C21', 'model_checking',
      'PARTIAL (config-key matching kernel only): CrossHair confirms over all paths that SchedulerConfig.match_item_keys agrees with a reference written from its docstring for every item-name/key pair of stated pools (scoped, type-bound, nested names; plain, scoped and fnmatch keys; case variants) and every flag combination, for single keys, key lists and under case permutation.',
      'Graph construction, discovery, pruning and edges have no value domain for a solver and are NOT claimed (DESIGN.md section 6).',
      'CrossHair symbolic execution over pool-indexed names and keys', 'E-XH', 'DESIGN.md#C21')
claim('C23', 'model_checking',
      'PARTIAL (item identity / name-handling kernel only): CrossHair explores all pairs of a pool of item names incl. case variants and item classes: equality symmetric and case-insensitive, equal items hash equal, container membership agrees with equality, string comparison, scope_name/local_name and DuplicateKernel naming under case permutation.',
      'Graph, processing order and generated code under case permutation are NOT claimed (no value domain).',
      'CrossHair symbolic execution over pool-indexed item names', 'E-XH', 'DESIGN.md#C23')
TV_NOTE = 'Trusted: the symbolic Fortran interpreter vlib/fsmt/interp.py + vlib/fsmt/sem.py (self-validated against gfortran), z3, gfortran for replay. Bounds: fixed small extents per size instance, bounded loop unwinding with unwinding assertion, ints |v|<=6, reals first as uninterpreted arithmetic (holds for any FP) then exact reals. Template families are finite and listed in vlib/corpus.'
claim('C30', 'translation_validation',
      'For every template of a stated family of array-section assignments (overlapping, strided, negative stride, shifted lower bounds, 2-D, masked, nested in loops/branches) and every transformation variant that keeps the declared index space, the real transformation is applied and z3 decides, over all input values at the instance sizes, whether original and transformed routine can differ in any array element (or trap); models are replayed with gfortran -fcheck=bounds.',
      TV_NOTE + ' Outside: shift_to_zero_indexing / invert_array_indices / flatten_arrays (change of index space).',
      'translation validation: symbolic interpretation of original and transformed IR + SMT equivalence (z3), compiler replay', 'E-SMT', 'DESIGN.md#C28-C34')
for _pid, _what in [('C28', 'inlining (internal procedures, marked subroutines, statement/elemental/other functions, constant parameters, InlineTransformation)'),
                    ('C29', 'associate resolution (full / partial depth) and merging'),
                    ('C31', 'loop unrolling on literal bounds (18 start/stop/step combinations, nested depths) and fusion / fission / interchange / blocking on nests legal by construction'),
                    ('C32', 'constant propagation (with / without unrolling), dead-code removal, unused variable / dummy / call argument removal')]:
    claim(_pid, 'translation_validation',
          f'For every template of a stated finite family the real {_what} is applied to the freshly parsed program; original and result are interpreted symbolically and z3 decides, over all input values at the instance sizes, whether any observable (argument values, module variables, PRINT output, abort, trap) can differ; models are replayed with gfortran -fcheck=bounds.',
          TV_NOTE, 'translation validation: symbolic interpretation of original and transformed IR + SMT equivalence (z3), compiler replay', 'E-SMT', 'DESIGN.md#C28-C34')
claim('C01', 'translation_validation',
      'Every program of a corpus covering the constructs named by the property (plus every source of the transformation templates and programs whose assignments are filled from the C07 expression-string family) is parsed with the FP frontend, regenerated with fgen and parsed again; z3 decides whether the two IRs can differ observably for any input. The interpreter itself is validated on the same programs against gfortran with solver-chosen admissible inputs (quick: 1 seed, thorough: 5 seeds + all template sources).',
      TV_NOTE + ' The frontend half (IR vs an independent meaning of the text) is solver-checked only for expressions (C07); for whole programs it is covered by the gfortran self-validation, i.e. by sampling.',
      'translation validation of parse/fgen/parse by symbolic interpretation + SMT equivalence; interpreter self-validation against gfortran', 'E-SMT', 'DESIGN.md#C01')
for _pid, _txt in [('C03', 'PARTIAL (behavioural half): after a semantically visible edit through the public API the conservative output is re-parsed and z3 proves it equivalent to the modified IR for every input; the verbatim-text half has no value domain and is not claimed.'),
                   ('C16', 'PARTIAL (behavioural projection): attach/detach of pragmas, pragma regions and dataflow analysis (nested, functional, with raising bodies) leaves a unit whose meaning z3 proves equal to the original; node identity / placement statements are not claimed.'),
                   ('C17', 'PARTIAL (behavioural projection): clones have the original meaning; editing one copy leaves the meaning of the other unchanged (z3 equivalence for every input); scope-chain / symbol-identity statements are not claimed.'),
                   ('C18', 'PARTIAL (behavioural projection): pickle round trips of source files, modules and routines preserve the meaning for every input (z3 equivalence); equality/attachment statements are not claimed.')]:
    claim(_pid, 'translation_validation', _txt, TV_NOTE, 'translation validation: symbolic interpretation + SMT equivalence (z3), compiler replay', 'E-SMT', 'DESIGN.md#C16-C18')
for _pid, _what in [('C33', 'region outlining (caller and generated routine interpreted together) and extraction of internal procedures'),
                    ('C34', 'call-signature rewrites: derived-type argument expansion, sequence-association resolution, explicit argument shapes, duplicate-argument removal (caller + callee pairs, entry = caller)')]:
    claim(_pid, 'translation_validation',
          f'For every template of a stated finite family the real {_what} is applied; original and result are interpreted symbolically and z3 decides, over all input values at the instance sizes, whether any observable can differ (a transformed program that refers to unbound names / mismatching argument lists is a candidate decided by the gfortran replay).',
          TV_NOTE + (' TypeboundProcedureCallTransformation is outside (type-bound calls are not interpreted).' if _pid == 'C34' else ''),
          'translation validation: symbolic interpretation of original and transformed IR + SMT equivalence (z3), compiler replay', 'E-SMT', 'DESIGN.md#C28-C34')
claim('C37', 'translation_validation',
      'Driver + kernel call trees (6 kernel shapes incl. nested kernels, temporaries, vector-section notation, conditionals) are transformed by the SCC V/S vector and V/S hoist pipelines with scheduler items exactly as the repository tests do; original and transformed call tree (entry = driver, pragmas = comments) are interpreted symbolically and z3 decides whether any input at the instance sizes gives different driver results; models are replayed with gfortran -fcheck=bounds.',
      TV_NOTE + ' Outside: CUF / low-level pipelines.', 'translation validation: symbolic interpretation + SMT equivalence (z3), compiler replay', 'E-SMT', 'DESIGN.md#C37')
claim('C38', 'translation_validation',
      'The C37 call trees that have temporaries are transformed by the hoisting and stack pipelines (V/S hoist, direct-index stack V/S, Fortran-pointer stack, raw stack); z3 decides equivalence of driver results for every input and whether the transformed program can trap on the stack / hoisted arrays (= not enough storage on some path).',
      TV_NOTE + ' Pointer-based allocator variants that the interpreter cannot encode are reported per run as not encoded; CONTIGUOUS on explicit-shape dummies is dropped for the gfortran replay build only.',
      'translation validation: symbolic interpretation + SMT equivalence and trap reachability (z3), compiler replay', 'E-SMT', 'DESIGN.md#C37')
claim('C26', 'model_checking',
      'The real dataflow_analysis_attached annotates each template routine; the same IR nodes are executed by the symbolic interpreter with an event layer that attributes every read/write (also through callee dummies, sections and associate names, by storage identity) to the stack of executing nodes. For every node instance and every variable NOT in the reported defines/uses/live set z3 decides whether an input exists on which the node writes it / reads it before writing it / executes with it holding an earlier value. Only the over-approximation direction is checked.',
      'Trusted: vlib/fsmt/interp.py event layer, z3. Loop induction variables are exempt (Loki convention: not considered outside the loop). Bounds: n in {3,4}, unwinding 6, ints |v|<=6.',
      'SMT feasibility (z3) of read/write events of a symbolic execution vs the reported dataflow sets', 'E-SMT', 'DESIGN.md#C26')
claim('C27', 'model_checking',
      'Same event layer as C26 with loop iteration numbers: for every loop instance and every inspection node, z3 decides for each unreported variable whether an input exists on which an element written earlier (previous iteration / before the node) is read later without an intervening overwrite; then loop_carried_dependencies / read_after_write_vars must have reported it.',
      'Trusted: vlib/fsmt/interp.py event layer, z3. Bounds as C26.',
      'SMT feasibility (z3) of write->read event pairs with kill conditions vs the dependency queries', 'E-SMT', 'DESIGN.md#C27')
claim('C43', 'translation_validation',
      'PARTIAL (behavioural part): files violating the fixable rules are checked and fixed by the real Linter in a scratch directory, read back and parsed; z3 decides whether the fixed program can behave differently from the original for any input. Whether the fixer runs at all and whether the fixed rules still report violations is executed concretely and reported (recorded defects: see known findings), but is not a solver verdict.',
      TV_NOTE + ' "All other text unchanged" has no value domain and is not claimed.',
      'translation validation (z3 equivalence of original vs fixed file) + concrete re-lint', 'E-SMT', 'DESIGN.md#C43')
claim('C04', 'model_checking',
      'CrossHair executes the real JoinableStringList wrapping with two symbolic item lengths per layout (separators, nesting, separable flag, indentation, quoted strings, blanks, width 132) and confirms over all paths that removing the continuation markers gives the unwrapped token sequence and that no line exceeds the width unless a single unbreakable piece does.',
      'Trusted: CrossHair + z3. Outside: whole-program fgen (IR is not executable under CrossHair), comments appended with comment=.',
      'CrossHair symbolic execution with symbolic string lengths', 'E-XH', 'DESIGN.md#C04')
claim('C05', 'model_checking',
      'For every rule of the live sanitize registry and every untargeted context (string literals in four statement kinds, trailing and full-line comments, identifier infix) z3 (string theory, live pattern translated from re._parser.parse) decides whether a payload of <= 24 characters exists on which the rule fires; unsat = the rule can never touch that context; every sat model is replayed through the real FP frontend + fgen and counts as a violation only if parsing fails or the payload is not preserved.',
      'Trusted: vlib/rx.py (self-tested against Python re on every run), z3 sequence theory. Outside: continuation lines, the targeted OPEN statements themselves.',
      'regex -> z3 regular-expression membership over a symbolic payload string, replay through the real frontend', 'E-RX', 'DESIGN.md#C05')
claim('C11', 'model_checking',
      'CrossHair explores all pairs of a pool of 45 expression nodes of every kind in spellings differing in letter case (quick: adjacent pairs) plus IntLiteral / FloatLiteral laws with symbolic values and kinds: equality symmetric and case-insensitive, equal nodes hash equal, != is the negation, usability as dict keys, and the 1:n == n shortcut is the only cross-kind equality.',
      'Trusted: CrossHair + z3; pool classes in harness/C11_expr_eq.py. For the pool part the solver contributes path feasibility / exhaustiveness only.',
      'CrossHair symbolic execution over pool-indexed nodes and symbolic literal values', 'E-XH', 'DESIGN.md#C11')
claim('C20', 'model_checking',
      'PARTIAL (span-arithmetic kernel only): CrossHair confirms over all paths, for symbolic text over {a, b, newline} (length <= 4-6), symbolic character span and first line number, that Source objects derived by clone_with_span / clone_lines / clone_with_string / join_source_list from a Source that matches the file are again consistent with the file.',
      'Which span each frontend attaches to which node kind needs fparser / the regex frontend under CrossHair (not executable): NOT claimed.',
      'CrossHair symbolic execution over symbolic strings and spans', 'E-XH', 'DESIGN.md#C20')
claim('C39', 'translation_validation',
      'A driver + kernels project is written to a scratch directory and processed by the real Scheduler with ParametriseTransformation (5 choices of parametrised arguments / values, replace_by_value on/off). (a) z3 proves the transformed driver equivalent to the original for every input in which the parametrised dummies have the fixed values; (b) z3 proves that no input with a non-matching value escapes the generated guard (the transformed driver aborts).',
      TV_NOTE + ' Outside: custom abort / replace callbacks.',
      'translation validation (z3 equivalence under the matching assumption) + SMT unreachability of a non-aborting mismatch', 'E-SMT', 'DESIGN.md#C39')

claim('C36', 'translation_validation',
      'Bounded translation validation: the real FortranPythonTransformation + pygen are run on each of 79 Fortran kernels (arithmetic and literals, integer division, real->integer conversion, logicals, IF chains, DO loops with positive/negative/zero-trip ranges, DO WHILE, mapped intrinsics, casts, 1-D/2-D/local arrays, array sections, whole-array statements, non-default lower bounds) x size instances; the original is interpreted with Fortran semantics and the generated function (Python ast) with Python/numpy semantics on the same symbolic inputs, called the way the repository tests call it; z3 decides for EVERY input within the bounds whether a returned scalar or array element differs or the function raises; models are replayed (gfortran build of the original vs CPython+numpy run of the generated module).',
      'Trusted: vlib/fsmt (Fortran semantics, self-validated against gfortran in C01) and vlib/fsmt/pysem.py (Python/numpy semantics; every counterexample is confirmed by CPython+numpy, an unconfirmed one is reported as inconclusive), z3. Bounds: |ints| <= 6, reals exact (uninterpreted first), extents 3-5, exponents 0..3, while-loops 5 iterations with unwinding condition. Outside: with_dace / invert_indices, derived types, real32 rounding, np.int32 overflow, SELECT CASE / WHERE / EXIT (no pygen handler).',
      'translation validation: symbolic interpretation of Fortran IR and of the generated Python ast + SMT equivalence (z3), gfortran/CPython replay', 'E-SMT', 'DESIGN.md#C36')

claim('C35', 'translation_validation',
      'Bounded translation validation: the real FortranCTransformation (and FortranISOCWrapperTransformation) are run on each of ~105 Fortran kernels (the C36 families plus 3-D index flattening, non-default lower bounds, signs of integer division / MOD, SELECT CASE, EXIT / CYCLE / RETURN, logical arguments and locals, nested intrinsics) x size instances; the original is interpreted with Fortran semantics and the generated kernel -- parsed from the emitted C text -- with C semantics on the same symbolic inputs; z3 decides for EVERY input within the bounds whether an output differs or a subscript leaves its array; a kernel rejected by gcc is a violation; models are replayed end to end through the generated ISO-C wrapper (gfortran + gcc with ASan/UBSan).',
      'Trusted: vlib/fsmt (Fortran semantics) and vlib/fsmt/csem.py (C parser + semantics; every counterexample is confirmed by gcc/gfortran), z3. Bounds: |ints| <= 6, doubles exact (uninterpreted first), extents 3-5, exponents 0..3, input-dependent loops 5/40 iterations with unwinding condition. Outside: derived-type arguments / header modules, cpp and cuda variants, global variables, overflow and rounding; the ISO-C wrapper is exercised by replays only (PARTIAL for the wrapper).',
      'translation validation: symbolic interpretation of Fortran IR and of the generated C text + SMT equivalence (z3), gfortran/gcc end-to-end replay', 'E-SMT', 'DESIGN.md#C35')
