#!/usr/bin/env python3
"""Run the repository's pinned test suite (guard OFF) and compare with /root/.vp/BASELINE.json stable_pass.
usage: tools/baseline.py [--fast]   (--fast: pytest-xdist -n 16)"""
import json, os, subprocess, sys, tempfile
import xml.etree.ElementTree as ET

base = json.load(open('/root/.vp/BASELINE.json'))
fd, xml = tempfile.mkstemp(suffix='.junit.xml'); os.close(fd)
cmd = ['/venv/bin/python', '-m', 'pytest', '-ra', '-q', '-p', 'no:cacheprovider', '--timeout=900',
       '--continue-on-collection-errors', f'--junitxml={xml}']
if '--fast' in sys.argv:
    cmd += ['-n', '16']
env = dict(os.environ)
env.pop('ECMWF_IFS_LOKI_VERIF', None)
root = '/repo'
for a in sys.argv[1:]:
    if a.startswith('--root='):
        root = a.split('=', 1)[1]
        env['PYTHONPATH'] = root
try:
    p = subprocess.run(cmd, cwd=root, env=env, capture_output=True, text=True, timeout=3600)
except subprocess.TimeoutExpired:
    print('baseline run timed out after 60 min'); sys.exit(3)
passed = set()
for tc in ET.parse(xml).getroot().iter('testcase'):
    if not any(ch.tag in ('failure', 'error', 'skipped') for ch in tc):
        passed.add(f"{tc.get('classname')}::{tc.get('name')}")
os.unlink(xml)
missing = sorted(set(base['stable_pass']) - passed)
print(p.stdout.strip().splitlines()[-1] if p.stdout.strip() else p.stderr[-500:])
print(f'baseline stable_pass={len(base["stable_pass"])} passed_now={len(passed)} missing={len(missing)}')
for m in missing[:50]:
    print('  MISSING', m)
sys.exit(1 if missing else 0)
