#!/bin/sh
# tools/try_seed_wt.sh <worktree-with-seed-applied> <prop> [tier]: run a check against the code of a seeded scratch worktree
# (used while /repo must not be touched); evidence of that property is restored from git afterwards.
WT="$1"; ID="$2"; TIER="${3:-quick}"
cd /verif || exit 3
ECMWF_IFS_LOKI_VERIF=1 LOKI_LOGGING=ERROR PYTHONDONTWRITEBYTECODE=1 PYTHONPATH=/verif:$WT:$WT/lint_rules .venv/bin/python -m vlib.main "$ID" --tier "$TIER" > /tmp/seed_$ID.out 2>&1; RC=$?
git checkout -- evidence/$ID.json 2>/dev/null
echo "exit=$RC"; grep -c "^VIOLATION" /tmp/seed_$ID.out; grep -A1 "^VIOLATION" /tmp/seed_$ID.out | grep -v "^VIOLATION\|^--" | head -4 | cut -c1-300; tail -1 /tmp/seed_$ID.out | cut -c1-250
