#!/usr/bin/env python3
import json, sys
props = {json.loads(l)['id']: json.loads(l) for l in open('/verif/properties.jsonl')}
pid = sys.argv[1]; wt = sys.argv[2] if len(sys.argv) > 2 else f'/tmp/wt_{pid}'
p = props[pid]
extra = sys.argv[3] if len(sys.argv) > 3 else ''
print(open('/verif/tools/agent_prompt.txt').read().format(
    wt=wt, pid=pid, title=p['title'], statement=p['statement'], quant=p['quantifier']['text'],
    files=', '.join(p['anchors']['files']), mech='; '.join(m['name'] + ' @ ' + m.get('where', '') for m in p['anchors']['mechanism'])) + extra)
