#!/bin/sh
# tools/confirm_seed.sh <worktree> <prop> [name]: confirm a sub-agent's seeded change in its scratch worktree:
#  demo passes without / fails with the change; pinned test suite still passes with the change; then store under seeded/.
WT="$1"; ID="$2"; NAME="${3:-$ID}"
cd "$WT" || exit 3
[ -f seed/patch.diff ] || { echo "no seed/patch.diff"; exit 3; }
# (no git stash: the stash is shared between worktrees)
git diff > /tmp/confirm_$$.diff
git apply -R /tmp/confirm_$$.diff || exit 3
PYTHONPATH="$WT" /venv/bin/python seed/demo.py > /tmp/demo_clean.out 2>&1; RC_CLEAN=$?
git apply /tmp/confirm_$$.diff || exit 3
rm -f /tmp/confirm_$$.diff
PYTHONPATH="$WT" /venv/bin/python seed/demo.py > /tmp/demo_seed.out 2>&1; RC_SEED=$?
echo "demo without change: exit $RC_CLEAN ; with change: exit $RC_SEED"
/verif/tools/baseline.py --fast --root="$WT" > /tmp/base_seed.out 2>&1; RC_BASE=$?
tail -3 /tmp/base_seed.out
if [ $RC_CLEAN -eq 0 ] && [ $RC_SEED -ne 0 ] && [ $RC_BASE -eq 0 ]; then
  D=/verif/seeded/$NAME; mkdir -p $D
  git diff > $D/patch.diff; cp seed/demo.py $D/demo.py; cp seed/meta.json $D/meta.agent.json 2>/dev/null
  echo "CONFIRMED -> $D"
else
  echo "NOT CONFIRMED"
fi
