#!/usr/bin/env python3
"""Regenerate /verif/MANIFEST.json from the table below (single source of truth for what is claimed)."""
import json, os
HERE = os.path.dirname(os.path.dirname(os.path.abspath(__file__)))
props = [json.loads(l)['id'] for l in open(os.path.join(HERE, 'properties.jsonl'))]

# id -> dict(category, text, note, technique, engine, design_ref)
CLAIMED = {}
NA = {}

def claim(pid, category, text, note, technique, engine, ref):
    CLAIMED[pid] = dict(category=category, text=text, note=note, technique=technique, engine=engine, ref=ref)

exec(open(os.path.join(HERE, 'tools', 'claims.py')).read())

checks = []
for pid in props:
    if pid in CLAIMED:
        c = CLAIMED[pid]
        checks.append({
            'property_id': pid,
            'quick_cmd': f'./check {pid} --tier quick',
            'thorough_cmd': f'./check {pid} --tier thorough',
            'evidence_file': f'evidence/{pid}.json',
            'replay_cmd_template': f'./check {pid} --replay {{path}}',
            'engine': c['engine'],
            'level_claimed': {'category': c['category'], 'text': c['text'], 'design_ref': c['ref']},
            'level_note': c['note'],
            'technique': c['technique'],
        })
na = [{'property_id': pid, 'reason': NA.get(pid, 'check not built yet in this round (see DESIGN.md build order)')}
      for pid in props if pid not in CLAIMED]
man = {
    'version': 1,
    'setup_cmd': './setup.sh',
    'hooks': {'guard': 'ECMWF_IFS_LOKI_VERIF', 'enable': 'no source hooks are needed: checks import /repo (editable install) directly; ./check exports ECMWF_IFS_LOKI_VERIF=1 for uniformity',
              'baseline_off_cmd': 'cd /repo && env -u ECMWF_IFS_LOKI_VERIF /venv/bin/python -m pytest -ra -q -p no:cacheprovider --timeout=900 --continue-on-collection-errors',
              'source_commits': [], 'add_only': True},
    'engines': [
        {'name': 'E-SMT', 'path': 'vlib/fsmt', 'kind_free_text': 'own z3 encodings regenerated from live Loki objects (expression trees, IR) under Fortran/C/Python semantics; sat models replayed with gfortran/gcc/CPython',
         'serves_properties': [p for p, c in CLAIMED.items() if c['engine'] == 'E-SMT']},
        {'name': 'E-XH', 'path': 'vlib/xh.py', 'kind_free_text': 'CrossHair 0.0.110 symbolic execution (z3) of real Loki leaf functions, one process per condition, reachability twins',
         'serves_properties': [p for p, c in CLAIMED.items() if c['engine'] == 'E-XH']},
        {'name': 'E-RX', 'path': 'vlib/rx.py', 'kind_free_text': 'live re.Pattern objects translated to z3 regular expressions; string theory decides reachability of a match in a context',
         'serves_properties': [p for p, c in CLAIMED.items() if c['engine'] == 'E-RX']},
    ],
    'checks': checks,
    'not_applicable': na,
    'notes': 'Exit codes: 0 held / 1 VIOLATION / 3 harness error or unreproduced solver model. known_findings.json lists recorded and fixed defects.',
}
json.dump(man, open(os.path.join(HERE, 'MANIFEST.json'), 'w'), indent=1)
print(f'{len(checks)} checks, {len(na)} not applicable')
