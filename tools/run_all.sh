#!/bin/sh
# tools/run_all.sh [tier]: run every claimed check on /repo as it is, rewrite evidence/, print one line per check
TIER="${1:-quick}"
cd /verif || exit 3
for id in $(python3 -c "import json; print(' '.join(c['property_id'] if 'property_id' in c else c['id'] for c in json.load(open('MANIFEST.json'))['checks']))"); do
  /usr/bin/time -f "%es" -o /tmp/run_all_$id.time ./check "$id" --tier "$TIER" > /tmp/run_all_$id.out 2>&1; RC=$?
  echo "$id exit=$RC wall=$(cat /tmp/run_all_$id.time) $(tail -1 /tmp/run_all_$id.out | cut -c1-200)"
done
