#!/bin/sh
# tools/try_seed.sh <patch.diff> <prop> [tier] : apply a seeded change to /repo, run the check, undo.
P="$1"; ID="$2"; TIER="${3:-quick}"
cd /repo || exit 3
git diff --quiet || { echo "/repo has uncommitted changes"; exit 3; }
git apply "$P" || { echo "patch does not apply"; exit 3; }
cd /verif && ./check "$ID" --tier "$TIER" > /tmp/seed_$ID.out 2>&1; RC=$?
cd /repo && git checkout -- . 
echo "exit=$RC"; grep -c "^VIOLATION" /tmp/seed_$ID.out; grep "^  \|HARNESS" /tmp/seed_$ID.out | head -5 | cut -c1-300; tail -1 /tmp/seed_$ID.out | cut -c1-300
