#!/usr/bin/env python3
"""write /verif/seeded/<name>/meta.json from the table below + the agent's own meta"""
import json, os
T = {
 'C06-s1': ('C06', 'tree Product(a, Product(Quotient(b,c), d)) (nested product whose first factor is a quotient, built programmatically)', 'caught by ./check C06 (4 violations, signature fgen:Product(_,Product) / cgen:...)', 'caught'),
 'C07-s1': ('C07', 'derived-type component directly followed by ** with a variable exponent (st%c**n)', 'missed by the first C07 family; caught after component/subscript-next-to-every-operator strings were added (3 violations)', 'caught-after-strengthening'),
 'C08-s1': ('C08', 'Flatten without CollectCoefficients on a product with a Sum factor containing the literal -1 followed by another summand', 'caught by ./check C08 (literal-heavy trees, signature simplify:Flatten...:Product:wrong-in-any-arithmetic)', 'caught'),
 'C09-s1': ('C09', 'flat n-ary Product with an odd number >= 3 of minus signs', 'missed by C08 and C09; caught by both after vlib.corpus.exprs.nary_sign_trees was added', 'caught-after-strengthening'),
 'C10-s1': ('C10', 'negative step with start == stop (single-trip loop do i=3,3,-1)', 'caught by ./check C10 parts A (CrossHair) and B (ast->z3)', 'caught'),
 'C12-s1': ('C12', 'Scope.update(name, fail=False) when only an enclosing scope declares the name', 'missed (only dtype tags compared); caught after pre-state entries got attribute fingerprints (Scope:update)', 'caught-after-strengthening'),
 'C13-s1': ('C13', 'derived-type member created by name with a stale DEFERRED placeholder entry', 'outside the claim at first; caught after classify_derived_member was added (ir.TypeDef built inside the CrossHair harness)', 'caught-after-strengthening'),
 'C28-s1': ('C28', 'two calls to the same function in one statement plus an identical call in another statement', 'missed; caught after functions/same-call-in-two-statements templates (3 violations)', 'caught-after-strengthening'),
 'C29-s1': ('C29', 'ASSOCIATE selector with a fixed subscript before a free range (row => b(j, :))', 'missed; caught after fixed-before-range / 3-D selector templates', 'caught-after-strengthening'),
 'C30-s1': ('C30', 'partial resolution of a multi-dimensional section (assumed-shape arrays, resolve_vector_dimension on a non-leading dimension, resolve_implicit_rhs_ranges=False)', 'missed; caught after the partial/* templates (8 violations)', 'caught-after-strengthening'),
 'C31-s1': ('C31', 'interchange with project_bounds on triangular nests with literal outer bounds not implied by the inner range', 'missed; caught after literal triangular nests (3 violations)', 'caught-after-strengthening'),
 'C32-s1': ('C32', 'loop index holds a known constant immediately before the DO loop and is used in the body', 'missed; caught after index-const-before-loop templates (9 violations)', 'caught-after-strengthening'),
}
for name, (prop, needs, verdict, status) in T.items():
    d = f'/verif/seeded/{name}'
    if not os.path.isdir(d):
        continue
    agent = {}
    try:
        agent = json.load(open(f'{d}/meta.agent.json'))
    except Exception:
        pass
    meta = {'property': prop, 'breaks': agent.get('summary', ''), 'needs_to_manifest': needs,
            'files_changed': agent.get('files_changed'),
            'confirmed_by': 'tools/confirm_seed.sh: seed/demo.py exits 0 without and non-zero with the change; pinned suite (tools/baseline.py --fast --root=<worktree>) matches BASELINE.json stable_pass with the change applied',
            'check_result': verdict, 'status': status,
            'how_to_run': f'git -C /repo apply /verif/seeded/{name}/patch.diff && ./check {prop}; git -C /repo checkout -- .'}
    json.dump(meta, open(f'{d}/meta.json', 'w'), indent=1)
    print('wrote', name)
