#!/usr/bin/env python3
"""write /verif/seeded/<name>/meta.json from the table below + the agent's own meta"""
import json, os
T = {
 'C06-s1': ('C06', 'tree Product(a, Product(Quotient(b,c), d)) (nested product whose first factor is a quotient, built programmatically)', 'caught by ./check C06 (4 violations, signature fgen:Product(_,Product) / cgen:...)', 'caught'),
 'C07-s1': ('C07', 'derived-type component directly followed by ** with a variable exponent (st%c**n)', 'missed by the first C07 family; caught after component/subscript-next-to-every-operator strings were added (3 violations)', 'caught-after-strengthening'),
 'C08-s1': ('C08', 'Flatten without CollectCoefficients on a product with a Sum factor containing the literal -1 followed by another summand', 'caught by ./check C08 (literal-heavy trees, signature simplify:Flatten...:Product:wrong-in-any-arithmetic)', 'caught'),
 'C09-s1': ('C09', 'flat n-ary Product with an odd number >= 3 of minus signs', 'missed by C08 and C09; caught by both after vlib.corpus.exprs.nary_sign_trees was added', 'caught-after-strengthening'),
 'C10-s1': ('C10', 'negative step with start == stop (single-trip loop do i=3,3,-1)', 'caught by ./check C10 parts A (CrossHair) and B (ast->z3)', 'caught'),
 'C12-s1': ('C12', 'Scope.update(name, fail=False) when only an enclosing scope declares the name', 'missed (only dtype tags compared); caught after pre-state entries got attribute fingerprints (Scope:update)', 'caught-after-strengthening'),
 'C13-s1': ('C13', 'derived-type member created by name with a stale DEFERRED placeholder entry', 'outside the claim at first; caught after classify_derived_member was added (ir.TypeDef built inside the CrossHair harness)', 'caught-after-strengthening'),
 'C28-s1': ('C28', 'two calls to the same function in one statement plus an identical call in another statement', 'missed; caught after functions/same-call-in-two-statements templates (3 violations)', 'caught-after-strengthening'),
 'C29-s1': ('C29', 'ASSOCIATE selector with a fixed subscript before a free range (row => b(j, :))', 'missed; caught after fixed-before-range / 3-D selector templates', 'caught-after-strengthening'),
 'C30-s1': ('C30', 'partial resolution of a multi-dimensional section (assumed-shape arrays, resolve_vector_dimension on a non-leading dimension, resolve_implicit_rhs_ranges=False)', 'missed; caught after the partial/* templates (8 violations)', 'caught-after-strengthening'),
 'C31-s1': ('C31', 'interchange with project_bounds on triangular nests with literal outer bounds not implied by the inner range', 'missed; caught after literal triangular nests (3 violations)', 'caught-after-strengthening'),
 'C32-s1': ('C32', 'loop index holds a known constant immediately before the DO loop and is used in the body', 'missed; caught after index-const-before-loop templates (9 violations)', 'caught-after-strengthening'),

 'C21-s1': ('C21', 'nested type-bound item name (t_mod#t%yay%proc) with a config key naming the intermediate component (t%yay)', 'caught by ./check C21 (match_single_key(8, 8, True, True))', 'caught'),
 'C23-s1': ('C23', 'unqualified USE + a call spelled with upper-case letters: ItemFactory.get_or_create_module_definitions_from_candidates compares case-sensitively', 'missed at first (graph construction was outside the partial claim); caught after the look-up kernel itself became a CrossHair condition (definition_lookup(2, 1): pool of name / module spellings on a module read by the REGEX frontend)', 'caught-after-strengthening'),
 'C26-s1': ('C26', 'variable written in one CASE branch and read in a later CASE branch dropped from uses_symbols of the SELECT CASE', 'caught by ./check C26 (dataflow:uses_symbols:MultiConditional:select-case:t)', 'caught'),
 'C33-s1': ('C33', 'outline pragma with explicit out(v) for a variable the analysis derives as inout, plus another derived out variable', 'missed; caught after pragma-narrows-inout-to-out / pragma-out-plus-derived-out templates', 'caught-after-strengthening'),
 'C34-s1': ('C34', 'rank-reducing section with the fixed subscript not last (a(i,:,:)) passed to an assumed-shape dummy, then explicit-shape transformation', 'missed; caught after argshape/section-* templates', 'caught-after-strengthening'),
 'C36-s1': ('C36', 'array section whose upper bound or stride contains a subscripted array (a(lo(j):hi(j))): stop/step keep the one-based inner subscript', 'missed (section bounds had to be concrete); caught after input index arrays with fixed values were added (section-bounds/stride/rhs-bounds-from-index-arrays: IndexError found by the solver path, confirmed by CPython)', 'caught-after-strengthening'),
 'C17-s1': ('C17', 'declaration whose initial value references other symbols (nn = 2*n0 + 1) without kind: the re-scoped initial expression is dropped, the clone keeps symbols attached to the original', 'missed; caught after clone-symbols-scoped-through-clone (structural) and retype-original-parameters-then-inline-clone (solver + gfortran replay: -1.5 vs -13.0) cases', 'caught-after-strengthening'),
 'C16-s1': ('C16', 'pragma attached to a loop / call inside an ELSE or ELSE IF branch: the detacher skips else bodies', 'missed (corpus had no pragmas, pragmas had no observable); caught after pragma annotations became part of the observable trace (Interp.trace_pragmas, position-indexed trace equivalence, pragma-as-print gfortran replay) and 9 pragma-rich templates were added (6 violations)', 'caught-after-strengthening'),
 'C03-s1': ('C03', 'two modifications in sequence: a pass that marks a Loop / Conditional INVALID_CHILDREN (body edit), then a substitution that changes the header expressions of the same node', 'missed (single edits only); caught after edit sequences (body statement then loop bounds / IF conditions, both orders) were added: 93 violations', 'caught-after-strengthening'),
 'C01-s1': ('C01', 'REAL / INT conversion with the kind given positionally (real(n, dp)): the kind is dropped by the frontend', 'missed (both sides of the round-trip obligation are parsed by the same frontend and reals are exact); caught after every self-validation input is also replayed end to end with exact output comparison (gfortran(text) vs gfortran(fgen(parse(text)))) and positional-kind casts were added to the corpus', 'caught-after-strengthening'),
 'C18-s1': ('C18', 'symbol imported via USE from a module whose definition is known (type.module set): the link is dropped by SymbolAttributes.__getstate__', 'missed (behaviour unchanged); caught after the attribute-by-attribute type fingerprint comparison of original and unpickled symbol tables (same-types cases)', 'caught-after-strengthening'),
 'C27-s1': ('C27', 'if/else (or else-if) inside a loop where the else side reads a variable written in the if-branch of the same conditional: it drops out of uses_symbols and loop_carried_dependencies', 'caught at once by ./check C26 (uses_symbols of the Conditional); missed by C27 until loops carrying values through different branches (if/else, else-if, nested if, WHERE/ELSEWHERE, SELECT CASE) were added to the routine corpus', 'caught-after-strengthening'),
 'C35-s1': ('C35', 'REAL(...) conversion of an integer quotient: cgen drops the parentheses around the cast operand, (double) iv / 2 instead of (double) (iv / 2)', 'missed (no template had a conversion of an integer quotient); caught after cast-of-int-quotient / cast-of-int-expressions / cast-of-array-element-quotient / cast-of-mod templates (7.0 vs 7.4166...)', 'caught-after-strengthening'),
 'C38-s1': ('C38', 'pool allocator: per-call stack requirements of successors kept in a dict keyed by callee name, so of several calls to the same kernel only the last one counts in MAX(...) for ISTSZ', 'missed (pool allocator was outside the C38 corpus: Cray pointers were not interpreted); caught after the interpreter learnt the address arithmetic of the pool allocator (LOC / C_SIZEOF / ISHFT, pointee regions with bounds and overlap traps) and 5 Scheduler-driven call trees were added; replay with gfortran -fcray-pointer -fsanitize=address', 'caught-after-strengthening'),
 'C43-s1': ('C43', 'DynamicUboundCheckRule treats dummies with an explicit lower bound (b(0:, :)) as assumed-shape and rewrites them to b(klon, klev): the lower bound is dropped by the fix', 'missed (the only UBOUND template was a module procedure, where the fix is lost by the conservative write); caught after free-subroutine templates with lower bounds in either dimension were added (solver model + gfortran replay)', 'caught-after-strengthening'),
 'C37-s1': ('C37', 'kernel temporary declared with upper-case letters, written before and read after a nested kernel call (vector pipelines)', 'missed; caught after the temp-across-nested-call call tree and upper-case spelling variants were added', 'caught-after-strengthening'),
}
for name, (prop, needs, verdict, status) in T.items():
    d = f'/verif/seeded/{name}'
    if not os.path.isdir(d):
        continue
    agent = {}
    try:
        agent = json.load(open(f'{d}/meta.agent.json'))
    except Exception:
        pass
    meta = {'property': prop, 'breaks': agent.get('summary', ''), 'needs_to_manifest': needs,
            'files_changed': agent.get('files_changed'),
            'confirmed_by': 'tools/confirm_seed.sh: seed/demo.py exits 0 without and non-zero with the change; pinned suite (tools/baseline.py --fast --root=<worktree>) matches BASELINE.json stable_pass with the change applied',
            'check_result': verdict, 'status': status,
            'how_to_run': f'git -C /repo apply /verif/seeded/{name}/patch.diff && ./check {prop}; git -C /repo checkout -- .'}
    json.dump(meta, open(f'{d}/meta.json', 'w'), indent=1)
    print('wrote', name)
